//! C11: after a connection failure the client retransmits first, unchanged, and (3.1.1 client,
//! in-order-acking broker) in original order; with no session nothing is carried over.
//! Substrate S3: real `EventLoop::poll()` of both clients against the scripted broker, with the
//! failure enumerated at every byte of both directions of the first connection (`FaultyStream`).
//!
//! The oracle reads only the wire (what the client handed to the transport, decoded with the
//! broker's codec), the scripted user's own record of when it issued which request, and – for
//! the "starts clean" clause – the public bookkeeping right after the CONNACK.
use super::{Meta, Prop};
use crate::common::{fnv, judge, sharded, Ctx, Judged, Record, Rng, Stats};
use crate::sub::s3::{self, *};
use serde::{Deserialize, Serialize};
use serde_json::{json, Value};
use std::collections::{BTreeMap, BTreeSet};

#[derive(Clone, Debug, Serialize, Deserialize, PartialEq)]
enum Op {
    /// publish with payload "p<n>" on topic "t"
    Pub { qos: u8, n: usize },
    /// subscribe to the filter "f/<n>"
    Sub { n: usize },
    Unsub { n: usize },
}

#[derive(Clone, Debug, Serialize, Deserialize, PartialEq)]
enum FaultSpec {
    /// client→broker direction fails after k bytes
    C2b(u64),
    /// broker→client direction ends after k bytes: EOF
    B2cEof(u64),
    /// … with ConnectionReset
    B2cReset(u64),
    /// the broker closes the pipe 1 s after accepting it
    Close,
}

#[derive(Clone, Debug, Serialize, Deserialize, PartialEq)]
struct ConnSpec {
    /// CONNACK session_present (ignored for a refused attempt)
    session_present: bool,
    /// the transport connect is refused (no connection comes into being)
    refuse: bool,
    /// the broker answers the first `acks` QoS>0 publishes of this connection normally (in
    /// order) and ignores later ones; None = answers all
    acks: Option<usize>,
    /// broker answers QoS 1 publishes in reverse order in windows of this size (out-of-order acks)
    reorder: Option<usize>,
    fault: Option<FaultSpec>,
    /// requests the user issues right after this connection (attempt) has ended
    late: Vec<Op>,
}

#[derive(Clone, Debug, Serialize, Deserialize, PartialEq)]
struct Case {
    ver: String,
    inflight: u16,
    /// requests issued right after the first CONNACK
    ops: Vec<Op>,
    /// one entry per connection attempt; the last one is fault-free and runs until idle
    conns: Vec<ConnSpec>,
    /// `MqttOptions::set_pending_throttle` in microseconds (virtual time): pause between two replayed requests,
    /// during which broker traffic arrives
    #[serde(default)]
    throttle_us: u64,
}

fn ver_of(c: &Case) -> Ver {
    if c.ver == "v5" {
        Ver::V5
    } else {
        Ver::V4
    }
}

fn act_of(op: &Op) -> Act {
    match op {
        Op::Pub { qos, n } => Act::publish(*qos, "t", &format!("p{n}")),
        Op::Sub { n } => Act::Subscribe {
            filter: format!("f/{n}"),
            qos: 1,
        },
        Op::Unsub { n } => Act::Unsubscribe { filter: format!("f/{n}") },
    }
}

fn ident_of_pk(pk: &Pk) -> Option<String> {
    match pk.kind {
        Kind::Publish => Some(pk.payload.clone()),
        Kind::Subscribe => pk.filters.first().map(|f| format!("S:{f}")),
        Kind::Unsubscribe => pk.filters.first().map(|f| format!("U:{f}")),
        _ => None,
    }
}

fn build(case: &Case) -> Scenario {
    let mut scn = Scenario::new(ver_of(case));
    scn.opts.keep_alive_s = 5;
    scn.opts.clean_session = false;
    scn.opts.inflight = case.inflight;
    scn.opts.channel_cap = 1024;
    scn.opts.pending_throttle_us = case.throttle_us;
    if case.throttle_us >= 100_000 {
        // the idle ping must not come while the pending queue is still being replayed at 0.4 s per request
        scn.opts.keep_alive_s = 60;
    }
    scn.snap = SnapLevel::Full;
    scn.conns.clear();
    for (i, c) in case.conns.iter().enumerate() {
        let mut p = ConnPolicy::normal(c.session_present);
        if c.refuse {
            p.accept = Accept::Refuse;
        }
        if let Some(n) = c.acks {
            // QoS 1 and QoS 2 publishes are counted together by position: the rule sequences
            // are per class, so give both classes the same cut-off on their own counters
            p.rules.insert(On::PublishQ1, RuleSeq::normal_then(n, Reply::Drop));
            p.rules.insert(On::PublishQ2, RuleSeq::normal_then(n, Reply::Drop));
        }
        if let Some(w) = c.reorder {
            p.rules.insert(On::PublishQ1, RuleSeq::always(Reply::Reorder(w)));
        }
        let fault = match &c.fault {
            Some(FaultSpec::C2b(k)) => Fault::c2b(*k),
            Some(FaultSpec::B2cEof(k)) => Fault::b2c(*k, EndKind::Eof),
            Some(FaultSpec::B2cReset(k)) => Fault::b2c(*k, EndKind::Reset),
            Some(FaultSpec::Close) => {
                p.close_at_ms = Some(1000);
                Fault::NONE
            }
            None => Fault::NONE,
        };
        if c.fault.is_some() {
            // a byte fault that never fires must not leave the connection up for ever
            p.close_at_ms = Some(p.close_at_ms.unwrap_or(1000));
        }
        scn.conns.push(ConnPlan { policy: p, fault });
        for op in &c.late {
            scn.user.push(UserStep {
                when: When::AfterConnEnd(i),
                act: act_of(op),
            });
        }
    }
    // idle = the keep-alive ping of a connection nobody disturbed (also of connections the
    // script did not plan: an unexpected failure reconnects with the last plan)
    for i in 0..case.conns.len() + 6 {
        scn.stop.when.push(When::AfterEvent {
            conn: i,
            incoming: false,
            kind: Kind::PingReq,
            nth: 0,
        });
    }
    for op in &case.ops {
        scn.user.push(UserStep {
            when: When::AfterConnAck(0),
            act: act_of(op),
        });
    }
    scn.horizon_ms = if scn.opts.keep_alive_s > 5 { 400_000 } else { 60_000 };
    scn
}

#[derive(Clone, Debug, PartialEq)]
enum Class {
    /// transmitted (at least handed to the transport), no acknowledgement ever reached the client
    Must,
    /// an acknowledgement was delivered to the client's transport; it may or may not have been
    /// processed before the failure
    May,
}

#[derive(Clone, Debug)]
struct Carried {
    ident: String,
    pkid: u16,
    qos: u8,
    topic: String,
    /// position in the order of first transmissions
    order: usize,
    class: Class,
}

struct Facts<'a> {
    case: &'a Case,
}

impl Facts<'_> {
    fn rec(&self, oracle: &str, msg: String) -> Record {
        Record::new("C11", oracle, msg).fact("client", self.case.ver.clone())
    }
}

/// All oracles over one run. Returns the records in the order the history produced them.
fn verdicts(ctx: &Ctx, case: &Case, log: &RunLog, stats: &mut Stats) -> Vec<Record> {
    let f = Facts { case };
    let mut out = vec![];
    if let Some(p) = &log.panic {
        out.push(
            f.rec("panic", format!("panic in the client at {}: {}", p.location, p.message))
                .fact("site", crate::common::panic_site(p)),
        );
        return out;
    }

    // when did the user issue what: ident -> number of poll() returns before the request
    let mut issued: BTreeMap<String, usize> = BTreeMap::new();
    for u in &log.user {
        let id = match &u.act {
            Act::Publish { payload, .. } => payload.clone(),
            Act::Subscribe { filter, .. } => format!("S:{filter}"),
            Act::Unsubscribe { filter } => format!("U:{filter}"),
            _ => continue,
        };
        if u.ok {
            issued.insert(id, u.polls_before);
        }
    }

    // publishes that were parked on a packet-id collision and later released: payload -> kind of
    // the acknowledgement that released them (only used to label a finding, never for a verdict)
    let mut released_by: BTreeMap<String, String> = BTreeMap::new();
    let mut parked: Option<(u16, String)> = None;
    // the connection a read batch ran on whose events were reported up to poll record `i`: events
    // of a connection that failed inside the batch are only reported after the reconnect
    let batch_conn = |i: usize| -> usize {
        let j = log.polls[..i].iter().rposition(|q| q.snap.queued_events_len == 0).unwrap_or(0);
        log.polls[j..=i]
            .iter()
            .find(|q| q.err().is_some())
            .or(Some(&log.polls[i]))
            .and_then(|q| q.conn)
            .unwrap_or(0)
    };
    let mut taint: Option<(usize, Record)> = None; // (connection the release happened on, record)
    for (i, p) in log.polls.iter().enumerate() {
        if p.is(false, Kind::AwaitAck) {
            if let (Some(id), Some(pl)) = (p.snap.collision, p.snap.collision_payload.clone()) {
                parked = Some((id, pl));
            }
        } else if let (Some((id, pl)), Some(e)) = (&parked, p.ev()) {
            if !e.incoming && e.pk.kind == Kind::Publish && e.pk.pkid == *id && i > 0 {
                if let Some(prev) = log.polls[i - 1].ev() {
                    if prev.incoming && prev.pk.pkid == *id && matches!(prev.pk.kind, Kind::PubAck | Kind::PubComp) {
                        released_by.insert(pl.clone(), format!("{:?}", prev.pk.kind));
                        // is the released publish in the client's books (unacknowledged table or
                        // replay queue) right after the release was reported?
                        let tracked = p
                            .snap
                            .held
                            .iter()
                            .chain(p.snap.pending.iter())
                            .any(|r| r.kind == Kind::Publish && r.payload == *pl);
                        if !tracked && taint.is_none() {
                            let r = f
                                .rec(
                                    "released-publish-not-tracked",
                                    format!(
                                        "publish '{pl}' parked on the collision of id {id} was released by {:?} and written, but is neither in the unacknowledged table nor in the replay queue",
                                        prev.pk.kind
                                    ),
                                )
                                .fact("released_by", format!("{:?}", prev.pk.kind));
                            // bookkeeping is corrupt from here on: only used to stop judging when this
                            // is a listed finding; it is C02's statement, not C11's
                            if crate::common::match_known(&ctx.known, &r).is_some() {
                                taint = Some((batch_conn(i), r));
                            }
                        }
                        // A PUBCOMP(id) ends the QoS 2 flow that owned the id; if meanwhile another
                        // publish was given the same id (ids are re-issued between PUBREC and PUBCOMP)
                        // the parked publish was waiting for *that* one. Releasing it now evicts the
                        // holder from the unacknowledged table.
                        if prev.pk.kind == Kind::PubComp && taint.is_none() {
                            // last return before the read batch that carried the PUBCOMP
                            let j = log.polls[..i - 1].iter().rposition(|q| q.snap.queued_events_len == 0);
                            let lost_session = |a: usize, b: usize| {
                                log.polls[a..b].iter().any(|q| q.is(true, Kind::ConnAck) && !q.ev().unwrap().pk.flag)
                            };
                            if let Some(j) = j {
                                let books = |q: &PollRec| -> Vec<Req> { q.snap.held.iter().chain(q.snap.pending.iter()).cloned().collect() };
                                let holder = books(&log.polls[j])
                                    .into_iter()
                                    .find(|r| r.kind == Kind::Publish && r.pkid == *id && r.payload != *pl);
                                if let Some(h) = holder {
                                    let acked_between = log.polls[j + 1..=i].iter().any(|q| {
                                        q.ev().map(|e| e.incoming && e.pk.pkid == *id && matches!(e.pk.kind, Kind::PubAck | Kind::PubRec)).unwrap_or(false)
                                    });
                                    let still = books(p).iter().any(|r| r.kind == Kind::Publish && r.payload == h.payload);
                                    if !acked_between && !still && !lost_session(j, i) {
                                        let r = f
                                            .rec(
                                                "collision-release-evicted-holder",
                                                format!(
                                                    "PUBCOMP({id}) released the parked publish '{pl}' although id {id} was held by the unacknowledged publish '{}', which is now in none of the client's tables",
                                                    h.payload
                                                ),
                                            )
                                            .fact("released_by", "PubComp");
                                        if crate::common::match_known(&ctx.known, &r).is_some() {
                                            taint = Some((batch_conn(i), r));
                                        }
                                    }
                                }
                            }
                        }
                        parked = None;
                    }
                }
            }
        }
    }

    // carried-over bookkeeping, built connection by connection from the wire
    let mut carried: Vec<Carried> = vec![]; // publishes transmitted and not known to be acknowledged
    let mut order_no = 0usize;
    let mut in_order_broker = true; // every PUBACK so far answered the oldest outstanding QoS 1 publish
    let mut ever_on_wire: BTreeSet<String> = BTreeSet::new();
    let mut qos_mix = false; // ids were consumed by something other than QoS 1 publishes
    let mut prev_established: Option<usize> = None; // last connection that got a CONNACK
    let mut prev_end_poll: usize = 0; // poll index of the Err that ended it
    let mut replay_interrupted = false; // an earlier resumed connection failed before finishing its replay
    let mut session_lost_before = false; // an earlier reconnect found no session

    let nconn = log.conns.len();
    for n in 0..nconn {
        let rec = &log.conns[n];
        let connack = log.connack_of(n);
        let established = connack.is_some();
        let frames: Vec<&Intended> = rec.intended.iter().collect();
        if let Some((released_on, r)) = &taint {
            // the client's books are corrupt from the release on: connections after the one it
            // happened on are not judged
            if n > *released_on {
                out.push(r.clone());
                return out;
            }
        }
        if established {
            if let Some(prev) = prev_established {
                let session_present = connack.unwrap().ev().unwrap().pk.flag;
                let late: BTreeSet<&String> = issued.iter().filter(|(_, at)| **at > prev_end_poll).map(|(k, _)| k).collect();
                let carried_ids: BTreeMap<&str, &Carried> = carried.iter().map(|c| (c.ident.as_str(), c)).collect();
                let before: BTreeSet<&String> = issued.iter().filter(|(_, at)| **at <= prev_end_poll).map(|(k, _)| k).collect();
                let went_idle = log.polls_of(n).any(|p| p.is(false, Kind::PingReq)) && log.end_of(n).is_none();

                if session_present {
                    stats.corner("reconnect-session-present");
                    // ---- O1 retransmit-before-new, O2 same id/content, O3 original order
                    let mut seen: Vec<&Carried> = vec![];
                    let mut first_late: Option<String> = None;
                    for fr in &frames {
                        let Some(id) = ident_of_pk(&fr.pk) else { continue };
                        if let Some(c) = carried_ids.get(id.as_str()) {
                            stats.oracle("same-id-content");
                            if fr.pk.pkid != c.pkid || fr.pk.qos != c.qos || fr.pk.topic != c.topic {
                                out.push(
                                    f.rec(
                                        "retransmit-changed",
                                        format!(
                                            "connection {n}: publish '{id}' first sent as id {} qos {} topic '{}' was retransmitted as {}",
                                            c.pkid, c.qos, c.topic, fr.pk.brief()
                                        ),
                                    )
                                    .fact("pkid_changed", fr.pk.pkid != c.pkid),
                                );
                                return out;
                            }
                            if first_late.is_none() {
                                seen.push(c);
                            }
                        } else if late.contains(&id) && first_late.is_none() {
                            first_late = Some(id);
                        }
                    }
                    // O1: when a later request went out, every MUST publish had gone out before it
                    if first_late.is_some() || went_idle {
                        stats.oracle("retransmit-before-new");
                        let missing: Vec<&Carried> = carried
                            .iter()
                            .filter(|c| c.class == Class::Must && !seen.iter().any(|s| s.ident == c.ident))
                            .collect();
                        if let Some(m) = missing.first() {
                            let (oracle, what) = match &first_late {
                                Some(l) => (
                                    "new-request-before-retransmission",
                                    format!("request '{l}' issued after the failure was sent before it"),
                                ),
                                None => ("retransmit-missing", "the connection went idle without it".to_owned()),
                            };
                            out.push(
                                f.rec(
                                    oracle,
                                    format!(
                                        "connection {n} resumed the session; unacknowledged publish '{}' (id {}) of connection {prev}: {what}; wire: {:?}",
                                        m.ident,
                                        m.pkid,
                                        frames.iter().map(|x| x.pk.brief()).collect::<Vec<_>>()
                                    ),
                                )
                                .fact("qos", m.qos)
                                .fact("after_interrupted_replay", replay_interrupted)
                                .fact(
                                    "collision_released_by",
                                    released_by.get(&m.ident).cloned().unwrap_or_else(|| "-".into()),
                                ),
                            );
                            return out;
                        }
                    }
                    // O3: QoS 1 retransmissions in original order (3.1.1 client, in-order broker)
                    if case.ver == "v4" && in_order_broker {
                        stats.oracle("original-order");
                        let sent: Vec<&Carried> = seen.iter().copied().filter(|c| c.qos == 1).collect();
                        let mut reference: Vec<&Carried> = carried.iter().filter(|c| c.qos == 1).collect();
                        reference.sort_by_key(|c| c.order);
                        // `sent` must be the reference with only MAY elements (and a tail) missing
                        let mut ri = 0;
                        let mut bad: Option<String> = None;
                        for s in &sent {
                            loop {
                                match reference.get(ri) {
                                    None => {
                                        bad = Some(format!("'{}' is out of place", s.ident));
                                        break;
                                    }
                                    Some(r) if r.ident == s.ident => {
                                        ri += 1;
                                        break;
                                    }
                                    Some(r) if r.class == Class::May => ri += 1,
                                    Some(r) => {
                                        bad = Some(format!("'{}' was sent before the older '{}'", s.ident, r.ident));
                                        break;
                                    }
                                }
                            }
                            if bad.is_some() {
                                break;
                            }
                        }
                        if let Some(b) = bad {
                            // Facts that say *which* ordering the client used instead. The id of the
                            // last PUBACK the client processed before the failure, as poll() showed it:
                            let mut last_acked: u16 = 0;
                            let mut collision_before = false;
                            let upto = &log.polls[..=prev_end_poll];
                            let queued = log.polls[prev_end_poll].snap.queued_events.iter();
                            for e in upto.iter().filter_map(|p| p.ev()).chain(queued) {
                                if e.incoming && e.pk.kind == Kind::ConnAck && !e.pk.flag {
                                    last_acked = 0;
                                    collision_before = false;
                                } else if e.incoming && e.pk.kind == Kind::PubAck {
                                    last_acked = e.pk.pkid;
                                } else if !e.incoming && e.pk.kind == Kind::AwaitAck {
                                    collision_before = true;
                                }
                            }
                            // "packet ids ascending, starting behind the last acknowledged id"
                            let limit = case.inflight;
                            let key = |c: &Carried| if c.pkid > last_acked { c.pkid - last_acked } else { c.pkid + limit - last_acked };
                            let mut by_id = sent.clone();
                            by_id.sort_by_key(|c| key(c));
                            let explained = by_id.iter().map(|c| &c.ident).eq(sent.iter().map(|c| &c.ident));
                            let wrapped = reference.windows(2).any(|w| w[0].pkid > w[1].pkid);
                            if wrapped {
                                stats.corner("pkid-wrapped");
                            }
                            out.push(
                                f.rec(
                                    "retransmit-order",
                                    format!(
                                        "connection {n}: QoS 1 retransmissions out of original order: {b}; original order {:?}, retransmitted {:?}",
                                        reference.iter().map(|c| format!("{}#{}", c.ident, c.pkid)).collect::<Vec<_>>(),
                                        sent.iter().map(|c| format!("{}#{}", c.ident, c.pkid)).collect::<Vec<_>>()
                                    ),
                                )
                                .fact("order_is_packet_id_rotation_at_last_puback", explained)
                                .fact("last_puback", last_acked)
                                .fact("ids_shared_with_other_requests", qos_mix)
                                .fact("collision_since_session_start", collision_before)
                                .fact("after_session_loss", session_lost_before)
                                .fact("wrapped", wrapped),
                            );
                            return out;
                        }
                        if reference.windows(2).any(|w| w[0].pkid > w[1].pkid) && sent.len() >= 2 {
                            stats.corner("pkid-wrapped");
                        }
                    }
                    // did this resumed connection fail before everything carried over (unacknowledged
                    // publishes *and* requests that were still queued at the failure) was on the wire?
                    if log.end_of(n).is_some() {
                        let on_wire_now: BTreeSet<String> = frames.iter().filter_map(|x| ident_of_pk(&x.pk)).collect();
                        let unsent_carried = carried.iter().any(|c| !on_wire_now.contains(&c.ident));
                        let unsent_queued = before.iter().any(|id| !ever_on_wire.contains(*id) && !on_wire_now.contains(*id));
                        if unsent_carried || unsent_queued {
                            replay_interrupted = true;
                            stats.corner("failure-during-replay");
                        }
                    }
                } else {
                    stats.corner("reconnect-session-absent");
                    // ---- O4 nothing carried over
                    stats.oracle("no-carry-over");
                    for fr in &frames {
                        let Some(id) = ident_of_pk(&fr.pk) else { continue };
                        if before.contains(&id) {
                            let class = match carried_ids.get(id.as_str()) {
                                Some(c) if c.class == Class::Must => "unacknowledged",
                                Some(_) => "maybe-acknowledged",
                                None if ever_on_wire.contains(&id) => "acknowledged",
                                None => "not-yet-sent",
                            };
                            out.push(
                                f.rec(
                                    "carried-over-without-session",
                                    format!(
                                        "connection {n}: broker reported no session but request '{id}' issued before the failure was sent: {}",
                                        fr.pk.brief()
                                    ),
                                )
                                .fact("class", class)
                                .fact("kind", format!("{:?}", fr.pk.kind)),
                            );
                            return out;
                        }
                    }
                    // ---- O5 starts clean
                    stats.oracle("starts-clean");
                    let s = &connack.unwrap().snap;
                    let leftover = if s.pending_len > 0 {
                        Some("pending")
                    } else if s.inflight != 0 {
                        Some("inflight")
                    } else if !s.held.is_empty() {
                        Some("unacked-table")
                    } else if s.collision.is_some() {
                        Some("collision")
                    } else {
                        None
                    };
                    if let Some(l) = leftover {
                        out.push(
                            f.rec(
                                "not-clean-without-session",
                                format!(
                                    "connection {n}: broker reported no session but the client still holds state: pending={} inflight={} unacked={:?} collision={:?}",
                                    s.pending_len, s.inflight, s.held, s.collision
                                ),
                            )
                            .fact("leftover", l),
                        );
                        return out;
                    }
                    carried.clear();
                    replay_interrupted = false;
                    session_lost_before = true;
                }
            }
        }

        // ---- update the model with what this connection put on the wire and got acknowledged
        for fr in &frames {
            if let Some(id) = ident_of_pk(&fr.pk) {
                ever_on_wire.insert(id.clone());
                match fr.pk.kind {
                    Kind::Publish if fr.pk.qos > 0 => {
                        if fr.pk.qos == 2 {
                            qos_mix = true;
                        }
                        if !carried.iter().any(|c| c.ident == id) {
                            carried.push(Carried {
                                ident: id,
                                pkid: fr.pk.pkid,
                                qos: fr.pk.qos,
                                topic: fr.pk.topic.clone(),
                                order: order_no,
                                class: Class::Must,
                            });
                            order_no += 1;
                        }
                    }
                    Kind::Subscribe | Kind::Unsubscribe => qos_mix = true,
                    _ => {}
                }
            }
        }
        // acknowledgements the broker wrote on this connection, in wire order, each with the
        // publish it answered (packet ids are reused, so the pairing is done on the broker's side
        // of the wire where it is unambiguous)
        let mut outstanding: Vec<(u16, String, u8)> = vec![]; // (pkid, ident, qos) as the broker received them
        let mut acks_written: Vec<(String, bool)> = vec![]; // (publish answered, ack bytes reached the client's transport)
        for w in log.wire.iter().filter(|w| w.conn == n) {
            match (w.dir, w.pk.kind) {
                (Dir::C2B, Kind::Publish) if w.pk.qos > 0 => outstanding.push((w.pk.pkid, w.pk.payload.clone(), w.pk.qos)),
                (Dir::B2C, Kind::PubAck) | (Dir::B2C, Kind::PubRec) if !w.suppressed => {
                    let Some(pos) = outstanding.iter().position(|o| o.0 == w.pk.pkid) else {
                        acks_written.push((String::new(), w.end_offset <= rec.b2c_bytes));
                        continue;
                    };
                    if w.pk.kind == Kind::PubAck {
                        let oldest_q1 = outstanding.iter().position(|o| o.2 == 1);
                        if oldest_q1 != Some(pos) {
                            in_order_broker = false;
                        }
                    }
                    let (_, ident, _) = outstanding.remove(pos);
                    acks_written.push((ident, w.end_offset <= rec.b2c_bytes));
                }
                _ => {}
            }
        }
        if established {
            if let Some(end) = log.end_of(n) {
                // How many of those acknowledgements did the client process? It processes the
                // delivered stream in order, so the count is enough: PUBACK/PUBREC events returned
                // by poll() since the previous failure, minus the ones that were still queued from
                // the previous connection, plus the ones still queued now.
                let is_ack = |e: &Ev| e.incoming && matches!(e.pk.kind, Kind::PubAck | Kind::PubRec);
                let prev_err = log.polls[..end.idx].iter().rposition(|p| p.err().is_some());
                let span_from = prev_err.map(|i| i + 1).unwrap_or(0);
                let surfaced = log.polls[span_from..end.idx].iter().filter(|p| p.ev().map(is_ack).unwrap_or(false)).count();
                let stale = prev_err
                    .map(|i| log.polls[i].snap.queued_events.iter().filter(|e| is_ack(e)).count())
                    .unwrap_or(0);
                let queued = end.snap.queued_events.iter().filter(|e| is_ack(e)).count();
                let processed = (surfaced + queued).saturating_sub(stale);
                let delivered = acks_written.iter().filter(|a| a.1).count();
                if processed > delivered || surfaced < stale {
                    stats.add_extra("histories_unaligned", 1);
                    stats.inconclusive.push(format!(
                        "connection {n}: client processed {processed} acknowledgements but only {delivered} reached its transport (surfaced {surfaced}, stale {stale}, queued {queued})"
                    ));
                    return out;
                }
                for (i, (ident, delivered)) in acks_written.iter().enumerate() {
                    if i < processed {
                        // acknowledged as far as the client is concerned: no longer carried
                        carried.retain(|c| c.ident != *ident);
                    } else if *delivered {
                        if let Some(c) = carried.iter_mut().find(|c| c.ident == *ident) {
                            c.class = Class::May;
                        }
                    }
                }
                prev_established = Some(n);
                prev_end_poll = end.idx;
                if let Some((dir, _)) = rec.fired {
                    // a crash point strictly inside a frame
                    let boundaries: BTreeSet<u64> = match dir {
                        Dir::C2B => rec.intended.iter().map(|x| x.end_offset).collect(),
                        Dir::B2C => log.wire_of(n, Dir::B2C).map(|w| w.end_offset).collect(),
                    };
                    let (at, total) = match dir {
                        Dir::C2B => (rec.c2b_bytes, boundaries.iter().next_back().copied().unwrap_or(0)),
                        Dir::B2C => (rec.b2c_bytes, boundaries.iter().next_back().copied().unwrap_or(0)),
                    };
                    if at > 0 && at < total && !boundaries.contains(&at) {
                        stats.corner("failure-mid-frame");
                    }
                }
            } else {
                prev_established = Some(n);
            }
        }
    }
    out
}

fn shape(case: &Case, log: &RunLog) -> u64 {
    // op kinds with ids abstracted + per connection (flavour of the end, session flag, frames cut)
    let ops: String = case
        .ops
        .iter()
        .map(|o| match o {
            Op::Pub { qos, .. } => char::from(b'0' + *qos),
            Op::Sub { .. } => 's',
            Op::Unsub { .. } => 'u',
        })
        .collect();
    let conns: Vec<String> = case
        .conns
        .iter()
        .zip(log.conns.iter())
        .map(|(c, r)| {
            let fl = match &c.fault {
                Some(FaultSpec::C2b(_)) => "c",
                Some(FaultSpec::B2cEof(_)) => "e",
                Some(FaultSpec::B2cReset(_)) => "r",
                Some(FaultSpec::Close) => "x",
                None => "-",
            };
            format!(
                "{fl}{}{}:{}:{}:{}",
                c.session_present as u8,
                c.refuse as u8,
                r.intended.len(),
                c.acks.map(|a| a as i64).unwrap_or(-1),
                c.late.len()
            )
        })
        .collect();
    fnv(format!("{}|{}|{ops}|{conns:?}", case.ver, case.inflight).as_bytes())
}

struct Outcome {
    c2b0: u64,
    b2c0: u64,
    known: bool,
}

fn run_case(ctx: &Ctx, stats: &mut Stats, case: &Case) -> Outcome {
    let scn = build(case);
    let log = s3::run(&scn);
    stats.evaluations += 1;
    stats.opn("poll_returns", log.polls.len() as u64);
    stats.opn("wire_frames", log.wire.len() as u64);
    stats.opn("connections", log.conns.len() as u64);
    stats.add_extra("virtual_seconds", log.end_ms / 1000);
    let mut o = Outcome {
        c2b0: log.conns.first().map(|c| c.c2b_bytes).unwrap_or(0),
        b2c0: log.conns.first().map(|c| c.b2c_bytes).unwrap_or(0),
        known: false,
    };
    if log.panic.is_some() {
        stats.panics_caught += 1;
    }
    if let Some(e) = &log.harness_error {
        stats.inconclusive.push(format!("harness: {e}"));
        return o;
    }
    if log.stopped_by != "stop-condition" {
        stats.add_extra("runs_ended_at_horizon", 1);
    }
    if let Ok(pat) = std::env::var("VERIF_DUMP") {
        let text = serde_json::to_string(case).unwrap_or_default();
        if text.contains(&pat) {
            println!("--- {text}");
            for l in log.brief(200) {
                println!("    {l}");
            }
        }
    }
    for p in &log.polls {
        stats.sig(format!(
            "infl{}:col{}:pend{}:held{}",
            p.snap.inflight.min(6),
            p.snap.collision.is_some() as u8,
            p.snap.pending_len.min(6),
            p.snap.held.len().min(6)
        ));
        if p.is(false, Kind::AwaitAck) {
            stats.corner("collision-parked");
        }
    }
    for c in &log.conns {
        if c.fired.is_some() {
            stats.add_extra("crash_points_fired", 1);
        }
    }
    let records = verdicts(ctx, case, &log, stats);
    if log.conns.len() >= 2 {
        stats.shapes.insert(shape(case, &log));
    }
    if stats.samples.len() < 3 && stats.evaluations % 211 == 5 {
        stats.sample(json!({"case": case, "observed": log.brief(80)}));
    }
    for r in records {
        let replay = || json!({"case": case, "observed": log.brief(400)});
        if let Judged::Known(_) = judge(ctx, stats, r, replay) {
            o.known = true;
            break;
        }
    }
    o
}

// ---------------------------------------------------------------- workload

struct Gen {
    rng: Rng,
    next_id: usize,
}

impl Gen {
    fn op(&mut self, pure: bool) -> Op {
        self.next_id += 1;
        let n = self.next_id;
        if pure {
            // QoS 1 mostly, some QoS 0 (which takes no packet id)
            return Op::Pub {
                qos: if self.rng.chance(1, 6) { 0 } else { 1 },
                n,
            };
        }
        match self.rng.weighted(&[2, 10, 4, 2, 1]) {
            0 => Op::Pub { qos: 0, n },
            1 => Op::Pub { qos: 1, n },
            2 => Op::Pub { qos: 2, n },
            3 => Op::Sub { n },
            _ => Op::Unsub { n },
        }
    }
    fn ops(&mut self, lo: u64, hi: u64, pure: bool) -> Vec<Op> {
        let n = self.rng.range(lo, hi);
        (0..n).map(|_| self.op(pure)).collect()
    }
}

/// Which genuine-defect triggers a history may contain (DESIGN.md 1.2 workload split)
#[derive(Clone, Copy, PartialEq)]
enum Flavour {
    /// QoS 0/1 publishes only, in-order broker, at most one failure while a session is resumed
    Plain,
    /// ids also consumed by QoS 2 publishes / subscribes (trigger: rotation point of clean())
    Mixed,
    /// a resumed connection fails again in the middle of its replay (trigger: replay order)
    InterruptedReplay,
    /// out-of-order acks (collisions) followed by a lost session (trigger: collision survives)
    Collision,
    /// a reconnect without session, new publishes left unacknowledged, then a resumed session
    /// (trigger: stale rotation point after the session was lost)
    AfterSessionLoss,
}

/// session_present flags of the connections after the first one, drawn so that only the
/// flavour's own trigger can occur
fn draw_sessions(rng: &mut Rng, flavour: Flavour, n: usize) -> Vec<bool> {
    match flavour {
        Flavour::AfterSessionLoss => {
            let mut v = vec![true; n];
            v[0] = false;
            v
        }
        Flavour::Collision => (0..n).map(|_| rng.chance(1, 2)).collect(),
        _ => {
            // once a session was lost it is never resumed later in the same history
            let lost_from = if rng.chance(1, 3) { rng.below(n as u64) as usize } else { n };
            (0..n).map(|i| i < lost_from).collect()
        }
    }
}

fn gen_case(g: &mut Gen, ver: &str, flavour: Flavour) -> Case {
    let mut inflight = *g.rng.pick(&[1u16, 2, 3, 3, 5, 5, 10]);
    let pure = flavour != Flavour::Mixed;
    // a plain history with a second failure keeps everything inside the inflight window, so that
    // the replay cannot run into packet-id collisions (that is C02/C07 territory, and the
    // collision-survives finding)
    let plain_chain = flavour == Flavour::Plain && g.rng.chance(1, 3);
    if plain_chain {
        inflight = *g.rng.pick(&[5u16, 10]);
    }
    let l = inflight as u64;
    let ops = if plain_chain { g.ops(2, l - 3, pure) } else { g.ops(l.max(2), (3 * l + 8).min(26), pure) };
    let npubs = ops.iter().filter(|o| matches!(o, Op::Pub { qos, .. } if *qos > 0)).count() as u64;
    let acks0 = g.rng.below(npubs + 1) as usize;
    let mut conns = vec![ConnSpec {
        session_present: false,
        refuse: false,
        acks: Some(acks0),
        reorder: if flavour == Flavour::Collision { Some(2 + g.rng.below(2) as usize) } else { None },
        fault: Some(FaultSpec::Close),
        late: g.ops(0, 3, pure),
    }];
    if flavour == Flavour::Collision {
        conns[0].acks = None;
    }
    // optionally a refused attempt in between
    if g.rng.chance(1, 8) {
        conns.push(ConnSpec {
            session_present: false,
            refuse: true,
            acks: None,
            reorder: None,
            fault: None,
            late: if plain_chain { vec![] } else { g.ops(0, 2, pure) },
        });
    }
    let sp1 = true; // session flags are drawn at the end
    let second_failure = match flavour {
        Flavour::InterruptedReplay => true,
        Flavour::Plain | Flavour::AfterSessionLoss => false,
        _ => g.rng.chance(1, 3),
    };
    if second_failure {
        // fails again: either somewhere in the replay (byte fault) or after it (unacked + close)
        let fault = if flavour == Flavour::InterruptedReplay || g.rng.chance(1, 2) {
            FaultSpec::C2b(14 + g.rng.below(120))
        } else {
            FaultSpec::Close
        };
        conns.push(ConnSpec {
            session_present: sp1,
            refuse: false,
            acks: Some(g.rng.below(4) as usize),
            reorder: None,
            fault: Some(fault),
            late: g.ops(0, 3, pure),
        });
        conns.push(ConnSpec {
            session_present: true,
            refuse: false,
            acks: None,
            reorder: None,
            fault: None,
            late: vec![],
        });
    } else if flavour == Flavour::AfterSessionLoss || plain_chain {
        // a second failure *after* the replay completed: the resumed connection gets no acks and
        // is closed by the broker, so everything is carried once more
        conns.push(ConnSpec {
            session_present: sp1,
            refuse: false,
            acks: Some(0),
            reorder: None,
            fault: Some(FaultSpec::Close),
            late: if plain_chain { vec![] } else { g.ops(0, 3, pure) },
        });
        conns.push(ConnSpec {
            session_present: true,
            refuse: false,
            acks: None,
            reorder: None,
            fault: None,
            late: vec![],
        });
    } else {
        conns.push(ConnSpec {
            session_present: sp1,
            refuse: false,
            acks: None,
            reorder: None,
            fault: None,
            late: vec![],
        });
    }
    // most runs replay without a pause; some pause between replayed requests so that the broker's acks
    // of the previous ones arrive while the next one is being taken
    let throttle_us = *g.rng.pick(&[0u64, 0, 0, 300, 20_000, 400_000]);
    let mut case = Case {
        ver: ver.into(),
        inflight,
        ops,
        conns,
        throttle_us,
    };
    redraw_sessions(&mut g.rng, flavour, &mut case);
    case
}

fn redraw_sessions(rng: &mut Rng, flavour: Flavour, case: &mut Case) {
    let idx: Vec<usize> = (1..case.conns.len()).filter(|i| !case.conns[*i].refuse).collect();
    let flags = draw_sessions(rng, flavour, idx.len());
    for (i, f) in idx.into_iter().zip(flags) {
        case.conns[i].session_present = f;
    }
}

fn workload(ctx: &Ctx, _shard: usize, seed: u64) -> Stats {
    let mut stats = Stats::default();
    let mut g = Gen {
        rng: Rng::new(seed),
        next_id: 0,
    };
    let histories = ctx.size(400, 2500);
    for h in 0..histories {
        let ver = if h % 3 == 2 { "v5" } else { "v4" };
        // ~85 % of the histories are free of the known triggers
        let flavour = match g.rng.below(100) {
            0..=84 => Flavour::Plain,
            85..=88 => Flavour::Mixed,
            89..=92 => Flavour::InterruptedReplay,
            93..=96 => Flavour::AfterSessionLoss,
            _ => Flavour::Collision,
        };
        g.next_id = 0;
        let base = gen_case(&mut g, ver, flavour);
        stats.op(match flavour {
            Flavour::Plain => "history:plain",
            Flavour::Mixed => "history:mixed-ids",
            Flavour::InterruptedReplay => "history:interrupted-replay",
            Flavour::Collision => "history:collision",
            Flavour::AfterSessionLoss => "history:after-session-loss",
        });
        // fault-free reference run (the broker closes the first connection after 1 s)
        let reference = run_case(ctx, &mut stats, &base);
        // every crash point of the first connection, both directions
        let mut variants: Vec<FaultSpec> = (0..=reference.c2b0).map(FaultSpec::C2b).collect();
        for k in 0..=reference.b2c0 {
            variants.push(if k % 2 == 0 { FaultSpec::B2cEof(k) } else { FaultSpec::B2cReset(k) });
        }
        stats.add_extra("crash_points", variants.len() as u64);
        for v in variants {
            let mut c = base.clone();
            c.conns[0].fault = Some(v);
            // the dimensions after the failure are re-drawn per crash point
            let last = c.conns.len() - 1;
            redraw_sessions(&mut g.rng, flavour, &mut c);
            for i in 1..=last {
                if let Some(FaultSpec::C2b(_)) = c.conns[i].fault {
                    c.conns[i].fault = Some(FaultSpec::C2b(14 + g.rng.below(120)));
                }
            }
            run_case(ctx, &mut stats, &c);
        }
    }
    stats
}

fn run(ctx: &Ctx) -> Stats {
    let mut stats = if ctx.quick() {
        workload(ctx, 0, ctx.seed.wrapping_mul(1000))
    } else {
        sharded(ctx, ctx.threads, |shard, seed| workload(ctx, shard, seed))
    };
    stats.exhaustive_scopes.push(
        "per history: every byte offset k in [0, N] of the client->broker stream and every k' in [0, N'] of the broker->client stream of the first connection as the failure point (N, N' from the fault-free reference run)".into(),
    );
    stats
}

fn replay(ctx: &Ctx, doc: &Value) -> Stats {
    let mut stats = Stats::default();
    match serde_json::from_value::<Case>(doc["case"].clone()) {
        Ok(case) => {
            // the order in which select! serves ready branches is random: re-execute a few times
            let mut reproduced = 0;
            for _ in 0..16 {
                let before = stats.violations.len() + stats.known_hit.values().sum::<u64>() as usize;
                run_case(ctx, &mut stats, &case);
                if stats.violations.len() + stats.known_hit.values().sum::<u64>() as usize > before {
                    reproduced += 1;
                }
            }
            stats.add_extra("replay_runs", 16);
            stats.add_extra("replay_reproduced", reproduced);
            stats.shapes.insert(1);
            stats.shapes.insert(2);
        }
        Err(e) => stats.inconclusive.push(format!("replay file has no usable case: {e}")),
    }
    stats
}

pub fn prop() -> Prop {
    Prop {
        id: "C11",
        meta: Meta {
            level: "fault_enumeration",
            rule: "a case = (client version, inflight limit, request history, per connection: end flavour and crash byte, session flag, acks granted, requests issued after it); distinct = distinct (version, limit, op-kind sequence with ids abstracted, per connection (end flavour, session flag, refused, number of frames the client put on the wire, acks, late requests)); non-trivial = at least one reconnect happened",
            assumptions: &[
                "a publish counts as left unacknowledged when it was handed to the transport and no PUBACK/PUBREC for it was delivered to the client's transport; publishes whose acknowledgement was delivered but possibly not processed before the failure may or may not be retransmitted",
                "the ordering clause is judged for the 3.1.1 client while every PUBACK so far answered the oldest outstanding QoS 1 publish",
                "select! serves ready branches in random order, so a replay re-executes the case 16 times",
            ],
            floors: &[
                ("reconnect-session-present", 500),
                ("reconnect-session-absent", 150),
                ("failure-mid-frame", 300),
                ("pkid-wrapped", 20),
                ("retransmit-before-new", 300),
                ("original-order", 300),
                ("no-carry-over", 150),
                ("starts-clean", 150),
            ],
        },
        run,
        replay: Some(replay),
    }
}
