//! C02: no accepted QoS 1/2 publish is ever lost (client).
//!
//! State-machine half (substrate S2, `rumqttc::MqttState` and `rumqttc::v5::MqttState`):
//! after **every** guarded call the retransmission set the state machine would hand back
//! (`ids(state.clone().clean())`), the parked collision and the driver's `pending` queue are
//! compared with M-client's `live` set by unique payload id.
//!
//! The event-loop half (substrate S3: byte-level crash points, `EventLoop.pending`, wire log
//! of the next connection) plugs in through `s3_half()` below and reuses the same oracles on
//! a `View` built from `poll()` results.
use super::{Meta, Prop};
use crate::common::{Ctx, Record, Stats};
use crate::gen::cwork::{self, Step, View};
use crate::model::mclient::Phase;
use crate::sub::s2::Pk;
use serde_json::Value;

pub const ID: &str = "C02";

fn find_pub<'a>(v: &View<'a>, payload: &str) -> Option<&'a Pk> {
    let in_state = v
        .after
        .and_then(|a| a.held.pubs.iter().find(|p| matches!(p, Pk::Publish { payload: x, .. } if x == payload)));
    in_state.or_else(|| {
        v.pending
            .iter()
            .find(|p| matches!(p, Pk::Publish { payload: x, .. } if x == payload))
    })
}

/// Oracles of C02 on one step. Evaluated for every property's run (a known C02 defect ends a
/// C07/C10 history too), judged as violations only by C02's own run.
pub fn oracles(v: &View, stats: &mut Stats) -> Vec<Record> {
    let mut out = vec![];
    let reads_state = matches!(
        v.step,
        Step::Call { .. } | Step::Failed | Step::Reconnected { .. } | Step::ReplayDone
    );
    if !reads_state {
        return out;
    }
    let (new_on_wire, via_release) = match &v.step {
        Step::Call { delta, .. } => (
            delta.new_sent.clone().or(delta.released_parked.clone()),
            delta.released_parked.is_some(),
        ),
        _ => (None, false),
    };

    // (1) live ⊆ held, by payload id; held = ids(state.clone().clean()) ∪ collision ∪ pending
    if let Some(after) = v.after {
        stats.oracle("C02/live-subset-of-held");
        for l in v.model.live.values() {
            match l.phase {
                Phase::Sent => match find_pub(v, &l.pid) {
                    Some(Pk::Publish { pkid, qos, topic, .. }) => {
                        if *pkid != l.pkid || *qos != l.qos || topic != &l.topic {
                            out.push(
                                v.tag(Record::new(
                                    ID,
                                    "held-copy-differs",
                                    format!(
                                        "publish '{}' was written as id={} q{} '{}' but is held for retransmission as id={} q{} '{}' (after {})",
                                        l.pid, l.pkid, l.qos, l.topic, pkid, qos, topic, v.step_show()
                                    ),
                                )),
                            );
                        }
                    }
                    _ => {
                        let just_written = new_on_wire.as_deref() == Some(l.pid.as_str());
                        if just_written {
                            out.push(
                                v.tag(Record::new(
                                    ID,
                                    "written-not-tracked",
                                    format!(
                                        "publish '{}' (id {}) was put on the wire by {} but the state does not track it: clean() would not return it and its acknowledgement will be unsolicited",
                                        l.pid, l.pkid, v.step_show()
                                    ),
                                ))
                                .fact("how", if via_release { "collision-release" } else { "request" }),
                            );
                        } else {
                            out.push(
                                v.tag(Record::new(
                                    ID,
                                    "live-not-held",
                                    format!(
                                        "publish '{}' (id {}, q{}) is unacknowledged but neither in the state's retransmission set nor parked nor pending after {}",
                                        l.pid, l.pkid, l.qos, v.step_show()
                                    ),
                                ))
                                .fact("phase", "sent"),
                            );
                        }
                    }
                },
                Phase::Parked => {
                    // parked in the state, or (after clean()) carried over like everything else
                    let ok = matches!(&after.collision, Some(Pk::Publish { payload, .. }) if payload == &l.pid)
                        || v.pending.iter().any(|p| matches!(p, Pk::Publish { payload, .. } if payload == &l.pid));
                    if !ok {
                        out.push(
                            v.tag(Record::new(
                                ID,
                                "live-not-held",
                                format!(
                                    "publish '{}' was accepted and parked on a collision (id {}) but is no longer held after {}; collision = {:?}",
                                    l.pid,
                                    l.pkid,
                                    v.step_show(),
                                    after.collision.as_ref().map(|p| p.show())
                                ),
                            ))
                            .fact("phase", "parked"),
                        );
                    }
                }
                Phase::Released => {
                    let ok = after.held.rels.contains(&l.pkid)
                        || v.pending.iter().any(|p| matches!(p, Pk::PubRel { pkid, .. } if *pkid == l.pkid));
                    if !ok {
                        out.push(
                            v.tag(Record::new(
                                ID,
                                "live-not-held",
                                format!(
                                    "QoS 2 publish '{}' (id {}) awaits PUBCOMP but no release is held for it after {}",
                                    l.pid,
                                    l.pkid,
                                    v.step_show()
                                ),
                            ))
                            .fact("phase", "released"),
                        );
                    }
                }
            }
        }

        // (2) the state's own count agrees with what it holds (QoS 2 counted until PUBCOMP)
        stats.oracle("C02/inflight-accounting");
        let tracked = after.held.pubs.len() + after.held.rels.len();
        if after.inflight as usize != tracked {
            out.push(
                v.tag(Record::new(
                    ID,
                    "inflight-accounting",
                    format!(
                        "inflight() = {} but the state holds {} publishes + {} releases after {}",
                        after.inflight,
                        after.held.pubs.len(),
                        after.held.rels.len(),
                        v.step_show()
                    ),
                ))
                .fact("direction", if (after.inflight as usize) > tracked { "leak" } else { "short" }),
            );
        }
    }

    if let Step::Call { delta, .. } = &v.step {
        // (3) an accepted publish is either written or announced as parked
        stats.oracle("C02/accepted-is-written-or-parked");
        if let Some(pid) = &delta.vanished {
            out.push(v.tag(Record::new(
                ID,
                "accepted-vanished",
                format!("publish '{pid}' was accepted (Ok) but neither written nor parked: {}", v.step_show()),
            )));
        }
        // (4) a retransmission carries the original id / topic / QoS
        if let Some((pid, diff)) = &delta.rewritten {
            stats.oracle("C02/retransmission-unchanged");
            if !diff.is_empty() {
                out.push(
                    v.tag(Record::new(
                        ID,
                        "retransmission-changed",
                        format!("publish '{pid}' was written again with different {:?}: {}", diff, v.step_show()),
                    ))
                    .fact("changed", diff.join(",")),
                );
            }
        }
    }

    // (5) resumed session: once pending is drained every live publish has been written on the
    // new connection and every pending release has been sent again, without user action
    if let Step::ReplayDone = v.step {
        stats.oracle("C02/retransmitted-on-resume");
        for l in v.model.live.values() {
            match l.phase {
                Phase::Sent => {
                    if l.written_conn != Some(v.conn) {
                        out.push(
                            v.tag(Record::new(
                                ID,
                                "retransmit-missing",
                                format!(
                                    "session resumed on connection {} and pending is drained, but publish '{}' (id {}) was not written again",
                                    v.conn, l.pid, l.pkid
                                ),
                            ))
                            .fact("what", "publish"),
                        );
                    }
                }
                Phase::Released => {
                    if !v.wire.iter().any(|p| matches!(p, Pk::PubRel { pkid, .. } if *pkid == l.pkid)) {
                        out.push(
                            v.tag(Record::new(
                                ID,
                                "retransmit-missing",
                                format!(
                                    "session resumed on connection {} and pending is drained, but no PUBREL({}) was written for '{}'",
                                    v.conn, l.pkid, l.pid
                                ),
                            ))
                            .fact("what", "pubrel"),
                        );
                    }
                }
                Phase::Parked => {}
            }
        }
    }
    out
}

// ------------------------------------------------------------------ event-loop half (S3)

mod el {
    //! Real `EventLoop::poll()` against the scripted broker with the first connection cut at
    //! **every** byte offset of both directions (fault enumeration per history), then a
    //! reconnect with session present / absent (and sampled second failures).
    //!
    //! Identity is the unique payload. What the client holds after every `poll()` return is
    //! `state.clone().clean()` ∪ `state.collision` ∪ `eventloop.pending` (the `Snap` of S3).
    //! A publish is *owed* from the first snapshot that shows it held (in flight, parked, or
    //! drained from the request channel into `pending`) until the acknowledgement that ends
    //! its flow has been produced as an `Incoming` event (returned by `poll()` or still queued
    //! in `state.events`), or until a CONNACK reports that the session is gone.
    use super::ID;
    use crate::common::{fnv, judge, Ctx, Judged, Record, Rng, Stats};
    use crate::gen::cs3::{self, Case, Cls, ConnSpec, FaultSpec, UOp, UStep, R, W};
    use crate::sub::s3::{ErrClass, Kind, Req, RunLog, Snap, Ver};
    use serde_json::{json, Value};
    use std::collections::BTreeMap;

    #[derive(Clone, Copy, PartialEq, Eq, Debug)]
    enum Phase {
        Parked,
        Sent,
        Released,
    }

    #[derive(Clone, Debug)]
    struct Owed {
        pkid: u16,
        qos: u8,
        topic: String,
        phase: Phase,
        /// connection (count of CONNACK events − 1) on which it was last written
        conn: Option<usize>,
        done: bool,
    }

    fn held_publish<'a>(s: &'a Snap, payload: &str) -> Option<&'a Req> {
        s.held
            .iter()
            .chain(s.pending.iter())
            .find(|r| r.kind == Kind::Publish && r.payload == payload)
    }

    fn holds_release(s: &Snap, pkid: u16) -> bool {
        s.held.iter().chain(s.pending.iter()).any(|r| r.kind == Kind::PubRel && r.pkid == pkid)
    }

    pub fn verdicts(case: &Case, log: &RunLog, stats: &mut Stats) -> Vec<Record> {
        let mut out = vec![];
        let ver = case.ver().name();
        let v5 = case.ver() == Ver::V5;
        let rec = |oracle: &str, msg: String| Record::new(ID, oracle, msg).fact("version", ver).fact("substrate", "S3");
        if let Some(p) = &log.panic {
            out.push(
                rec("panic", format!("poll() panicked at {}: {}", p.location, p.message))
                    .fact("site", crate::common::panic_site(p))
                    .fact("call", "poll"),
            );
            return out;
        }
        let prod = cs3::produced(log);
        if !prod.anomalies.is_empty() {
            // C10's business; without a consistent event order nothing can be attributed here
            stats.add_extra("s3_runs_not_judged_event_order", 1);
            return out;
        }
        let mut owed: BTreeMap<String, Owed> = BTreeMap::new();
        let mut conn_no: Option<usize> = None; // CONNACK events seen − 1
        // what was owed when connection c (session present) started: payload -> (phase, pkid, qos, topic)
        let mut carried: BTreeMap<usize, Vec<(String, Owed)>> = BTreeMap::new();
        let mut ev_i = 0usize;
        for p in &log.polls {
            // an acknowledgement the client itself refused changes nothing
            let refused: Option<u16> = match p.err().map(|e| &e.class) {
                Some(ErrClass::Unsolicited(id)) => Some(*id),
                _ => None,
            };
            let mut batch: Vec<&crate::sub::s3::Ev> = vec![];
            while ev_i < prod.events.len() && prod.events[ev_i].0 == p.idx {
                batch.push(&prod.events[ev_i].1);
                ev_i += 1;
            }
            // a request drained from the channel gets its packet id at its first write: learn it
            // from the copy held after this return, before the events of this return are read
            for (payload, o) in owed.iter_mut().filter(|(_, o)| !o.done && o.pkid == 0) {
                if let Some(r) = held_publish(&p.snap, payload) {
                    o.pkid = r.pkid;
                }
            }
            let last_ack_refused = refused.and_then(|id| {
                batch
                    .iter()
                    .rposition(|e| e.incoming && matches!(e.pk.kind, Kind::PubAck | Kind::PubRec | Kind::PubComp | Kind::PubRel) && e.pk.pkid == id)
            });
            for (bi, e) in batch.iter().enumerate() {
                if Some(bi) == last_ack_refused {
                    continue;
                }
                let by_pkid = |owed: &BTreeMap<String, Owed>, pkid: u16, phase: Phase, conn: Option<usize>| -> Vec<String> {
                    owed.iter()
                        .filter(|(_, o)| !o.done && o.pkid == pkid && o.phase == phase && (conn.is_none() || o.conn == conn))
                        .map(|(k, _)| k.clone())
                        .collect()
                };
                match (e.incoming, e.pk.kind) {
                    (true, Kind::ConnAck) => {
                        conn_no = Some(conn_no.map(|c| c + 1).unwrap_or(0));
                        if !e.pk.flag {
                            for o in owed.values_mut().filter(|o| !o.done) {
                                o.done = true;
                                stats.add_extra("s3_publishes_no_longer_owed_session_absent", 1);
                            }
                        } else if conn_no != Some(0) {
                            carried.insert(
                                conn_no.unwrap(),
                                owed.iter().filter(|(_, o)| !o.done).map(|(k, o)| (k.clone(), o.clone())).collect(),
                            );
                        }
                    }
                    (false, Kind::Publish) if e.pk.pkid != 0 => {
                        // written (again): from now on acknowledgements on this connection count
                        // a replay of the publish that holds the id (not yet written on this
                        // connection) comes before the release of a publish parked behind it
                        let mut c: Vec<String> = by_pkid(&owed, e.pk.pkid, Phase::Sent, None)
                            .into_iter()
                            .filter(|k| owed[k].conn != conn_no)
                            .collect();
                        if c.is_empty() {
                            c = by_pkid(&owed, e.pk.pkid, Phase::Parked, None);
                        }
                        if c.len() > 1 {
                            stats.add_extra("s3_runs_not_judged_pkid_ambiguous", 1);
                            return out;
                        }
                        if let Some(k) = c.first() {
                            let o = owed.get_mut(k).unwrap();
                            o.conn = conn_no;
                            o.phase = Phase::Sent;
                        }
                    }
                    (false, Kind::PubRel) => {
                        for k in by_pkid(&owed, e.pk.pkid, Phase::Released, None) {
                            owed.get_mut(&k).unwrap().conn = conn_no;
                        }
                    }
                    (true, Kind::PubAck) => {
                        for k in by_pkid(&owed, e.pk.pkid, Phase::Sent, conn_no) {
                            owed.get_mut(&k).unwrap().done = true;
                        }
                    }
                    (true, Kind::PubRec) => {
                        for k in by_pkid(&owed, e.pk.pkid, Phase::Sent, conn_no) {
                            let o = owed.get_mut(&k).unwrap();
                            if v5 && e.pk.code >= 0x80 {
                                o.done = true;
                            } else {
                                o.phase = Phase::Released;
                            }
                        }
                    }
                    (true, Kind::PubComp) => {
                        for k in by_pkid(&owed, e.pk.pkid, Phase::Released, conn_no) {
                            owed.get_mut(&k).unwrap().done = true;
                        }
                    }
                    _ => {}
                }
            }

            // (1) everything owed is held, after every poll() return
            stats.oracle("C02/s3/owed-subset-of-held");
            for (payload, o) in owed.iter_mut().filter(|(_, o)| !o.done) {
                match o.phase {
                    Phase::Sent | Phase::Parked => {
                        let parked = p.snap.collision_payload.as_deref() == Some(payload.as_str());
                        match held_publish(&p.snap, payload) {
                            Some(r) => {
                                if o.pkid == 0 {
                                    o.pkid = r.pkid; // drained from the channel, id given at its first write
                                } else if r.pkid != o.pkid || r.qos != o.qos || r.topic != o.topic {
                                    out.push(rec(
                                        "held-copy-differs",
                                        format!(
                                            "after poll #{} publish '{payload}' (id {} q{} '{}') is held as id {} q{} '{}'",
                                            p.idx, o.pkid, o.qos, o.topic, r.pkid, r.qos, r.topic
                                        ),
                                    ));
                                    return out;
                                }
                            }
                            None if parked => {}
                            None => {
                                // how it got lost, as far as two consecutive snapshots tell
                                let prev = if p.idx > 0 { Some(&log.polls[p.idx - 1].snap) } else { None };
                                let was_parked = prev.map(|s| s.collision_payload.as_deref() == Some(payload.as_str())).unwrap_or(false);
                                let lost_from = if was_parked && p.snap.collision_payload.is_some() {
                                    "collision-overwritten-by-another-publish"
                                } else if was_parked {
                                    "collision"
                                } else if prev.map(|s| s.pending.iter().any(|r| &r.payload == payload)).unwrap_or(false) {
                                    "pending"
                                } else {
                                    "state"
                                };
                                out.push(
                                    rec(
                                        "live-not-held",
                                        format!(
                                            "after poll #{} ({}) publish '{payload}' (id {}, q{}) is neither in the state's retransmission set, nor parked, nor in pending, and no acknowledgement for it has been surfaced or queued (it was last seen in: {lost_from})",
                                            p.idx,
                                            p.brief(),
                                            o.pkid,
                                            o.qos
                                        ),
                                    )
                                    .fact("phase", if o.phase == Phase::Parked { "parked" } else { "sent" })
                                    .fact("after", "poll")
                                    .fact("lost_from", lost_from),
                                );
                                return out;
                            }
                        }
                    }
                    Phase::Released => {
                        if !holds_release(&p.snap, o.pkid) {
                            out.push(
                                rec(
                                    "live-not-held",
                                    format!(
                                        "after poll #{} ({}) QoS 2 publish '{payload}' (id {}) awaits PUBCOMP but no release is held for it",
                                        p.idx,
                                        p.brief(),
                                        o.pkid
                                    ),
                                )
                                .fact("phase", "released")
                                .fact("after", "poll"),
                            );
                            return out;
                        }
                    }
                }
            }
            // newly held publishes become owed
            for r in p.snap.held.iter().chain(p.snap.pending.iter()) {
                if r.kind == Kind::Publish && r.qos > 0 && !owed.contains_key(&r.payload) {
                    owed.insert(
                        r.payload.clone(),
                        Owed {
                            pkid: r.pkid,
                            qos: r.qos,
                            topic: r.topic.clone(),
                            phase: Phase::Sent,
                            conn: if r.pkid != 0 { conn_no } else { None },
                            done: false,
                        },
                    );
                }
            }
            if let (Some(pl), Some(id)) = (&p.snap.collision_payload, p.snap.collision) {
                if !owed.contains_key(pl) {
                    owed.insert(
                        pl.clone(),
                        Owed {
                            pkid: id,
                            qos: 1,
                            topic: cs3::TOPIC.into(),
                            phase: Phase::Parked,
                            conn: None,
                            done: false,
                        },
                    );
                }
            }
        }

        // (2) nothing reaches the wire that the client never held
        stats.oracle("C02/s3/written-implies-tracked");
        for c in &log.conns {
            for f in &c.intended {
                if f.pk.kind == Kind::Publish && f.pk.qos > 0 && !owed.contains_key(&f.pk.payload) {
                    out.push(
                        rec(
                            "written-not-tracked",
                            format!(
                                "connection {}: {} was handed to the transport but no snapshot ever showed it held (clean() would not return it)",
                                c.idx,
                                f.pk.brief()
                            ),
                        )
                        .fact("how", "unknown"),
                    );
                    return out;
                }
            }
        }

        // (3) resumed session that went idle: everything owed at its CONNACK was transmitted on it
        let last_conn = log.conns.len().saturating_sub(1);
        let went_idle = log.stopped_by == "stop-condition" && log.end_of(last_conn).is_none();
        if went_idle && log.conns[last_conn].fired.is_none() {
            // index of the last connection among connections that got a CONNACK
            let acked = cs3::connacked_conns(log);
            if let Some(pos) = acked.iter().position(|c| *c == last_conn) {
                if let Some(list) = carried.get(&pos) {
                    stats.oracle("C02/s3/retransmitted-on-resume");
                    stats.corner("s3-resumed-and-idle");
                    let frames = &log.conns[last_conn].intended;
                    for (payload, o) in list {
                        let ok = match o.phase {
                            Phase::Released => frames.iter().any(|f| f.pk.kind == Kind::PubRel && f.pk.pkid == o.pkid),
                            _ => frames.iter().any(|f| {
                                f.pk.kind == Kind::Publish
                                    && &f.pk.payload == payload
                                    && (o.pkid == 0 || (f.pk.pkid == o.pkid && f.pk.qos == o.qos && f.pk.topic == o.topic))
                            }),
                        };
                        if !ok {
                            let sent_differently = frames.iter().any(|f| f.pk.kind == Kind::Publish && &f.pk.payload == payload);
                            out.push(
                                rec(
                                    if sent_differently { "retransmission-changed" } else { "retransmit-missing" },
                                    format!(
                                        "session resumed on connection {last_conn} and the connection went idle, but '{payload}' (id {}, q{}, {:?}) was not transmitted again {}",
                                        o.pkid,
                                        o.qos,
                                        o.phase,
                                        if sent_differently { "with its original id/topic/QoS" } else { "at all" }
                                    ),
                                )
                                .fact("what", if o.phase == Phase::Released { "pubrel" } else { "publish" }),
                            );
                            return out;
                        }
                    }
                }
            }
        }
        out
    }

    fn steps(pubs: &[(u8, &str)], when: W) -> Vec<UStep> {
        pubs.iter()
            .map(|(q, p)| UStep {
                when: when.clone(),
                op: UOp::Pub {
                    qos: *q,
                    payload: (*p).to_owned(),
                },
            })
            .collect()
    }

    /// first connection of each directed history (fault-free form); connections 1.. are added by
    /// the enumerator
    pub fn directed(ver: Ver) -> Vec<Case> {
        let v = ver.name().to_owned();
        let mk = |name: &str, inflight: u16, st: Vec<UStep>, c0: ConnSpec| Case {
            name: name.into(),
            ver: v.clone(),
            inflight,
            manual: false,
            steps: st,
            conns: vec![c0],
        };
        let mut late = steps(&[(1, "a"), (2, "b"), (1, "c"), (0, "z"), (2, "d")], W::AfterConnAck(0));
        late.extend(steps(&[(1, "late1"), (2, "late2")], W::AfterConnEnd(0)));
        vec![
            // a acked, c not; b complete, d released and waiting for PUBCOMP
            mk(
                "s3-mixed",
                10,
                {
                    let mut s = steps(&[(1, "a"), (2, "b"), (1, "c"), (0, "z"), (2, "d")], W::AfterConnAck(0));
                    s.push(UStep {
                        when: W::AfterConnAck(0),
                        op: UOp::Sub { filter: "f/1".into() },
                    });
                    s
                },
                ConnSpec::normal(false)
                    .rule(Cls::Q1, vec![R::Normal], R::Drop)
                    .rule(Cls::PubRel, vec![R::Normal], R::Drop),
            ),
            // window of 3, five requests, nothing acknowledged: 3 in flight, 2 still in the channel
            mk(
                "s3-nothing-acked",
                3,
                steps(&[(1, "a"), (1, "b"), (2, "c"), (1, "d"), (2, "e")], W::AfterConnAck(0)),
                ConnSpec::normal(false).rule(Cls::Q1, vec![], R::Drop).rule(Cls::Q2, vec![], R::Drop),
            ),
            // window of 3 full, one request waiting: on resume it is parked until an id frees up
            mk(
                "s3-window-full-one-waiting",
                3,
                steps(&[(1, "a"), (2, "b"), (1, "c"), (1, "d")], W::AfterConnAck(0)),
                ConnSpec::normal(false).rule(Cls::Q1, vec![], R::Drop).rule(Cls::Q2, vec![], R::Drop),
            ),
            // id 1 never acknowledged, id 2 at once: the third publish is parked on id 1
            mk(
                "s3-collision",
                2,
                steps(&[(1, "a"), (1, "b"), (1, "c"), (1, "d")], W::AfterConnAck(0)),
                ConnSpec::normal(false).rule(Cls::Q1, vec![R::Drop], R::Normal),
            ),
            // QoS 2 flows stretched over time
            mk(
                "s3-qos2-staged",
                5,
                steps(&[(2, "a"), (2, "b"), (2, "c")], W::AfterConnAck(0)),
                ConnSpec::normal(false)
                    .rule(Cls::Q2, vec![R::Normal, R::Delay(20)], R::Delay(40))
                    .rule(Cls::PubRel, vec![R::Delay(20)], R::Drop),
            ),
            // requests issued after the failure queue up behind what is carried over
            mk(
                "s3-late-requests",
                10,
                late,
                ConnSpec::normal(false).rule(Cls::Q1, vec![], R::Drop).rule(Cls::PubRel, vec![], R::Drop),
            ),
        ]
    }

    /// Known-finding trigger: more QoS>0 requests than `inflight + 1` can be waiting when the
    /// connection fails; replaying them parks a second publish over the first.
    pub fn gen_base(rng: &mut Rng, ver: Ver, n: u64, trigger: bool) -> Case {
        let inflight = *rng.pick(&[2u16, 3, 5, 10]);
        let count = if trigger {
            inflight as usize + rng.range(2, 4) as usize
        } else {
            rng.range(2, inflight as u64 + 1).min(7) as usize
        };
        let mut st = vec![];
        for i in 0..count {
            // QoS 2 only where the ids cannot wrap (F12 is C07's finding)
            let qos = if (count as u16) < inflight { rng.range(1, 2) as u8 } else { 1 };
            st.push(UStep {
                when: W::AfterConnAck(0),
                op: UOp::Pub {
                    qos,
                    payload: format!("r{n}-{i}"),
                },
            });
        }
        for i in 0..rng.below(3) {
            st.push(UStep {
                when: W::AfterConnEnd(0),
                op: UOp::Pub {
                    qos: 1,
                    payload: format!("l{n}-{i}"),
                },
            });
        }
        let pick = |rng: &mut Rng| match rng.below(4) {
            0 => R::Normal,
            1 => R::Drop,
            2 => R::Delay(10 * rng.range(1, 5)),
            _ => R::Normal,
        };
        let c0 = ConnSpec::normal(false)
            .rule(Cls::Q1, (0..3).map(|_| pick(rng)).collect(), pick(rng))
            .rule(Cls::Q2, (0..2).map(|_| pick(rng)).collect(), pick(rng))
            .rule(Cls::PubRel, (0..2).map(|_| pick(rng)).collect(), pick(rng));
        Case {
            name: format!("s3-random-{n}"),
            ver: ver.name().into(),
            inflight,
            manual: false,
            steps: st,
            conns: vec![c0],
        }
    }

    struct Ran {
        c2b0: u64,
        b2c0: u64,
        stopped: bool,
    }

    fn run_case(ctx: &Ctx, stats: &mut Stats, case: &Case) -> Ran {
        let log = cs3::run(case);
        stats.evaluations += 1;
        stats.op("s3-run");
        cs3::census(stats, &log);
        let mut r = Ran {
            c2b0: log.conns.first().map(|c| c.c2b_bytes).unwrap_or(0),
            b2c0: log.conns.first().map(|c| c.b2c_bytes).unwrap_or(0),
            stopped: false,
        };
        if let Some(e) = &log.harness_error {
            stats.inconclusive.push(format!("S3 harness: {e} (case {})", case.name));
            return r;
        }
        if log.polls.iter().any(|p| p.is(false, Kind::AwaitAck)) {
            stats.corner("s3-collision-parked");
        }
        if log.polls.iter().any(|p| p.snap.collision.is_some() && p.err().is_some()) {
            stats.corner("s3-collision-at-failure");
        }
        for p in &log.polls {
            if p.is(true, Kind::ConnAck) && p.conn.unwrap_or(0) > 0 {
                stats.corner(if p.ev().map(|e| e.pk.flag).unwrap_or(false) {
                    "s3-reconnect-session-present"
                } else {
                    "s3-reconnect-session-absent"
                });
            }
        }
        if log.conns.len() >= 2 {
            let shape: Vec<String> = log.polls.iter().map(|p| p.brief().split(' ').skip(2).collect::<Vec<_>>().join(" ")).collect();
            stats.shapes.insert(fnv(format!("{}|{}|{}", case.ver, case.inflight, shape.join(",")).as_bytes()));
        }
        let recs = verdicts(case, &log, stats);
        if stats.evaluations % 401 == 11 {
            stats.sample(json!({"kind": "S3", "case": case, "observed": log.brief(90)}));
        }
        for rcd in recs {
            let replay = || json!({"substrate": "S3", "case": case, "observed": log.brief(400)});
            match judge(ctx, stats, rcd, replay) {
                Judged::Known(_) | Judged::Violation => {
                    r.stopped = true;
                    break;
                }
            }
        }
        r
    }

    /// one history: fault-free reference run, then every crash point of the first connection in
    /// both directions, each followed by a reconnect with the session present and absent
    fn enumerate(ctx: &Ctx, stats: &mut Stats, rng: &mut Rng, base: &Case) {
        stats.op("s3-history");
        // reference: the broker closes the first connection after 1 s
        let mut reference = base.clone();
        reference.conns[0].close_at_ms = Some(1000);
        reference.conns.push(ConnSpec::normal(true));
        reference.conns.push(ConnSpec::normal(true));
        let r = run_case(ctx, stats, &reference);
        let mut points: Vec<FaultSpec> = (0..=r.c2b0).map(FaultSpec::C2b).collect();
        for k in 0..=r.b2c0 {
            points.push(if k % 2 == 0 { FaultSpec::B2cEof(k) } else { FaultSpec::B2cReset(k) });
        }
        stats.add_extra("crash_points", points.len() as u64);
        for f in points {
            for sp in [true, false] {
                let mut c = base.clone();
                c.conns[0].fault = Some(f.clone());
                let mut second = ConnSpec::normal(sp);
                // sampled second failure while the first one is being repaired
                if rng.chance(1, 8) {
                    second.fault = Some(FaultSpec::C2b(14 + rng.below(90)));
                    stats.add_extra("s3_second_failures_sampled", 1);
                }
                // sampled: the first reconnect attempt is refused at the MQTT level (e.g. a restarting broker); what was
                // carried over must survive the refusal and be retransmitted once a later CONNACK reports the session
                if rng.chance(1, 6) {
                    let mut refused = ConnSpec::normal(false);
                    refused.refuse_code = Some(if c.ver == "v5" { *rng.pick(&[0x88u8, 0x89]) } else { *rng.pick(&[3u8, 5]) });
                    c.conns.push(refused);
                    stats.add_extra("s3_refused_reconnects_sampled", 1);
                }
                c.conns.push(second);
                c.conns.push(ConnSpec::normal(rng.chance(3, 4)));
                c.conns.push(ConnSpec::normal(true));
                run_case(ctx, stats, &c);
                if stats.violations.len() >= 5 {
                    return;
                }
            }
        }
    }

    pub fn run(ctx: &Ctx, stats: &mut Stats, seed: u64, n_random: u64, with_directed: bool) {
        let mut rng = Rng::new(seed ^ 0x5302);
        if with_directed {
            for ver in [Ver::V4, Ver::V5] {
                for base in directed(ver) {
                    enumerate(ctx, stats, &mut rng, &base);
                    stats.add_extra("s3_directed_histories", 1);
                }
            }
        }
        for i in 0..n_random {
            let ver = if rng.chance(1, 2) { Ver::V4 } else { Ver::V5 };
            let trigger = rng.chance(15, 100);
            stats.add_extra(if trigger { "s3_histories_with_trigger" } else { "s3_histories_trigger_free" }, 1);
            let base = gen_base(&mut rng, ver, seed.wrapping_mul(100_000) + i, trigger);
            enumerate(ctx, stats, &mut rng, &base);
            if stats.violations.len() >= 5 {
                break;
            }
        }
    }

    pub fn replay(ctx: &Ctx, doc: &Value) -> Stats {
        let mut stats = Stats::default();
        match serde_json::from_value::<Case>(doc["case"].clone()) {
            Ok(case) => {
                run_case(ctx, &mut stats, &case);
            }
            Err(e) => stats.inconclusive.push(format!("replay file does not hold an S3 case: {e}")),
        }
        stats.shapes.insert(1);
        stats.shapes.insert(2);
        stats
    }
}

fn run(ctx: &Ctx) -> Stats {
    let mut stats = cwork::run_family(ctx, ID, cwork::PROFILE_C02, 12_000, 2_000_000);
    // event-loop half: fault enumeration
    if ctx.quick() {
        el::run(ctx, &mut stats, ctx.seed, ctx.size(4, 0), true);
    } else {
        let per = ctx.size(0, 320) / ctx.threads.max(1) as u64 + 1;
        let s3 = crate::common::sharded(ctx, ctx.threads, |shard, seed| {
            let mut st = Stats::default();
            el::run(ctx, &mut st, seed, per, shard == 0);
            st
        });
        stats.merge(s3);
    }
    stats.exhaustive_scopes.push(
        "S3, per history: every byte offset k in [0, N] of the client->broker stream and every k' in [0, N'] of the broker->client stream of the first connection as the failure point (N, N' from the fault-free reference run), each with session_present true and false on the next connection".into(),
    );
    stats
}

fn replay(ctx: &Ctx, doc: &Value) -> Stats {
    if doc["substrate"] == "S3" {
        return el::replay(ctx, doc);
    }
    cwork::replay_family(ctx, ID, doc)
}

pub fn prop() -> Prop {
    Prop {
        id: ID,
        meta: Meta {
            level: "fault_enumeration",
            rule: "Two halves. S3 (real EventLoop::poll, v4 and v5, scripted broker, virtual time): per history a \
                   fault-free reference run, then the first connection cut at EVERY byte offset of the client->broker \
                   and of the broker->client stream (EOF / reset alternating), each followed by a reconnect with \
                   session_present true and false (second failures sampled 1 in 8); histories = 6 directed per \
                   version (mixed QoS with partial acks, nothing acked with requests waiting in the channel, full \
                   window, collision, staged QoS 2, late requests) + random ones (85% free of the known trigger). \
                   S2 (real MqttState driven directly): a case is one history of 20-160 ops (user requests through the event loop's gate, read batches of \
                   broker packets, pings, connection losses, reconnects with session present/absent) against the real \
                   v4 or v5 MqttState with inflight limit from {1,2,3,5,10,100,65535}, plus 12 (3.1.1) / 22 (MQTT 5) directed scenarios and a 65535-id wrap-around per \
                   version. Distinct = hash of (version, limit, manual, op-kind sequence incl. packet kinds per batch); \
                   counted only if the history reached at least one named corner state.",
            assumptions: &[
                "a PUBACK for a QoS 2 id / PUBREC for a QoS 1 id that the client accepts counts as the broker's acknowledgement of that id",
                "MQTT 5: PUBACK, PUBREC with reason >= 0x80 and PUBCOMP end the flow of a publish",
                "broker reports no session on reconnect => nothing is owed any more (second sentence of the statement is conditional)",
                "the S2 driver applies the request gate, pending queue and read-batch flush exactly as eventloop.rs/framed.rs do; it has no request channel (a request not taken is gone), requests drained from the channel by clean() are exercised by the S3 half",
                "S3: a publish is owed from the first poll() return after which the client holds it (state, collision or pending, incl. requests clean() drained from the channel) until its final acknowledgement has been produced as an Incoming event (returned or still queued)",
                "S3: crash points are enumerated on the first connection of each history; histories are sampled",
            ],
            floors: &[
                ("pkid-wrapped", 5000),
                ("collision-parked", 500),
                ("collision-released-by-puback", 500),
                ("collision-released-by-pubcomp", 10),
                ("collision-across-clean", 200),
                ("reconnect-session-present", 10000),
                ("reconnect-session-absent", 3000),
                ("retransmitted", 10000),
                ("pkid-wrapped-at-65535", 2),
                ("C02/live-subset-of-held", 500000),
                ("C02/retransmitted-on-resume", 10000),
                ("failure-mid-frame", 400),
                ("s3-reconnect-session-present", 300),
                ("s3-reconnect-session-absent", 300),
                ("s3-resumed-and-idle", 200),
                ("s3-collision-parked", 20),
                ("C02/s3/owed-subset-of-held", 5000),
                ("C02/s3/retransmitted-on-resume", 200),
            ],
        },
        run,
        replay: Some(replay),
    }
}
