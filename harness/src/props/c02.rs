//! C02: no accepted QoS 1/2 publish is ever lost (client).
//!
//! State-machine half (substrate S2, `rumqttc::MqttState` and `rumqttc::v5::MqttState`):
//! after **every** guarded call the retransmission set the state machine would hand back
//! (`ids(state.clone().clean())`), the parked collision and the driver's `pending` queue are
//! compared with M-client's `live` set by unique payload id.
//!
//! The event-loop half (substrate S3: byte-level crash points, `EventLoop.pending`, wire log
//! of the next connection) plugs in through `s3_half()` below and reuses the same oracles on
//! a `View` built from `poll()` results.
use super::{Meta, Prop};
use crate::common::{Ctx, Record, Stats};
use crate::gen::cwork::{self, Step, View};
use crate::model::mclient::Phase;
use crate::sub::s2::Pk;
use serde_json::Value;

pub const ID: &str = "C02";

fn find_pub<'a>(v: &View<'a>, payload: &str) -> Option<&'a Pk> {
    let in_state = v
        .after
        .and_then(|a| a.held.pubs.iter().find(|p| matches!(p, Pk::Publish { payload: x, .. } if x == payload)));
    in_state.or_else(|| {
        v.pending
            .iter()
            .find(|p| matches!(p, Pk::Publish { payload: x, .. } if x == payload))
    })
}

/// Oracles of C02 on one step. Evaluated for every property's run (a known C02 defect ends a
/// C07/C10 history too), judged as violations only by C02's own run.
pub fn oracles(v: &View, stats: &mut Stats) -> Vec<Record> {
    let mut out = vec![];
    let reads_state = matches!(
        v.step,
        Step::Call { .. } | Step::Failed | Step::Reconnected { .. } | Step::ReplayDone
    );
    if !reads_state {
        return out;
    }
    let (new_on_wire, via_release) = match &v.step {
        Step::Call { delta, .. } => (
            delta.new_sent.clone().or(delta.released_parked.clone()),
            delta.released_parked.is_some(),
        ),
        _ => (None, false),
    };

    // (1) live ⊆ held, by payload id; held = ids(state.clone().clean()) ∪ collision ∪ pending
    if let Some(after) = v.after {
        stats.oracle("C02/live-subset-of-held");
        for l in v.model.live.values() {
            match l.phase {
                Phase::Sent => match find_pub(v, &l.pid) {
                    Some(Pk::Publish { pkid, qos, topic, .. }) => {
                        if *pkid != l.pkid || *qos != l.qos || topic != &l.topic {
                            out.push(
                                v.tag(Record::new(
                                    ID,
                                    "held-copy-differs",
                                    format!(
                                        "publish '{}' was written as id={} q{} '{}' but is held for retransmission as id={} q{} '{}' (after {})",
                                        l.pid, l.pkid, l.qos, l.topic, pkid, qos, topic, v.step_show()
                                    ),
                                )),
                            );
                        }
                    }
                    _ => {
                        let just_written = new_on_wire.as_deref() == Some(l.pid.as_str());
                        if just_written {
                            out.push(
                                v.tag(Record::new(
                                    ID,
                                    "written-not-tracked",
                                    format!(
                                        "publish '{}' (id {}) was put on the wire by {} but the state does not track it: clean() would not return it and its acknowledgement will be unsolicited",
                                        l.pid, l.pkid, v.step_show()
                                    ),
                                ))
                                .fact("how", if via_release { "collision-release" } else { "request" }),
                            );
                        } else {
                            out.push(
                                v.tag(Record::new(
                                    ID,
                                    "live-not-held",
                                    format!(
                                        "publish '{}' (id {}, q{}) is unacknowledged but neither in the state's retransmission set nor parked nor pending after {}",
                                        l.pid, l.pkid, l.qos, v.step_show()
                                    ),
                                ))
                                .fact("phase", "sent"),
                            );
                        }
                    }
                },
                Phase::Parked => {
                    // parked in the state, or (after clean()) carried over like everything else
                    let ok = matches!(&after.collision, Some(Pk::Publish { payload, .. }) if payload == &l.pid)
                        || v.pending.iter().any(|p| matches!(p, Pk::Publish { payload, .. } if payload == &l.pid));
                    if !ok {
                        out.push(
                            v.tag(Record::new(
                                ID,
                                "live-not-held",
                                format!(
                                    "publish '{}' was accepted and parked on a collision (id {}) but is no longer held after {}; collision = {:?}",
                                    l.pid,
                                    l.pkid,
                                    v.step_show(),
                                    after.collision.as_ref().map(|p| p.show())
                                ),
                            ))
                            .fact("phase", "parked"),
                        );
                    }
                }
                Phase::Released => {
                    let ok = after.held.rels.contains(&l.pkid)
                        || v.pending.iter().any(|p| matches!(p, Pk::PubRel { pkid, .. } if *pkid == l.pkid));
                    if !ok {
                        out.push(
                            v.tag(Record::new(
                                ID,
                                "live-not-held",
                                format!(
                                    "QoS 2 publish '{}' (id {}) awaits PUBCOMP but no release is held for it after {}",
                                    l.pid,
                                    l.pkid,
                                    v.step_show()
                                ),
                            ))
                            .fact("phase", "released"),
                        );
                    }
                }
            }
        }

        // (2) the state's own count agrees with what it holds (QoS 2 counted until PUBCOMP)
        stats.oracle("C02/inflight-accounting");
        let tracked = after.held.pubs.len() + after.held.rels.len();
        if after.inflight as usize != tracked {
            out.push(
                v.tag(Record::new(
                    ID,
                    "inflight-accounting",
                    format!(
                        "inflight() = {} but the state holds {} publishes + {} releases after {}",
                        after.inflight,
                        after.held.pubs.len(),
                        after.held.rels.len(),
                        v.step_show()
                    ),
                ))
                .fact("direction", if (after.inflight as usize) > tracked { "leak" } else { "short" }),
            );
        }
    }

    if let Step::Call { delta, .. } = &v.step {
        // (3) an accepted publish is either written or announced as parked
        stats.oracle("C02/accepted-is-written-or-parked");
        if let Some(pid) = &delta.vanished {
            out.push(v.tag(Record::new(
                ID,
                "accepted-vanished",
                format!("publish '{pid}' was accepted (Ok) but neither written nor parked: {}", v.step_show()),
            )));
        }
        // (4) a retransmission carries the original id / topic / QoS
        if let Some((pid, diff)) = &delta.rewritten {
            stats.oracle("C02/retransmission-unchanged");
            if !diff.is_empty() {
                out.push(
                    v.tag(Record::new(
                        ID,
                        "retransmission-changed",
                        format!("publish '{pid}' was written again with different {:?}: {}", diff, v.step_show()),
                    ))
                    .fact("changed", diff.join(",")),
                );
            }
        }
    }

    // (5) resumed session: once pending is drained every live publish has been written on the
    // new connection and every pending release has been sent again, without user action
    if let Step::ReplayDone = v.step {
        stats.oracle("C02/retransmitted-on-resume");
        for l in v.model.live.values() {
            match l.phase {
                Phase::Sent => {
                    if l.written_conn != Some(v.conn) {
                        out.push(
                            v.tag(Record::new(
                                ID,
                                "retransmit-missing",
                                format!(
                                    "session resumed on connection {} and pending is drained, but publish '{}' (id {}) was not written again",
                                    v.conn, l.pid, l.pkid
                                ),
                            ))
                            .fact("what", "publish"),
                        );
                    }
                }
                Phase::Released => {
                    if !v.wire.iter().any(|p| matches!(p, Pk::PubRel { pkid, .. } if *pkid == l.pkid)) {
                        out.push(
                            v.tag(Record::new(
                                ID,
                                "retransmit-missing",
                                format!(
                                    "session resumed on connection {} and pending is drained, but no PUBREL({}) was written for '{}'",
                                    v.conn, l.pkid, l.pid
                                ),
                            ))
                            .fact("what", "pubrel"),
                        );
                    }
                }
                Phase::Parked => {}
            }
        }
    }
    out
}

/// Event-loop half: absent until `src/sub/s3.rs` exists (see module doc).
pub fn s3_half(_ctx: &Ctx, _stats: &mut Stats) {}

fn run(ctx: &Ctx) -> Stats {
    let mut stats = cwork::run_family(ctx, ID, cwork::PROFILE_C02, 12_000, 2_000_000);
    s3_half(ctx, &mut stats);
    stats
}

fn replay(ctx: &Ctx, doc: &Value) -> Stats {
    cwork::replay_family(ctx, ID, doc)
}

pub fn prop() -> Prop {
    Prop {
        id: ID,
        meta: Meta {
            level: "exploration",
            rule: "S2 half only (state machine; the event-loop half with byte-level crash points is not built yet). \
                   A case is one history of 20-160 ops (user requests through the event loop's gate, read batches of \
                   broker packets, pings, connection losses, reconnects with session present/absent) against the real \
                   v4 or v5 MqttState with inflight limit from {1,2,3,5,10,100,65535}, plus 12 (3.1.1) / 22 (MQTT 5) directed scenarios and a 65535-id wrap-around per \
                   version. Distinct = hash of (version, limit, manual, op-kind sequence incl. packet kinds per batch); \
                   counted only if the history reached at least one named corner state.",
            assumptions: &[
                "a PUBACK for a QoS 2 id / PUBREC for a QoS 1 id that the client accepts counts as the broker's acknowledgement of that id",
                "MQTT 5: PUBACK, PUBREC with reason >= 0x80 and PUBCOMP end the flow of a publish",
                "broker reports no session on reconnect => nothing is owed any more (second sentence of the statement is conditional)",
                "the S2 driver applies the request gate, pending queue and read-batch flush exactly as eventloop.rs/framed.rs do; crash points inside a frame are the S3 half's job",
            ],
            floors: &[
                ("pkid-wrapped", 5000),
                ("collision-parked", 500),
                ("collision-released-by-puback", 500),
                ("collision-released-by-pubcomp", 10),
                ("collision-across-clean", 200),
                ("reconnect-session-present", 10000),
                ("reconnect-session-absent", 3000),
                ("retransmitted", 10000),
                ("pkid-wrapped-at-65535", 2),
                ("C02/live-subset-of-held", 500000),
                ("C02/retransmitted-on-resume", 10000),
            ],
        },
        run,
        replay: Some(replay),
    }
}
