//! C08: persistent sessions resume (S4)
use super::s4common::{self, Plan};
use super::{Meta, Prop};
use crate::common::{Ctx, Stats};
#[allow(unused_imports)]
use crate::sub::s4drive::{base_profile, Stepping, Weights};
#[allow(unused_imports)]
use rumqttd::Strategy;

pub fn plan() -> Plan {
    let mut p = base_profile("c08-persistent");
    p.persistent_pm = 800;
    p.w.link_drop = 6;
    p.w.disconnect_pkt = 4;
    p.w.takeover = 3;
    p.w.connect = 12;
    p.w.unsubscribe = 1;
    p.qos_weights = [2, 4, 2];
    p.ops = (40, 160);
    let mut single = p.clone();
    single.name = "c08-single";
    single.stepping = Stepping::Single;
    let mut hostile = p.clone();
    hostile.name = "c08-router-close";
    hostile.hostile = true;
    hostile.w.bad = 4;
    // a broker that is full refuses a reconnect: the refused attempt must leave the saved session alone
    let mut full = p.clone();
    full.name = "c08-broker-full";
    full.max_connections = 2;
    full.clients = (3, 5);
    full.w.connect = 20;
    full.w.link_drop = 10;
    full.w.disconnect_pkt = 6;
    full.w.takeover = 0;
    let profiles = vec![p, single, hostile, full];
    Plan {
        profiles,
        directed: vec![],
        quick_histories: 1200,
        thorough_histories: 240_000,
        s5: None,
        enumerate_session_end: Some((40, 1500, {
            let mut e = base_profile("c08-enumerated");
            e.persistent_pm = 1000;
            e.clients = (2, 4);
            e.ops = (25, 60);
            e.burst_pm = 60;
            e.burst = (30, 140);
            e.qos_weights = [2, 4, 2];
            e.w.unsubscribe = 1;
            e.w.subscribe = 10;
            e.w.takeover = 0;
            e.w.link_drop = 1;
            e.w.disconnect_pkt = 1;
            e.hostile = false;
            e
        })),
        enumerate_symbols: None,
        relabel: None,
    }
}

fn run(ctx: &Ctx) -> Stats {
    s4common::run(ctx, &plan())
}

fn replay(ctx: &Ctx, doc: &serde_json::Value) -> Stats {
    s4common::replay(ctx, &plan(), doc)
}

pub fn prop() -> Prop {
    Prop {
        id: "C08",
        meta: Meta {
            level: "fault_enumeration",
            rule: "seeded histories in which most clients use persistent sessions and end them in every flavour (DISCONNECT, link drop, router-initiated close after a bad ack, take-over) at random points with forwarded-but-unacknowledged messages outstanding, others publishing meanwhile, 1-4 reconnect cycles with alternating clean flags; M-broker restarts each subscription's expected stream at its oldest unacknowledged QoS>0 element. A case counts as distinct and non-trivial when its sequence of operation kinds is new and it reached at least one named corner state.",
            assumptions: &["router stepped on one thread through verif hooks; link actors use the real LinkTx/LinkRx", "default segment sizes: backlog stays within retention"],
            floors: &[("refused-connect-with-saved-session", 10), ("quiescent-point", 20), ("resume-session-present", 20), ("end-by-disconnect-packet", 50), ("end-by-link-failure", 50), ("end-by-router-close", 50), ("end-by-takeover", 50)],
        },
        run,
        replay: Some(replay),
    }
}
