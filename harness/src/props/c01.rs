//! C01: exact, ordered delivery to matching subscriptions (S4)
use super::s4common::{self, Plan};
use super::{Meta, Prop};
use crate::common::{Ctx, Stats};
use crate::sub::s4drive::{base_profile, Stepping};

pub fn plan() -> Plan {
    let mut mixed = base_profile("c01-mixed");
    mixed.stepping = Stepping::Mixed;
    let mut turns = base_profile("c01-turns");
    turns.stepping = Stepping::Turns;
    let mut single = base_profile("c01-single");
    single.stepping = Stepping::Single;
    single.burst_pm = 150;
    // MQTT 5 subscribers that announce a Topic Alias Maximum, publishers that use aliases of their own
    single.alias_pm = 250;
    single.pub_alias_pm = 200;
    mixed.alias_pm = 120;
    // small retention: slow subscribers lose evicted messages (tolerated), everything else is judged
    let mut lossy = base_profile("c01-small-retention");
    lossy.segments = vec![(1024, 1), (1024, 2), (2048, 3)];
    lossy.burst_pm = 250;
    lossy.w.stall = 6;
    lossy.persistent_pm = 200;
    Plan {
        profiles: vec![mixed, turns, single, lossy],
        directed: vec![("alias-limit-exceeded", |h| h.alias_limit_exceeded()), ("alias-reuse-after-unsubscribe", |h| h.alias_reuse_after_unsubscribe())],
        quick_histories: 400,
        thorough_histories: 240_000,
        s5: Some((2, 30, s4common::s5_default(false, 0))),
        enumerate_session_end: None,
        enumerate_symbols: None,
        relabel: None,
    }
}

fn run(ctx: &Ctx) -> Stats {
    s4common::run(ctx, &plan())
}

fn replay(ctx: &Ctx, doc: &serde_json::Value) -> Stats {
    s4common::replay(ctx, &plan(), doc)
}

pub fn prop() -> Prop {
    Prop {
        id: "C01",
        meta: Meta {
            level: "exploration",
            rule: "seeded random histories of 2-5 simulated clients (connect/subscribe/unsubscribe/publish QoS0-2/ack/disconnect, stalls, bursts) against the real router stepped by the harness; a case is counted as distinct and non-trivial when its sequence of operation kinds is new and it reached at least one named corner state",
            assumptions: &["router stepped on one thread through verif hooks; link actors use the real LinkTx/LinkRx", "default segment sizes: backlog stays within retention"],
            floors: &[("quiescent-point", 20), ("forward", 200)],
        },
        run,
        replay: Some(replay),
    }
}
