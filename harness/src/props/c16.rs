//! C16: last will – published exactly once iff the connection ended without DISCONNECT.
//!
//! Deciding substrate S6 (full broker stack in memory: real router thread, real per-connection
//! task `remote()` with its will handling, scripted raw-byte clients decoded with the client
//! crate's codecs) plus the router half on S4 (`s4parts::c16_plan`).
//!
//! One S6 case = one short session of a client under test (with or without a will) that is
//! ended at an enumerated point by an enumerated flavour of ending, observed by 0..3 current
//! subscribers, a later subscriber (retain flag) and – in some cases – a second session of
//! the same client id without a will. Counting is done at logical barriers: the connection
//! task's JoinHandle (its Disconnect / PublishWill events are then in the router channel),
//! a router barrier, then a sentinel publish on the will topic that every observer waits
//! for (per-log FIFO: the will, if any, was forwarded before the sentinel).
use super::s4common;
use super::s4parts;
use super::{Meta, Prop};
use crate::common::{fnv, judge, sharded, Ctx, Judged, Record, Rng, Stats};
use crate::gen::canon::{self, Canon, PVal, Props};
use crate::sub::s6::{self, helper_client, Broker, ListenerCfg, Raw, Rt, S6Err, TaskEnd, Ver};
use serde::{Deserialize, Serialize};
use serde_json::{json, Value};

// ---------------------------------------------------------------- case description

#[derive(Clone, Copy, Debug, PartialEq, Eq, Serialize, Deserialize)]
pub enum Op {
    /// SUBSCRIBE to an own topic (SUBACK awaited)
    Subscribe,
    /// PUBLISH with this QoS on a topic nobody subscribes to (ack flow completed)
    Publish(u8),
    Ping,
}

#[derive(Clone, Copy, Debug, PartialEq, Eq, Serialize, Deserialize)]
pub enum End {
    /// socket closed, no packet
    Close,
    /// first half of a PUBLISH frame, then socket closed
    MidPacket,
    /// DISCONNECT, then socket closed
    DisconnectClose,
    /// DISCONNECT, then wait for the broker to close
    DisconnectWait,
    /// a PUBLISH and DISCONNECT in one write, then socket closed
    PublishDisconnect,
    /// DISCONNECT followed by undecodable bytes in the same write
    DisconnectGarbage,
    /// undecodable bytes: 0 = reserved packet type, 1 = PUBLISH with QoS 3, 2 = frame larger than the listener's maximum
    Malformed(u8),
    /// unsolicited acknowledgement: 0 = PUBACK, 1 = PUBREC, 2 = PUBCOMP → the router closes the connection
    BadAck(u8),
    /// keep-alive of 1 s and silence (real time; the broker closes after 1.5 s)
    KeepAlive,
    /// keep-alive of 1 s; the first half of a PUBLISH frame, then silence (the peer's link died mid-frame)
    KeepAliveMidPacket,
    /// the complete CONNECT is written and the socket closed before CONNACK is read (only at point 0)
    CloseBeforeConnack,
    /// only a prefix of the CONNECT is written, then the socket is closed (only at point 0): never a session
    TruncatedConnect,
}

impl End {
    fn name(&self) -> String {
        match self {
            End::Malformed(k) => format!("Malformed{k}"),
            End::BadAck(k) => format!("BadAck{k}"),
            e => format!("{e:?}"),
        }
    }
    /// did the client send DISCONNECT before the connection ended?
    fn disconnect_first(&self) -> bool {
        matches!(
            self,
            End::DisconnectClose | End::DisconnectWait | End::PublishDisconnect | End::DisconnectGarbage
        )
    }
}

#[derive(Clone, Debug, PartialEq, Eq, Serialize, Deserialize)]
pub struct WillSpec {
    pub qos: u8,
    pub retain: bool,
    /// MQTT 5 will properties (empty for a 3.1.1 client)
    pub props: Props,
}

#[derive(Clone, Copy, Debug, PartialEq, Eq, Serialize, Deserialize)]
pub enum FilterKind {
    Exact,
    Plus,
    Hash,
    /// a filter that does not match the will topic
    NoMatch,
}

#[derive(Clone, Debug, PartialEq, Eq, Serialize, Deserialize)]
pub struct SubSpec {
    pub v5: bool,
    pub filter: FilterKind,
    pub qos: u8,
}

#[derive(Clone, Debug, PartialEq, Eq, Serialize, Deserialize)]
pub struct Case {
    pub n: u64,
    pub v5: bool,
    pub will: Option<WillSpec>,
    pub subs: Vec<SubSpec>,
    pub session: Vec<Op>,
    /// number of session operations executed before the end
    pub end_point: usize,
    pub end: End,
    pub second_session: bool,
    pub late_v5: bool,
    pub clean: bool,
}

impl Case {
    fn ver(&self) -> Ver {
        if self.v5 {
            Ver::V5
        } else {
            Ver::V4
        }
    }
    fn will_topic(&self) -> String {
        format!("w{}/a/b", self.n)
    }
    fn will_payload(&self) -> Vec<u8> {
        format!("will:{}", self.n).into_bytes()
    }
    fn client_id(&self) -> String {
        format!("c16x{}", self.n)
    }
    fn filter(&self, k: FilterKind) -> String {
        match k {
            FilterKind::Exact => format!("w{}/a/b", self.n),
            FilterKind::Plus => format!("w{}/+/b", self.n),
            FilterKind::Hash => format!("w{}/#", self.n),
            FilterKind::NoMatch => format!("w{}x/#", self.n),
        }
    }
    fn nomatch_topic(&self) -> String {
        format!("w{}x/s", self.n)
    }
    /// the statement's prediction: does the will have to be published?
    fn registered(&self) -> bool {
        self.will.is_some() && self.end != End::TruncatedConnect
    }
    fn expected(&self) -> u64 {
        (self.registered() && !self.end.disconnect_first()) as u64
    }
    /// inputs that reproduce a defect recorded in known_findings.json
    fn is_trigger(&self) -> bool {
        let props_to_v4 = self.will.as_ref().is_some_and(|w| !w.props.is_empty())
            && (self.subs.iter().any(|s| !s.v5 && s.filter != FilterKind::NoMatch) || !self.late_v5);
        props_to_v4 || matches!(self.end, End::CloseBeforeConnack | End::DisconnectGarbage)
    }
    fn shape(&self) -> u64 {
        let s = format!(
            "{}|{:?}|{:?}|{:?}|{}|{}|{}|{}",
            self.v5,
            self.will.as_ref().map(|w| (w.qos, w.retain, w.props.iter().map(|p| p.0).collect::<Vec<_>>())),
            self.subs,
            self.session,
            self.end_point,
            self.end.name(),
            self.second_session,
            self.late_v5
        );
        fnv(s.as_bytes())
    }
}

// ---------------------------------------------------------------- observation

#[derive(Clone, Debug, Default, Serialize)]
pub struct SubObs {
    /// the subscriber received the sentinel (its stream is complete up to it)
    pub complete: bool,
    /// will publications before the first sentinel
    pub wills: u64,
    /// will publications between the first and the second sentinel (second session)
    pub wills_second: u64,
    /// a will publication whose topic differs from the registered one
    pub wrong_topic: Option<String>,
    /// everything else that arrived (payloads), for the replay file
    pub other: Vec<String>,
    /// how the subscriber's connection task ended if it ended early
    pub lost: Option<TaskEnd>,
}

#[derive(Clone, Debug, Default, Serialize)]
pub struct Obs {
    pub connack: String,
    pub ended: String,
    pub subs: Vec<SubObs>,
    /// retained copies of the will seen by the later subscriber (None: not run)
    pub late_retained: Option<u64>,
    pub late_retain_flag_ok: bool,
    pub late_lost: Option<TaskEnd>,
    pub wills_registered_after_end: bool,
    pub live_after_end: bool,
    /// keep-alive 1 s: the broker had not ended the silent connection after 15 s
    #[serde(default)]
    pub keepalive_not_enforced: bool,
    pub notes: Vec<String>,
}

fn will_props(rng: &mut Rng) -> Props {
    let mut p: Props = vec![];
    if rng.chance(1, 2) {
        p.push((canon::P_PAYLOAD_FORMAT, PVal::U8(1)));
    }
    if rng.chance(1, 2) {
        p.push((canon::P_MESSAGE_EXPIRY, PVal::U32(3600)));
    }
    if rng.chance(1, 2) {
        p.push((canon::P_CONTENT_TYPE, PVal::Str("text/plain".into())));
    }
    if rng.chance(1, 3) {
        p.push((canon::P_RESPONSE_TOPIC, PVal::Str("resp/t".into())));
    }
    if rng.chance(1, 3) {
        p.push((canon::P_CORRELATION_DATA, PVal::Bin(vec![1, 2, 3])));
    }
    if p.is_empty() || rng.chance(1, 3) {
        p.push((canon::P_USER, PVal::Pair("k".into(), "v".into())));
    }
    canon::sort_props(&mut p);
    p
}

// ---------------------------------------------------------------- execution

fn listeners() -> Vec<ListenerCfg> {
    vec![ListenerCfg::plain(Ver::V4), ListenerCfg::plain(Ver::V5)]
}

fn new_broker(rt: &Rt) -> Broker {
    Broker::start(rt, s6::router_config(64), listeners())
}

fn ver_of(v5: bool) -> Ver {
    if v5 {
        Ver::V5
    } else {
        Ver::V4
    }
}

async fn finish_helper(mut r: Raw) -> Result<(), S6Err> {
    if r.is_open() {
        r.disconnect().await?;
    }
    r.close();
    r.join().await?;
    Ok(())
}

/// count the will publications among `pubs[from..]`, note wrong topics
fn count_wills(case: &Case, r: &Raw, from: usize, obs: &mut SubObs) -> u64 {
    let wp = case.will_payload();
    let wt = case.will_topic().into_bytes();
    let mut n = 0;
    for p in r.pubs.iter().skip(from) {
        if p.payload == wp {
            n += 1;
            if p.topic != wt {
                obs.wrong_topic = Some(String::from_utf8_lossy(&p.topic).into_owned());
            }
        } else if !p.payload.starts_with(b"sentinel") {
            obs.other.push(String::from_utf8_lossy(&p.payload).into_owned());
        }
    }
    n
}

async fn run_case(b: &Broker, case: &Case) -> Result<Obs, S6Err> {
    let mut obs = Obs::default();
    let n = case.n;
    let v = if case.v5 { 5 } else { 4 };
    // sentinel publisher
    let mut p = helper_client(b, Ver::V4, &format!("c16p{n}")).await?;
    // current subscribers
    let mut subs: Vec<Raw> = vec![];
    for (i, s) in case.subs.iter().enumerate() {
        let mut r = helper_client(b, ver_of(s.v5), &format!("c16s{n}_{i}")).await?;
        let granted = r.subscribe(&case.filter(s.filter), s.qos, None).await?;
        if granted.is_none() {
            return Err(S6Err::Harness("subscriber got no SUBACK".into()));
        }
        subs.push(r);
    }

    // the client under test
    let keep_alive = if matches!(case.end, End::KeepAlive | End::KeepAliveMidPacket) { 1 } else { 60 };
    let mut c = s6::connect(v, &case.client_id(), case.clean, keep_alive);
    if let Some(w) = &case.will {
        c = s6::with_will(c, &case.will_topic(), &case.will_payload(), w.qos, w.retain, w.props.clone());
        // a will delay only has an effect with a session expiry at least as long
        if let Some(d) = w.props.iter().find_map(|(i, v)| match (i, v) {
            (&canon::P_WILL_DELAY, PVal::U32(d)) => Some(*d),
            _ => None,
        }) {
            c.props = vec![(canon::P_SESSION_EXPIRY, PVal::U32(d + 5))];
        }
    }
    let mut x = b.open(b.listener(case.ver()));
    let connect_bytes = canon::encode(&c);
    match case.end {
        End::TruncatedConnect => {
            let k = connect_bytes.len() * 2 / 3;
            x.write(&connect_bytes[..k]).await?;
            x.close();
            obs.connack = "not awaited".into();
        }
        End::CloseBeforeConnack => {
            x.write(&connect_bytes).await?;
            x.close();
            obs.connack = "not awaited".into();
        }
        _ => {
            x.write(&connect_bytes).await?;
            let out = x.connack().await?;
            obs.connack = out.brief();
            if !out.accepted() {
                return Err(S6Err::Harness(format!("client under test was not accepted: {}", out.brief())));
            }
            for op in case.session.iter().take(case.end_point) {
                let ok = match op {
                    Op::Subscribe => x.subscribe(&format!("o{n}/own"), 1, None).await?.is_some(),
                    Op::Publish(q) => x.publish(format!("o{n}/p").as_bytes(), b"data", *q, false, vec![]).await?,
                    Op::Ping => x.ping().await?,
                };
                if !ok {
                    return Err(S6Err::Harness(format!("session operation {op:?} was not completed by the broker")));
                }
            }
            let mut disc = Canon::empty(v, canon::DISCONNECT);
            disc.code = 0;
            let disc = canon::encode(&disc);
            let mut publ = Canon::empty(v, canon::PUBLISH);
            publ.topic = format!("o{n}/p").into_bytes();
            publ.payload = b"last".to_vec();
            publ.qos = 1;
            publ.pkid = 999;
            let publ = canon::encode(&publ);
            match case.end {
                End::Close => x.close(),
                End::MidPacket => {
                    x.write(&publ[..publ.len() / 2]).await?;
                    x.close();
                }
                End::DisconnectClose => {
                    x.write(&disc).await?;
                    x.close();
                }
                End::DisconnectWait => {
                    x.write(&disc).await?;
                    x.until_closed().await?;
                }
                End::PublishDisconnect => {
                    let mut both = publ.clone();
                    both.extend_from_slice(&disc);
                    x.write(&both).await?;
                    x.close();
                }
                End::DisconnectGarbage => {
                    let mut both = disc.clone();
                    both.extend_from_slice(&[0x00, 0x00, 0xff, 0xff]);
                    x.write(&both).await?;
                    x.until_closed().await?;
                }
                End::Malformed(k) => {
                    let bytes: Vec<u8> = match k {
                        0 => vec![0x00, 0x00],
                        1 => vec![0x36, 0x07, 0x00, 0x01, b'a', 0x00, 0x01, 0x00, b'x'],
                        // remaining length 2 MiB > the listener's 1 MiB maximum
                        _ => vec![0x30, 0x80, 0x80, 0x80, 0x01],
                    };
                    x.write(&bytes).await?;
                    x.until_closed().await?;
                }
                End::BadAck(k) => {
                    let t = match k {
                        0 => canon::PUBACK,
                        1 => canon::PUBREC,
                        _ => canon::PUBCOMP,
                    };
                    let mut a = Canon::empty(v, t);
                    a.pkid = 4242;
                    x.send(&a).await?;
                    x.until_closed().await?;
                }
                End::KeepAlive | End::KeepAliveMidPacket => {
                    if case.end == End::KeepAliveMidPacket {
                        x.write(&publ[..publ.len() / 2]).await?;
                    }
                    // the broker has to end the connection 1.5 s after the last byte; ten times that is allowed
                    // before "the keep-alive is not enforced" is a verdict (not a watchdog event)
                    match tokio::time::timeout(std::time::Duration::from_secs(15), x.until_closed()).await {
                        Ok(r) => r?,
                        Err(_) => {
                            obs.keepalive_not_enforced = true;
                            x.close();
                        }
                    }
                }
                End::CloseBeforeConnack | End::TruncatedConnect => unreachable!(),
            }
        }
    }
    let end = x.join().await?;
    obs.ended = format!("{end:?}");

    // barrier 1: the router has handled the Disconnect / PublishWill of the ended connection
    let snap = b.barrier().await?;
    obs.wills_registered_after_end = snap.wills.contains(&case.client_id());
    obs.live_after_end = snap.connection_map.iter().any(|(c, _)| *c == case.client_id());

    // sentinel 1
    let s1 = format!("sentinel1:{n}").into_bytes();
    p.publish(case.will_topic().as_bytes(), &s1, 0, false, vec![]).await?;
    p.publish(case.nomatch_topic().as_bytes(), &s1, 0, false, vec![]).await?;
    let mut marks = vec![];
    for r in subs.iter_mut() {
        let mut so = SubObs::default();
        so.complete = r.until_payload(&s1).await?;
        if !so.complete {
            so.lost = Some(r.join().await?);
        }
        so.wills = count_wills(case, r, 0, &mut so);
        marks.push(r.pubs.len());
        obs.subs.push(so);
    }

    // second session of the same client id, without a will, ended by a socket close
    if case.second_session {
        let mut x2 = b.open(b.listener(case.ver()));
        let out = x2.connect(&s6::connect(v, &case.client_id(), true, 60)).await?;
        if !out.accepted() {
            obs.notes.push(format!("second session not accepted: {}", out.brief()));
        }
        x2.close();
        x2.join().await?;
        b.barrier().await?;
        let s2 = format!("sentinel2:{n}").into_bytes();
        p.publish(case.will_topic().as_bytes(), &s2, 0, false, vec![]).await?;
        p.publish(case.nomatch_topic().as_bytes(), &s2, 0, false, vec![]).await?;
        for (i, r) in subs.iter_mut().enumerate() {
            if !obs.subs[i].complete {
                continue;
            }
            let done = r.until_payload(&s2).await?;
            if !done {
                obs.subs[i].complete = false;
                obs.subs[i].lost = Some(r.join().await?);
            }
            let mut so = obs.subs[i].clone();
            so.wills_second = count_wills(case, r, marks[i], &mut so);
            obs.subs[i] = so;
        }
    }

    // a later subscriber sees the will iff it was published with the retain flag
    {
        let mut l = helper_client(b, ver_of(case.late_v5), &format!("c16l{n}")).await?;
        if l.subscribe(&case.will_topic(), 1, None).await?.is_none() {
            obs.late_lost = Some(l.join().await?);
        } else {
            let s3 = format!("sentinel3:{n}").into_bytes();
            p.publish(case.will_topic().as_bytes(), &s3, 0, false, vec![]).await?;
            if l.until_payload(&s3).await? {
                let wp = case.will_payload();
                let copies: Vec<_> = l.pubs.iter().filter(|p| p.payload == wp).collect();
                obs.late_retained = Some(copies.len() as u64);
                obs.late_retain_flag_ok = copies.iter().all(|p| p.retain);
            } else {
                obs.late_lost = Some(l.join().await?);
            }
        }
        // remove the retained will so that topics stay clean (not judged)
        p.publish(case.will_topic().as_bytes(), b"", 0, true, vec![]).await?;
        finish_helper(l).await?;
    }

    for r in subs {
        finish_helper(r).await?;
    }
    finish_helper(p).await?;
    b.barrier().await?;
    Ok(obs)
}

// ---------------------------------------------------------------- oracle

fn base_record(case: &Case, oracle: &str, msg: String) -> Record {
    Record::new("C16", oracle, msg)
        .fact("substrate", "S6")
        .fact("end", case.end.name())
        .fact("disconnect_first", case.end.disconnect_first())
        .fact("client", if case.v5 { "v5" } else { "v4" })
        .fact("will", case.will.is_some())
        .fact("will_props", case.will.as_ref().is_some_and(|w| !w.props.is_empty()))
}

fn lost_facts(r: Record, lost: &Option<TaskEnd>) -> Record {
    match lost {
        Some(TaskEnd::Panicked { location, message }) => r
            .fact("observer_task", "panicked")
            .fact("panic_site", location.split(':').next().unwrap_or("?"))
            .fact("panic_message", message.chars().take(80).collect::<String>()),
        Some(TaskEnd::Returned) => r.fact("observer_task", "returned"),
        None => r,
    }
}

/// Decide one case. Returns the first failing record, if any.
fn check(case: &Case, obs: &Obs, stats: &mut Stats) -> Option<Record> {
    let expected = case.expected();
    if matches!(case.end, End::KeepAlive | End::KeepAliveMidPacket) {
        stats.oracle("keepalive-expiry-ends-connection");
        if obs.keepalive_not_enforced {
            return Some(base_record(
                case,
                "keepalive-expiry-missed",
                format!("keep-alive 1 s: 15 s after the client's last byte ({}) the broker had not ended the connection, so the will could not fire", if case.end == End::KeepAliveMidPacket { "half a frame" } else { "a whole packet" }),
            ));
        }
    }
    for (i, (spec, so)) in case.subs.iter().zip(obs.subs.iter()).enumerate() {
        let want = if spec.filter == FilterKind::NoMatch { 0 } else { expected };
        let sv = if spec.v5 { "v5" } else { "v4" };
        stats.oracle("will-count");
        if !so.complete {
            // the observer's connection was ended by the broker: the will cannot have been delivered "exactly once"
            let r = base_record(case, "observer-lost", format!("subscriber {i} ({sv}, {:?}) lost its connection while observing (task: {:?})", spec.filter, so.lost))
                .fact("observer", sv)
                .fact("expected", want);
            return Some(lost_facts(r, &so.lost));
        }
        if so.wills != want {
            let oracle = if so.wills < want {
                "will-missing"
            } else if want == 0 && case.registered() {
                "will-after-disconnect"
            } else if want == 0 {
                "will-without-registration"
            } else {
                "will-duplicated"
            };
            return Some(
                base_record(
                    case,
                    oracle,
                    format!(
                        "subscriber {i} ({sv}, {:?}) received the will {} time(s), expected {want} (end {} at point {})",
                        spec.filter,
                        so.wills,
                        case.end.name(),
                        case.end_point
                    ),
                )
                .fact("observer", sv)
                .fact("expected", want)
                .fact("got", so.wills),
            );
        }
        if let Some(t) = &so.wrong_topic {
            return Some(base_record(case, "will-topic", format!("will arrived on topic {t}, registered {}", case.will_topic())));
        }
        if case.second_session {
            stats.oracle("no-will-from-willless-client");
            if so.wills_second != 0 {
                return Some(
                    base_record(
                        case,
                        "will-from-willless-session",
                        format!("a later session of the same client id without a will caused {} will publication(s) at subscriber {i}", so.wills_second),
                    )
                    .fact("first_session_expected", expected)
                    .fact("got", so.wills_second),
                );
            }
        }
    }
    stats.oracle("retained-will");
    match obs.late_retained {
        None => {
            let r = base_record(case, "observer-lost", format!("the later subscriber lost its connection (task: {:?})", obs.late_lost))
                .fact("observer", if case.late_v5 { "v5" } else { "v4" })
                .fact("expected", "retained-replay");
            return Some(lost_facts(r, &obs.late_lost));
        }
        Some(got) => {
            let retain = case.will.as_ref().is_some_and(|w| w.retain);
            let want = (expected == 1 && retain) as u64;
            if got != want {
                let oracle = if got < want {
                    "will-missing"
                } else if !case.registered() {
                    "will-without-registration"
                } else if expected == 0 {
                    "will-after-disconnect"
                } else if !retain {
                    "will-retained-unasked"
                } else {
                    "will-duplicated"
                };
                return Some(
                    base_record(
                        case,
                        oracle,
                        format!(
                            "a later subscriber received {got} retained cop(ies) of the will, expected {want} (will retain={retain}, end {} at point {})",
                            case.end.name(),
                            case.end_point
                        ),
                    )
                    .fact("observer", "later-subscriber")
                    .fact("expected", want)
                    .fact("got", got),
                );
            }
            if !obs.late_retain_flag_ok {
                return Some(base_record(case, "retained-will-flag", "the retained will reached a new subscriber without the retain flag".into()));
            }
        }
    }
    None
}

// ---------------------------------------------------------------- generation

const FLAVOURS: &[End] = &[
    End::Close,
    End::MidPacket,
    End::DisconnectClose,
    End::DisconnectWait,
    End::PublishDisconnect,
    End::Malformed(0),
    End::Malformed(1),
    End::Malformed(2),
    End::BadAck(0),
    End::BadAck(1),
    End::BadAck(2),
];

fn gen_subs(rng: &mut Rng, all_v5: bool) -> Vec<SubSpec> {
    let k = rng.weighted(&[2, 4, 3, 2]);
    (0..k)
        .map(|_| SubSpec {
            v5: all_v5 || rng.chance(1, 2),
            filter: *rng.pick(&[FilterKind::Exact, FilterKind::Exact, FilterKind::Plus, FilterKind::Hash, FilterKind::NoMatch]),
            qos: rng.below(3) as u8,
        })
        .collect()
}

fn gen_session(rng: &mut Rng) -> Vec<Op> {
    let len = rng.range(1, 3);
    (0..len)
        .map(|_| *rng.pick(&[Op::Subscribe, Op::Publish(0), Op::Publish(1), Op::Publish(2), Op::Ping]))
        .collect()
}

/// One generated session and every (end point × end flavour) case over it
fn gen_cases(rng: &mut Rng, counter: &mut u64, with_triggers: bool) -> Vec<Case> {
    let v5 = rng.chance(1, 2);
    let session = gen_session(rng);
    let mut out = vec![];
    let mut flavours: Vec<(usize, End)> = vec![];
    for p in 0..=session.len() {
        for f in FLAVOURS {
            flavours.push((p, *f));
        }
    }
    if with_triggers {
        flavours.push((rng.below(session.len() as u64 + 1) as usize, End::DisconnectGarbage));
    }
    flavours.push((0, End::TruncatedConnect));
    if with_triggers {
        flavours.push((0, End::CloseBeforeConnack));
    }
    for (p, f) in flavours {
        let has_will = rng.chance(4, 5);
        // (in a trigger session 3.1.1 observers are allowed, so properties are rarer there)
        let props_wanted = v5 && has_will && rng.chance(1, if with_triggers { 8 } else { 3 });
        // a will with properties towards a 3.1.1 observer reproduces the V4::write defect: triggers only
        let all_v5 = props_wanted && !with_triggers;
        let will = has_will.then(|| WillSpec {
            qos: rng.below(3) as u8,
            retain: rng.chance(1, 2),
            props: if props_wanted { will_props(rng) } else { vec![] },
        });
        *counter += 1;
        out.push(Case {
            n: *counter,
            v5,
            will,
            subs: gen_subs(rng, all_v5),
            session: session.clone(),
            end_point: p,
            end: f,
            // a connection that failed in RemoteLink::new followed by the same client id is C19's known finding
            second_session: f != End::CloseBeforeConnack && rng.chance(1, 3),
            late_v5: all_v5 || rng.chance(1, 2),
            clean: rng.chance(2, 3),
        });
    }
    out
}

/// Real-time cases: keep-alive expiry and a will delay of one second
fn timing_cases(rng: &mut Rng, counter: &mut u64, k: usize) -> Vec<Case> {
    let mut out = vec![];
    for i in 0..k {
        *counter += 1;
        let v5 = i % 2 == 1;
        let delayed = v5 && i % 4 == 3;
        let mut props: Props = vec![];
        if delayed {
            props.push((canon::P_WILL_DELAY, PVal::U32(1)));
        }
        out.push(Case {
            n: *counter,
            v5,
            will: (i % 5 != 4).then(|| WillSpec {
                qos: rng.below(3) as u8,
                retain: rng.chance(1, 2),
                props,
            }),
            subs: vec![
                SubSpec { v5: true, filter: FilterKind::Exact, qos: rng.below(3) as u8 },
                SubSpec { v5: delayed || rng.chance(1, 2), filter: FilterKind::Hash, qos: 0 },
            ],
            session: vec![Op::Ping],
            end_point: rng.below(2) as usize,
            end: if delayed { End::Close } else if i % 2 == 0 { End::KeepAlive } else { End::KeepAliveMidPacket },
            second_session: false,
            late_v5: true,
            clean: true,
        });
    }
    out
}

// ---------------------------------------------------------------- driver

fn replay_doc(case: &Case, obs: &Obs) -> Value {
    json!({"substrate": "S6", "case": case, "observed": obs,
           "will_topic": case.will_topic(), "will_payload": String::from_utf8_lossy(&case.will_payload()),
           "expected_publications": case.expected()})
}

fn account(case: &Case, obs: &Obs, stats: &mut Stats) {
    stats.evaluations += 1;
    stats.op(&format!("end:{}", case.end.name()));
    stats.op(if case.v5 { "client:v5" } else { "client:v4" });
    stats.opn("current-subscribers", case.subs.len() as u64);
    *stats.ops.entry("crash_points".into()).or_default() += 1;
    stats.shapes.insert(case.shape());
    if case.expected() == 1 {
        stats.corner("will-due");
        if case.subs.iter().any(|s| s.filter != FilterKind::NoMatch) {
            stats.corner("will-due-with-subscribers");
        } else {
            stats.corner("will-due-no-subscriber");
        }
    } else if case.registered() {
        stats.corner("will-cancelled-by-disconnect");
    } else {
        stats.corner("no-will-registered");
    }
    if case.will.as_ref().is_some_and(|w| w.retain) && case.expected() == 1 {
        stats.corner("retained-will-due");
    }
    if case.second_session {
        stats.corner("second-session-without-will");
    }
    match case.end {
        End::KeepAlive => stats.corner("keep-alive-expiry"),
        End::KeepAliveMidPacket => stats.corner("keep-alive-expiry-mid-frame"),
        End::BadAck(_) => stats.corner("router-initiated-close"),
        End::Malformed(_) => stats.corner("protocol-error"),
        End::MidPacket => stats.corner("close-mid-packet"),
        _ => {}
    }
    if case.will.as_ref().is_some_and(|w| w.props.iter().any(|p| p.0 == canon::P_WILL_DELAY)) {
        stats.corner("will-delay");
    }
    let delivered: u64 = obs.subs.iter().map(|s| s.wills).sum();
    stats.add_extra("will_publications_observed", delivered);
    if obs.wills_registered_after_end {
        stats.add_extra("will_still_registered_after_end", 1);
    }
    if obs.live_after_end {
        stats.add_extra("connection_still_registered_after_end", 1);
    }
}

/// Run cases one after the other on one broker; a fresh broker after every failed case
fn run_cases(ctx: &Ctx, rt: &Rt, cases: &[Case], stats: &mut Stats) {
    let mut broker = new_broker(rt);
    let mut on_broker = 0;
    for case in cases {
        if on_broker >= 400 {
            broker = new_broker(rt);
            on_broker = 0;
        }
        on_broker += 1;
        match rt.block_on(run_case(&broker, case)) {
            Ok(obs) => {
                account(case, &obs, stats);
                if let Some(rec) = check(case, &obs, stats) {
                    match judge(ctx, stats, rec, || replay_doc(case, &obs)) {
                        Judged::Known(_) | Judged::Violation => {}
                    }
                    // the broker may be left with a dead observer or a leaked connection: do not reuse it
                    broker = new_broker(rt);
                    on_broker = 0;
                } else if stats.samples.len() < 2 && case.expected() == 1 && !case.subs.is_empty() {
                    stats.sample(replay_doc(case, &obs));
                }
            }
            Err(S6Err::RouterGone(p)) => {
                let rec = Record::new("C16", "router-panic", format!("router thread ended during a will scenario: {p:?}"))
                    .fact("site", p.as_ref().map(|p| crate::common::panic_site(p)).unwrap_or_default());
                judge(ctx, stats, rec, || json!({"substrate": "S6", "case": case}));
                broker = new_broker(rt);
                on_broker = 0;
            }
            Err(e) => {
                stats.inconclusive.push(format!("S6 case {} ({}): {e}", case.n, case.end.name()));
                broker = new_broker(rt);
                on_broker = 0;
            }
        }
        if stats.violations.len() >= 3 || stats.inconclusive.len() >= 5 {
            break;
        }
    }
}

/// Timing cases run concurrently, each on its own broker
fn run_timing(ctx: &Ctx, rt: &Rt, cases: &[Case], stats: &mut Stats) {
    let brokers: Vec<Broker> = cases.iter().map(|_| new_broker(rt)).collect();
    let results = rt.block_on(async {
        let futs = cases.iter().zip(brokers.iter()).map(|(c, b)| run_case(b, c));
        futures_util::future::join_all(futs).await
    });
    for (case, r) in cases.iter().zip(results) {
        match r {
            Ok(obs) => {
                account(case, &obs, stats);
                if let Some(rec) = check(case, &obs, stats) {
                    judge(ctx, stats, rec, || replay_doc(case, &obs));
                }
            }
            Err(e) => stats.inconclusive.push(format!("S6 timing case {} ({}): {e}", case.n, case.end.name())),
        }
    }
}

/// The AwaitingWill::Cancel path (outside the claim: a reconnect before the will fires).
/// Reported in the evidence, never judged: a v5 client with a delayed will drops, the same
/// client id reconnects with clean_start=false and *no* will before the delay is over, then
/// that second connection drops too. Returns (wills seen after the first drop, after the second).
async fn stale_will_probe(b: &Broker, n: u64) -> Result<(u64, u64), S6Err> {
    let topic = format!("stale{n}/t");
    let mut w = helper_client(b, Ver::V5, &format!("c16sw{n}")).await?;
    w.subscribe(&topic, 0, None).await?;
    let mut p = helper_client(b, Ver::V4, &format!("c16sp{n}")).await?;
    let id = format!("c16st{n}");
    let mut c = s6::connect(5, &id, false, 60);
    c = s6::with_will(c, &topic, b"stale-will", 0, false, vec![(canon::P_WILL_DELAY, PVal::U32(2))]);
    c.props = vec![(canon::P_SESSION_EXPIRY, PVal::U32(30))];
    let mut x = b.open(b.listener(Ver::V5));
    if !x.connect(&c).await?.accepted() {
        return Err(S6Err::Harness("stale-will probe: first connect refused".into()));
    }
    x.close();
    // the first task now waits for the will delay; reconnect before it is over, without a will
    let mut c2 = s6::connect(5, &id, false, 60);
    c2.props = vec![(canon::P_SESSION_EXPIRY, PVal::U32(30))];
    let mut x2 = b.open(b.listener(Ver::V5));
    if !x2.connect(&c2).await?.accepted() {
        return Err(S6Err::Harness("stale-will probe: second connect refused".into()));
    }
    x.join().await?;
    b.barrier().await?;
    p.publish(topic.as_bytes(), b"sentinel-a", 0, false, vec![]).await?;
    w.until_payload(b"sentinel-a").await?;
    let first = w.pubs.iter().filter(|m| m.payload == b"stale-will").count() as u64;
    x2.close();
    x2.join().await?;
    b.barrier().await?;
    p.publish(topic.as_bytes(), b"sentinel-b", 0, false, vec![]).await?;
    w.until_payload(b"sentinel-b").await?;
    let total = w.pubs.iter().filter(|m| m.payload == b"stale-will").count() as u64;
    finish_helper(w).await?;
    finish_helper(p).await?;
    b.barrier().await?;
    Ok((first, total - first))
}

/// Take-over while both connections carry a will (outside the claim, reported only): 'id' is live
/// with will W1; a second connection with the same id, clean session and will W2 takes over and
/// stays connected. Returns the will payloads a subscriber saw after the take-over.
async fn takeover_probe(b: &Broker, n: u64) -> Result<Vec<String>, S6Err> {
    let topic = format!("tko{n}/t");
    let mut w = helper_client(b, Ver::V4, &format!("c16tw{n}")).await?;
    w.subscribe(&topic, 0, None).await?;
    let mut p = helper_client(b, Ver::V4, &format!("c16tp{n}")).await?;
    let id = format!("c16tk{n}");
    let c1 = s6::with_will(s6::connect(4, &id, true, 60), &topic, b"W1-of-replaced-connection", 0, false, vec![]);
    let c2 = s6::with_will(s6::connect(4, &id, true, 60), &topic, b"W2-of-live-connection", 0, false, vec![]);
    let mut x1 = b.open(b.listener(Ver::V4));
    if !x1.connect(&c1).await?.accepted() {
        return Err(S6Err::Harness("take-over probe: first connect refused".into()));
    }
    let mut x2 = b.open(b.listener(Ver::V4));
    if !x2.connect(&c2).await?.accepted() {
        return Err(S6Err::Harness("take-over probe: second connect refused".into()));
    }
    x1.until_closed().await?;
    x1.join().await?;
    b.barrier().await?;
    if !x2.ping().await? {
        return Err(S6Err::Harness("take-over probe: the new connection is not live".into()));
    }
    p.publish(topic.as_bytes(), b"sentinel-t", 0, false, vec![]).await?;
    w.until_payload(b"sentinel-t").await?;
    let seen: Vec<String> = w.pubs.iter().filter(|m| !m.payload.starts_with(b"sentinel")).map(|m| String::from_utf8_lossy(&m.payload).into_owned()).collect();
    finish_helper(x2).await?;
    finish_helper(w).await?;
    finish_helper(p).await?;
    b.barrier().await?;
    Ok(seen)
}

fn s6_part(ctx: &Ctx) -> Stats {
    let shards = if ctx.quick() { ctx.threads.clamp(1, 8) } else { ctx.threads.max(1) };
    let sessions_total = ctx.size(160, 2400);
    let trigger_pct = if ctx.quick() { 15 } else { 5 };
    sharded(ctx, shards, |shard, seed| {
        let mut stats = Stats::default();
        let mut rng = Rng::new(seed ^ 0xc16);
        let rt = Rt::new(&format!("c16-{shard}"), 3);
        let mut counter: u64 = (shard as u64) * 10_000_000;
        let sessions = sessions_total / shards as u64 + 1;
        // timing cases first (they run concurrently, each on its own broker)
        // quick: every shard takes two of the ten, so both versions, the delayed will and the
        // will-less client are covered across shards
        let all = timing_cases(&mut rng, &mut counter, 10);
        let t: Vec<Case> = if ctx.quick() {
            (0..2).map(|j| all[(shard * 2 + j) % 10].clone()).collect()
        } else {
            all
        };
        run_timing(ctx, &rt, &t, &mut stats);
        for _ in 0..sessions {
            let with_triggers = rng.chance(trigger_pct, 100);
            let cases = gen_cases(&mut rng, &mut counter, with_triggers);
            debug_assert!(with_triggers || cases.iter().all(|c| !c.is_trigger()));
            run_cases(ctx, &rt, &cases, &mut stats);
            if stats.violations.len() >= 3 || stats.inconclusive.len() >= 5 {
                break;
            }
        }
        if shard == 0 {
            let b = new_broker(&rt);
            match rt.block_on(stale_will_probe(&b, counter + 1)) {
                Ok((first, second)) => {
                    stats.extra.insert(
                        "outside_claim_reconnect_before_delayed_will".into(),
                        json!({"history": "v5 CONNECT(id, clean_start=0, session expiry 30, will delay 2) ; socket close ; within the delay CONNECT(id, clean_start=0, no will) ; socket close",
                               "will_publications_after_first_close": first,
                               "will_publications_after_second_close_of_willless_connection": second}),
                    );
                }
                Err(e) => {
                    stats.extra.insert("outside_claim_reconnect_before_delayed_will".into(), json!(format!("probe failed: {e}")));
                }
            }
            let b = new_broker(&rt);
            match rt.block_on(takeover_probe(&b, counter + 2)) {
                Ok(seen) => {
                    stats.extra.insert(
                        "outside_claim_takeover_with_two_wills".into(),
                        json!({"history": "CONNECT(id, will W1) ; CONNECT(id, clean session, will W2) takes over and stays connected",
                               "wills_seen_by_a_subscriber_after_the_take_over": seen}),
                    );
                }
                Err(e) => {
                    stats.extra.insert("outside_claim_takeover_with_two_wills".into(), json!(format!("probe failed: {e}")));
                }
            }
        }
        stats
    })
}

fn run(ctx: &Ctx) -> Stats {
    let mut stats = s6_part(ctx);
    stats.exhaustive_scopes.push(
        "S6: for every generated session, every end point (0..=len) x end flavour (socket close, close mid-packet, DISCONNECT+close, DISCONNECT+wait, PUBLISH+DISCONNECT, 3 malformed frames, 3 unsolicited acks) plus truncated CONNECT"
            .into(),
    );
    if stats.violations.is_empty() {
        let s4 = s4common::run(ctx, &s4parts::c16_plan());
        stats.merge(s4);
    }
    stats
}

fn replay(ctx: &Ctx, doc: &Value) -> Stats {
    if doc["substrate"] != "S6" {
        return s4common::replay(ctx, &s4parts::c16_plan(), doc);
    }
    let mut stats = Stats::default();
    let case: Case = match serde_json::from_value(doc["case"].clone()) {
        Ok(c) => c,
        Err(e) => {
            stats.inconclusive.push(format!("replay: cannot read case: {e}"));
            return stats;
        }
    };
    let rt = Rt::new("c16-replay", 3);
    run_cases(ctx, &rt, std::slice::from_ref(&case), &mut stats);
    println!("replayed S6 case: {}", serde_json::to_string(&case).unwrap_or_default());
    stats.shapes.insert(1);
    stats.shapes.insert(2);
    stats
}

pub fn prop() -> Prop {
    Prop {
        id: "C16",
        meta: Meta {
            level: "fault_enumeration",
            rule: "S6: seeded short sessions (1-3 operations) of a v4/v5 client with or without a will (QoS 0-2, retained or not, MQTT 5 will properties), 0-3 current subscribers (v4/v5, exact / + / # / non-matching filters, QoS 0-2); for each session every end point x end flavour is executed against the full broker stack and the will publications are counted per subscriber between logical barriers (task join, router barrier, sentinel publish), plus a later subscriber for the retain flag and in a third of the cases a second will-less session of the same client id. A case counts as distinct and non-trivial by (client version, will shape, subscriber set, session, end point, end flavour, second session, late subscriber version). S4: see the router half (op-kind sequence that reached a named corner state). End flavours include keep-alive expiry after a whole packet and in the middle of a frame (not closed after ten times the allowed time = violation); the router half also runs against a full broker (refused connects with wills).",
            assumptions: &[
                "connections are in-memory duplex pipes entered through Server::verif_accept; the per-connection task, RemoteLink, Network, protocol and router thread are the production code",
                "the will delay is 0 except in the will-delay timing cases; keep-alive expiry uses a real 1 s keep-alive",
                "take-over histories (a reconnect before the will fired) are outside the claim; one such history is executed and reported under coverage.outside_claim_reconnect_before_delayed_will, not judged",
            ],
            floors: &[
                ("will-due-with-subscribers", 20),
                ("will-cancelled-by-disconnect", 10),
                ("no-will-registered", 5),
                ("retained-will-due", 5),
                ("second-session-without-will", 10),
                ("router-initiated-close", 10),
                ("protocol-error", 10),
                ("keep-alive-expiry", 2),
                ("will-count", 100),
            ],
        },
        run,
        replay: Some(replay),
    }
}
