//! C03: no client behaviour can crash or halt the routing core (S4)
use super::s4common::{self, Plan};
use super::{Meta, Prop};
use crate::common::{Ctx, Stats};
#[allow(unused_imports)]
use crate::sub::s4drive::{base_profile, Stepping, Weights};
#[allow(unused_imports)]
use rumqttd::Strategy;

pub fn plan() -> Plan {
    let mut hostile = base_profile("c03-hostile");
    hostile.hostile = true;
    hostile.raw_events = true;
    hostile.stale_events = true;
    hostile.shared_pm = 150;
    hostile.will_pm = 300;
    hostile.alias_pm = 200;
    hostile.persistent_pm = 400;
    hostile.w.bad = 10;
    hostile.w.raw = 8;
    hostile.w.stale = 8;
    hostile.w.will_ev = 3;
    hostile.w.takeover = 4;
    hostile.w.link_drop = 5;
    hostile.w.disconnect_pkt = 4;
    hostile.w.connect = 10;
    hostile.ops = (20, 120);
    hostile.burst_pm = 40;
    hostile.trigger_pm = 200;
    let mut single = hostile.clone();
    single.name = "c03-hostile-single";
    single.stepping = Stepping::Single;
    let mut tiny = hostile.clone();
    tiny.name = "c03-small-limits";
    tiny.max_connections = 3;
    tiny.clients = (3, 5);
    let profiles = vec![hostile, single, tiny];
    Plan {
        profiles,
        directed: vec![("never-collecting-client", |h| h.never_collecting_client(260)), ("alias-limit-exceeded", |h| h.alias_limit_exceeded()), ("shared-turn-holder-stuck", |h| h.shared_turn_holder_stuck())],
        quick_histories: 1500,
        thorough_histories: 1_200_000,
        s5: None,
        enumerate_session_end: None,
        enumerate_symbols: Some((2, 3, {
            let mut e = base_profile("c03-enumerated");
            e.clients = (2, 2);
            e.persistent_pm = 0;
            e.will_pm = 0;
            e.max_outgoing = vec![10];
            e
        })),
        relabel: None,
    }
}

fn run(ctx: &Ctx) -> Stats {
    s4common::run(ctx, &plan())
}

fn replay(ctx: &Ctx, doc: &serde_json::Value) -> Stats {
    s4common::replay(ctx, &plan(), doc)
}

pub fn prop() -> Prop {
    Prop {
        id: "C03",
        meta: Meta {
            level: "exploration",
            rule: "seeded hostile histories (protocol violations, bad acks, server-to-client packets from clients, raw events for unknown/removed ids, stale events of ended links, takeovers, persistent sessions, shared groups, wills) against the real router; every router step runs under catch_unwind with overflow checks on; structural invariants of the router snapshot after every step; a probe (fresh quiescence with all oracles) ends every history. A case counts as distinct and non-trivial when its sequence of operation kinds is new and it reached at least one named corner state. Directed scenarios with several case seeds each: a connected client that never collects what it is handed sends 260 requests in batches of their own; an MQTT 5 subscriber holding more concrete filters than its Topic Alias Maximum that unsubscribes and re-subscribes them. A driven router step that sleeps without consuming CPU time for 20 s is a halt (blocked-step supervisor).",
            assumptions: &["router stepped on one thread through verif hooks; link actors use the real LinkTx/LinkRx", "default segment sizes: backlog stays within retention"],
            floors: &[("quiescent-point", 50), ("stale-event-delivered", 5)],
        },
        run,
        replay: Some(replay),
    }
}
