//! C09: broker outbound window: <=100, unique ids, resumes on ack (S4), plus the buffer-full handshake of the real
//! connection task (S6 with a delay injected between the router's two critical sections)
use super::s4common::{self, Plan};
use super::{Meta, Prop};
use crate::common::{judge, Ctx, Record, Stats};
use crate::sub::s6::{self, helper_client, Broker, Got, ListenerCfg, Rt, S6Err, Ver};
use serde_json::json;
use std::time::Duration;
#[allow(unused_imports)]
use crate::sub::s4drive::{base_profile, Stepping, Weights};
#[allow(unused_imports)]
use rumqttd::Strategy;

pub fn plan() -> Plan {
    let mut p = base_profile("c09-window");
    p.burst_pm = 350;
    p.burst = (90, 450);
    p.qos_weights = [1, 4, 3];
    p.w.ack = 16;
    p.w.stall = 5;
    p.clients = (2, 4);
    let mut hostile = p.clone();
    hostile.name = "c09-bad-acks";
    hostile.hostile = true;
    hostile.w.bad = 5;
    let mut single = p.clone();
    single.name = "c09-single";
    single.stepping = Stepping::Single;
    single.ops = (60, 250);
    // acknowledgement flows that span a reconnect: the PUBRELs of a resumed session are sent again and their
    // PUBCOMPs are solicited acknowledgements
    let mut resume = p.clone();
    resume.name = "c09-resume";
    resume.persistent_pm = 700;
    resume.qos_weights = [1, 2, 5];
    resume.w.link_drop = 8;
    resume.w.connect = 14;
    resume.w.ack = 10;
    resume.burst_pm = 100;
    let profiles = vec![p, hostile, single, resume];
    Plan {
        profiles,
        directed: vec![("retained-replay-into-full-window", |h| h.retained_replay_into_full_window())],
        quick_histories: 1200,
        thorough_histories: 160_000,
        s5: None,
        enumerate_session_end: None,
        enumerate_symbols: None,
        relabel: None,
    }
}

/// Buffer-full back-pressure through the real `RemoteLink` (S6): a burst larger than the outgoing buffer makes the
/// router hand out `Unschedule`; the connection task has to answer it with `Ready` whatever else its batch holds.
/// The router pushes the forwards and the marker under two separate lock acquisitions; the guarded pause point
/// between them (`rumqttd::verif::set_pause`) sleeps 2 ms, so the link task regularly collects the buffer in
/// between and the marker arrives in a batch of its own. Verdict (logical, not a timeout): the router is idle
/// (blocked in `recv`, every event handled), the subscriber's socket is drained and its outgoing buffer empty, the
/// connection is still `Busy` with a backlog, and nothing of that changes over three further observations.
fn buffer_full_handshake(ctx: &Ctx, stats: &mut Stats) {
    let rt = Rt::new("c09-s6", 3);
    rumqttd::verif::set_pause(Some(Box::new(|_point| std::thread::sleep(Duration::from_millis(2)))));
    // reads of at most 60 messages: a backlog is handed over in several consecutive pushes (each with its own wake-up
    // token), so the link task is awake by the time the buffer is found full
    let mut cfg = s6::router_config(64);
    cfg.max_outgoing_packet_count = 60;
    let b = Broker::start(&rt, cfg, vec![ListenerCfg::plain(Ver::V4), ListenerCfg::plain(Ver::V5)]);
    let rounds = ctx.size(6, 40);
    for round in 0..rounds {
        let n = 450 + (ctx.seed.wrapping_mul(31).wrapping_add(round * 97) % 500) as usize;
        let sub_ver = if round % 2 == 0 { Ver::V4 } else { Ver::V5 };
        let r: Result<Option<Record>, S6Err> = rt.block_on(async {
            let topic = format!("c09/{}/{round}", ctx.seed);
            let sid = format!("c09s{}x{round}", ctx.seed);
            let mut sub = helper_client(&b, sub_ver, &sid).await?;
            if sub.subscribe(&topic, 0, None).await?.is_none() {
                return Err(S6Err::Harness("subscriber lost its connection".into()));
            }
            let mut p = helper_client(&b, Ver::V4, &format!("c09p{}x{round}", ctx.seed)).await?;
            for i in 0..n {
                p.publish(topic.as_bytes(), format!("m{i}").as_bytes(), 0, false, vec![]).await?;
            }
            p.publish(topic.as_bytes(), b"sentinel", 0, false, vec![]).await?;
            let ready_before = b.barrier().await?.counters.ready;
            let mut stable = 0;
            let mut last_seen = (usize::MAX, u64::MAX);
            let started = std::time::Instant::now();
            loop {
                match tokio::time::timeout(Duration::from_millis(300), sub.next()).await {
                    Ok(Ok(Got::Packet(c))) => {
                        stable = 0;
                        if c.ptype == crate::gen::canon::PUBLISH && c.payload == b"sentinel" {
                            break;
                        }
                    }
                    Ok(Ok(Got::Closed)) | Ok(Ok(Got::Bad(_))) => return Err(S6Err::Harness("subscriber lost its connection".into())),
                    Ok(Err(e)) => return Err(e),
                    Err(_) => {
                        // nothing more on the socket: what does the router think?
                        let snap = b.quiesce().await?;
                        let me = snap.connections.iter().find(|c| c.client_id == sid);
                        let received = sub.pubs.len();
                        // (whatever still lies in the outgoing buffer – e.g. the marker itself, pushed without a wake-up – is
                        // part of the state that has to stay unchanged)
                        let buffered = me.map(|c| c.outgoing_len).unwrap_or(0);
                        let stuck = me.map(|c| c.status == "Busy" && !c.data_requests.is_empty()).unwrap_or(false);
                        if stuck && last_seen == (received, snap.counters.ready + ((buffered as u64) << 32)) {
                            stable += 1;
                        } else {
                            stable = 0;
                        }
                        last_seen = (received, snap.counters.ready + ((buffered as u64) << 32));
                        if stuck && stable >= 3 {
                            return Ok(Some(
                                Record::new(
                                    "C09",
                                    "buffer-full-handshake-lost",
                                    format!(
                                        "{received} of {} messages arrived; the router is idle, the subscriber's socket is drained and nothing changes any more, yet the connection stays Busy with its backlog (Ready events handled since the burst: {})",
                                        n + 1,
                                        snap.counters.ready - ready_before
                                    ),
                                )
                                .fact("substrate", "S6")
                                .fact("subscriber", if sub_ver == Ver::V5 { "v5" } else { "v4" }),
                            ));
                        }
                        if started.elapsed() > Duration::from_secs(60) {
                            return Err(S6Err::Watchdog(format!("burst of {n} not delivered and no stable stuck state either ({received} received)")));
                        }
                    }
                }
            }
            let readies = b.barrier().await?.counters.ready - ready_before;
            sub.close();
            sub.join().await?;
            p.close();
            p.join().await?;
            Ok(if readies > 0 { None } else { Some(Record::new("-", "no-buffer-full", String::new())) })
        });
        stats.evaluations += 1;
        stats.op("s6:burst-into-full-buffer");
        match r {
            Ok(None) => {
                stats.oracle("buffer-full-handshake");
                stats.corner("s6-unschedule-answered-with-ready");
                stats.shapes.insert(crate::common::fnv(format!("c09-s6-{n}-{sub_ver:?}").as_bytes()));
            }
            Ok(Some(rec)) if rec.property == "-" => stats.add_extra("s6_bursts_without_buffer_full", 1),
            Ok(Some(rec)) => {
                stats.oracle("buffer-full-handshake");
                judge(ctx, stats, rec, || json!({"substrate": "S6", "scenario": "buffer-full-handshake", "burst": n, "note": "threaded scenario: re-run the check to re-execute it"}));
                break;
            }
            Err(e) => {
                stats.inconclusive.push(format!("S6 buffer-full scenario: {e}"));
                break;
            }
        }
    }
    rumqttd::verif::set_pause(None);
}

fn run(ctx: &Ctx) -> Stats {
    let mut stats = s4common::run(ctx, &plan());
    buffer_full_handshake(ctx, &mut stats);
    stats
}

fn replay(ctx: &Ctx, doc: &serde_json::Value) -> Stats {
    if doc["substrate"] == "S6" {
        // a threaded scenario cannot be replayed step by step: it is executed again
        let mut stats = Stats::default();
        buffer_full_handshake(ctx, &mut stats);
        stats.shapes.insert(1);
        stats.shapes.insert(2);
        return stats;
    }
    s4common::replay(ctx, &plan(), doc)
}

pub fn prop() -> Prop {
    Prop {
        id: "C09",
        meta: Meta {
            level: "exploration",
            rule: "seeded histories with backlogs of 90-450 messages over 1-3 filters and QoS mixes, ack pacing none / one / bursts / all, acks injected while the connection is paused busy / caught-up / inflight-full, PUBREC/PUBCOMP pacing, unsolicited and out-of-order acks; window, packet-id uniqueness and close-on-bad-ack judged on every forward at the router/link boundary, resumption judged at quiescent points reached with acks as the only stimulus. A case counts as distinct and non-trivial when its sequence of operation kinds is new and it reached at least one named corner state. Plus (S6, real connection task) bursts of 450-950 QoS 0 messages into a full outgoing buffer with a 2 ms delay injected between the router's push of the forwards and of the Unschedule marker: the burst must arrive completely; a profile whose acknowledgement flows span a reconnect; a connection closed right after a batch of solicited acknowledgements is a violation.",
            assumptions: &["router stepped on one thread through verif hooks; link actors use the real LinkTx/LinkRx", "default segment sizes: backlog stays within retention"],
            floors: &[("quiescent-point", 20), ("window", 2000), ("inflight-full", 20), ("resumed-from-inflight-full", 5), ("s6-unschedule-answered-with-ready", 2)],
        },
        run,
        replay: Some(replay),
    }
}
