//! C09: broker outbound window: <=100, unique ids, resumes on ack (S4)
use super::s4common::{self, Plan};
use super::{Meta, Prop};
use crate::common::{Ctx, Stats};
#[allow(unused_imports)]
use crate::sub::s4drive::{base_profile, Stepping, Weights};
#[allow(unused_imports)]
use rumqttd::Strategy;

pub fn plan() -> Plan {
    let mut p = base_profile("c09-window");
    p.burst_pm = 350;
    p.burst = (90, 450);
    p.qos_weights = [1, 4, 3];
    p.w.ack = 16;
    p.w.stall = 5;
    p.clients = (2, 4);
    let mut hostile = p.clone();
    hostile.name = "c09-bad-acks";
    hostile.hostile = true;
    hostile.w.bad = 5;
    let mut single = p.clone();
    single.name = "c09-single";
    single.stepping = Stepping::Single;
    single.ops = (60, 250);
    let profiles = vec![p, hostile, single];
    Plan {
        profiles,
        directed: vec![],
        quick_histories: 300,
        thorough_histories: 160_000,
        s5: None,
        enumerate_session_end: None,
        enumerate_symbols: None,
        relabel: None,
    }
}

fn run(ctx: &Ctx) -> Stats {
    s4common::run(ctx, &plan())
}

fn replay(ctx: &Ctx, doc: &serde_json::Value) -> Stats {
    s4common::replay(ctx, &plan(), doc)
}

pub fn prop() -> Prop {
    Prop {
        id: "C09",
        meta: Meta {
            level: "exploration",
            rule: "seeded histories with backlogs of 90-450 messages over 1-3 filters and QoS mixes, ack pacing none / one / bursts / all, acks injected while the connection is paused busy / caught-up / inflight-full, PUBREC/PUBCOMP pacing, unsolicited and out-of-order acks; window, packet-id uniqueness and close-on-bad-ack judged on every forward at the router/link boundary, resumption judged at quiescent points reached with acks as the only stimulus. A case counts as distinct and non-trivial when its sequence of operation kinds is new and it reached at least one named corner state.",
            assumptions: &["router stepped on one thread through verif hooks; link actors use the real LinkTx/LinkRx", "default segment sizes: backlog stays within retention"],
            floors: &[("quiescent-point", 20), ("window", 2000), ("inflight-full", 20), ("resumed-from-inflight-full", 5)],
        },
        run,
        replay: Some(replay),
    }
}
