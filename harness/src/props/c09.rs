//! C09: not built yet
use super::{Meta, Prop};
use crate::common::{Ctx, Stats};

fn run(_ctx: &Ctx) -> Stats {
    let mut s = Stats::default();
    s.inconclusive.push("check not built yet".into());
    s
}

pub fn prop() -> Prop {
    Prop {
        id: "C09",
        meta: Meta {
            level: "exploration",
            rule: "not built",
            assumptions: &[],
            floors: &[],
        },
        run,
        replay: None,
    }
}
