//! C20: messages cross protocol versions; MQTT 5 properties are dropped towards 3.1.1
//! subscribers and preserved towards MQTT 5 subscribers; every notification the routing core
//! emits can be encoded by the receiving connection's protocol.
//!
//! S6 (deciding, delivery clause): publishers and subscribers on the v4 and the v5 listener of
//! one broker (all four pairs), scripted raw-byte clients decoded with the client crate's
//! codecs plus, in a part of the cases, real `rumqttc` v4 / v5 event loops on both sides.
//! S6 (encode clause, what the router actually emits): per protocol version, client-id take-over of a live connection,
//! router-initiated closes (with and without a DISCONNECT notification) and one session asking for every kind of
//! reply; every connection's broker task must end without a panic, every byte a peer received must decode, a reply
//! that is owed must not be replaced by the end of the connection. The shape classes the peers received are fed to
//! the S1 sweep: a class seen on the wire is judged for both encoders.
//! S1 (encode clause): every notification shape the router builds is converted with the
//! production `Notification -> Packet` conversion and written with `V4.write` / `V5.write`
//! under the panic monitor, then decoded with the client crate's codec.
use super::{Meta, Prop};
use crate::common::{fnv, guarded, judge, panic_site, sharded, Ctx, Judged, Record, Rng, Stats};
use crate::gen::canon::{self, Canon, PVal, Props, Sizes};
use crate::gen::dpkt;
use crate::sub::codecs::{decode_step, CodecUnderTest, Step, C4, C5};
use crate::sub::s6::{self, helper_client, Broker, ListenerCfg, Raw, Rt, RxPub, S6Err, TaskEnd, Ver};
use bytes::BytesMut;
use rumqttd::protocol as dp;
use rumqttd::protocol::Protocol;
use rumqttd::verif::Ack;
use rumqttd::{Forward, Notification};
use serde::{Deserialize, Serialize};
use serde_json::{json, Value};
use std::time::Duration;

// ================================================================ S6: delivery clause

#[derive(Clone, Debug, PartialEq, Eq, Serialize, Deserialize)]
pub struct SubSpec {
    pub v5: bool,
    /// subscribe to `t<n>/#` instead of `t<n>/a`
    pub wildcard: bool,
    pub qos: u8,
    /// MQTT 5: subscription identifier
    pub sub_id: Option<u32>,
    /// MQTT 5: Topic Alias Maximum announced in CONNECT (0 = none)
    pub alias_max: u16,
}

#[derive(Clone, Debug, PartialEq, Eq, Serialize, Deserialize)]
pub struct Msg {
    /// "a" or "b": topic `t<n>/a` / `t<n>/b`
    pub leaf: String,
    pub qos: u8,
    pub retain: bool,
    pub payload_len: usize,
    /// the publisher's properties except the topic alias
    pub props: Props,
    /// publisher-side topic alias: (alias, send the topic name too)
    pub alias: Option<(u16, bool)>,
}

#[derive(Clone, Debug, PartialEq, Eq, Serialize, Deserialize)]
pub struct Case {
    pub n: u64,
    pub pub_v5: bool,
    pub subs: Vec<SubSpec>,
    pub msgs: Vec<Msg>,
    /// later subscribers (retained replay): protocol versions
    pub late: Vec<bool>,
    /// a v5 client with a will carrying these will properties dies before the sentinel
    pub will_props: Option<Props>,
}

impl Case {
    fn topic(&self, leaf: &str) -> String {
        format!("t{}/{}", self.n, leaf)
    }
    fn payload(&self, i: usize) -> Vec<u8> {
        let mut p = format!("m:{}:{}:", self.n, i).into_bytes();
        let want = self.msgs[i].payload_len;
        while p.len() < want {
            p.push(b'a' + (p.len() % 26) as u8);
        }
        p
    }
    fn will_payload(&self) -> Vec<u8> {
        format!("will:{}", self.n).into_bytes()
    }
    fn has_props(&self) -> bool {
        self.msgs.iter().any(|m| !m.props.is_empty() || m.alias.is_some()) || self.will_props.as_ref().is_some_and(|p| !p.is_empty())
    }
    /// inputs that reproduce known findings
    fn trigger_v4_props(&self) -> bool {
        self.pub_v5 && self.has_props() && (self.subs.iter().any(|s| !s.v5) || self.late.iter().any(|v| !*v))
    }
    fn trigger_alias_wildcard(&self) -> bool {
        self.subs.iter().any(|s| s.v5 && s.alias_max > 0 && s.wildcard)
    }
    fn shape(&self) -> u64 {
        let m: Vec<_> = self
            .msgs
            .iter()
            .map(|m| (m.leaf.clone(), m.qos, m.retain, m.payload_len > 120, m.props.iter().map(|p| p.0).collect::<Vec<_>>(), m.alias))
            .collect();
        fnv(format!("{}|{:?}|{m:?}|{:?}|{:?}", self.pub_v5, self.subs, self.late, self.will_props.as_ref().map(|p| p.iter().map(|x| x.0).collect::<Vec<_>>())).as_bytes())
    }
}

/// what a subscriber (or later subscriber) must have received for one message
#[derive(Clone, Debug, Serialize)]
pub struct Expect {
    pub what: String,
    pub topic: Vec<u8>,
    pub payload: Vec<u8>,
    pub props: Props,
}

#[derive(Clone, Debug, Default, Serialize)]
pub struct SubObs {
    pub complete: bool,
    pub lost: Option<TaskEnd>,
    pub received: Vec<RxPub>,
}

#[derive(Clone, Debug, Default, Serialize)]
pub struct Obs {
    pub subs: Vec<SubObs>,
    pub late: Vec<SubObs>,
    pub publisher_ok: bool,
    pub notes: Vec<String>,
    /// shape classes of everything the peers of this case decoded
    pub classes: std::collections::BTreeSet<String>,
}

const COMPARED: &[u8] = &[
    canon::P_PAYLOAD_FORMAT,
    canon::P_MESSAGE_EXPIRY,
    canon::P_CONTENT_TYPE,
    canon::P_RESPONSE_TOPIC,
    canon::P_CORRELATION_DATA,
    canon::P_USER,
];

fn compared(p: &Props) -> Props {
    p.iter().filter(|(i, _)| COMPARED.contains(i)).cloned().collect()
}

/// first difference between the properties a publisher sent and the ones an MQTT 5 subscriber got
fn props_diff(sent: &Props, got: &Props) -> Option<String> {
    let s = compared(sent);
    let g = compared(got);
    if s.len() != g.len() {
        let ids = |p: &Props| p.iter().map(|x| x.0).collect::<Vec<_>>();
        return Some(format!("property identifiers sent {:?}, received {:?}", ids(&s), ids(&g)));
    }
    for (a, b) in s.iter().zip(g.iter()) {
        if a.0 != b.0 {
            return Some(format!("property {} sent, {} received in its place", a.0, b.0));
        }
        if a.0 == canon::P_MESSAGE_EXPIRY {
            // the broker may count the expiry interval down
            match (&a.1, &b.1) {
                (PVal::U32(x), PVal::U32(y)) if y <= x => continue,
                _ => return Some(format!("message expiry sent {:?}, received {:?}", a.1, b.1)),
            }
        }
        if a.1 != b.1 {
            return Some(format!("property {} sent {:?}, received {:?}", a.0, a.1, b.1));
        }
    }
    None
}

async fn open_sub(b: &Broker, case: &Case, s: &SubSpec, name: &str) -> Result<Raw, S6Err> {
    let ver = if s.v5 { Ver::V5 } else { Ver::V4 };
    let mut c = s6::connect(s6::ver_num(ver), name, true, 60);
    if s.v5 && s.alias_max > 0 {
        c.props = vec![(canon::P_TOPIC_ALIAS_MAX, PVal::U16(s.alias_max))];
    }
    let mut r = b.open(b.listener(ver));
    let out = r.connect(&c).await?;
    if !out.accepted() {
        return Err(S6Err::Harness(format!("subscriber {name} not accepted: {}", out.brief())));
    }
    let filter = if s.wildcard { case.topic("#") } else { case.topic("a") };
    if r.subscribe(&filter, s.qos, s.sub_id).await?.is_none() {
        return Err(S6Err::Harness(format!("subscriber {name} got no SUBACK")));
    }
    Ok(r)
}

/// like `open_sub`, but a connection that the broker ends instead of answering the SUBSCRIBE is an observation
async fn open_late(b: &Broker, case: &Case, s: &SubSpec, name: &str) -> Result<Result<Raw, TaskEnd>, S6Err> {
    let ver = if s.v5 { Ver::V5 } else { Ver::V4 };
    let mut r = helper_client(b, ver, name).await?;
    let filter = if s.wildcard { case.topic("#") } else { case.topic("a") };
    if r.subscribe(&filter, s.qos, s.sub_id).await?.is_none() {
        return Ok(Err(r.join().await?));
    }
    Ok(Ok(r))
}

async fn finish_helper(mut r: Raw) -> Result<(), S6Err> {
    if r.is_open() {
        r.disconnect().await?;
    }
    r.close();
    r.join().await?;
    Ok(())
}

async fn collect(r: &mut Raw, sentinel: &[u8], from: usize) -> Result<SubObs, S6Err> {
    let mut so = SubObs::default();
    so.complete = r.until_payload(sentinel).await?;
    if !so.complete {
        so.lost = Some(r.join().await?);
    }
    so.received = r.pubs[from..].iter().filter(|p| !p.payload.starts_with(b"sentinel")).cloned().collect();
    Ok(so)
}

async fn run_case(b: &Broker, case: &Case) -> Result<Obs, S6Err> {
    let mut obs = Obs::default();
    let n = case.n;
    let mut subs = vec![];
    for (i, s) in case.subs.iter().enumerate() {
        subs.push(open_sub(b, case, s, &format!("c20s{n}_{i}")).await?);
    }
    let pver = if case.pub_v5 { Ver::V5 } else { Ver::V4 };
    let mut p = helper_client(b, pver, &format!("c20p{n}")).await?;
    obs.publisher_ok = true;
    for (i, m) in case.msgs.iter().enumerate() {
        let mut props = m.props.clone();
        let mut topic = case.topic(&m.leaf).into_bytes();
        if let (true, Some((alias, with_topic))) = (case.pub_v5, m.alias) {
            props.push((canon::P_TOPIC_ALIAS, PVal::U16(alias)));
            canon::sort_props(&mut props);
            if !with_topic {
                topic.clear();
            }
        }
        if !p.publish(&topic, &case.payload(i), m.qos, m.retain, props).await? {
            obs.publisher_ok = false;
            obs.notes.push(format!("publisher lost its connection at message {i}"));
            break;
        }
    }
    // a will with will properties (the router turns them into publish properties)
    if let Some(wp) = &case.will_props {
        let mut c = s6::connect(5, &format!("c20w{n}"), true, 60);
        c = s6::with_will(c, &case.topic("a"), &case.will_payload(), 1, false, wp.clone());
        let mut w = b.open(b.listener(Ver::V5));
        if !w.connect(&c).await?.accepted() {
            return Err(S6Err::Harness("will client not accepted".into()));
        }
        w.close();
        w.join().await?;
        b.barrier().await?;
    }
    if !obs.publisher_ok {
        // the publisher is gone: use a fresh one for the sentinel
        p = helper_client(b, Ver::V4, &format!("c20q{n}")).await?;
    }
    let s1 = format!("sentinel1:{n}").into_bytes();
    p.publish(case.topic("a").as_bytes(), &s1, 0, false, vec![]).await?;
    for r in subs.iter_mut() {
        obs.subs.push(collect(r, &s1, 0).await?);
    }
    // retained replay towards later subscribers
    for (i, v5) in case.late.iter().enumerate() {
        let spec = SubSpec {
            v5: *v5,
            wildcard: true,
            qos: 1,
            sub_id: None,
            alias_max: 0,
        };
        let mut l = match open_late(b, case, &spec, &format!("c20l{n}_{i}")).await? {
            Ok(l) => l,
            Err(end) => {
                // the broker ended the connection instead of answering the SUBSCRIBE (retained replay rides with the SUBACK)
                obs.late.push(SubObs {
                    complete: false,
                    lost: Some(end),
                    received: vec![],
                });
                continue;
            }
        };
        let s2 = format!("sentinel2:{n}:{i}").into_bytes();
        p.publish(case.topic("a").as_bytes(), &s2, 0, false, vec![]).await?;
        let so = collect(&mut l, &s2, 0).await?;
        obs.late.push(so);
        finish_helper(l).await?;
    }
    // clear retained messages of this case
    for leaf in ["a", "b"] {
        p.publish(case.topic(leaf).as_bytes(), b"", 0, true, vec![]).await?;
    }
    for r in subs {
        classes_of(&r, &mut obs.classes);
        finish_helper(r).await?;
    }
    classes_of(&p, &mut obs.classes);
    finish_helper(p).await?;
    b.barrier().await?;
    Ok(obs)
}

fn expectations(case: &Case) -> (Vec<Expect>, Vec<Expect>) {
    // live: every message in order (+ the will); retained: the last retained message per topic
    let mut live = vec![];
    let mut retained: Vec<Expect> = vec![];
    let mut aliases: std::collections::HashMap<u16, String> = Default::default();
    for (i, m) in case.msgs.iter().enumerate() {
        let mut topic = case.topic(&m.leaf);
        if let (true, Some((alias, with_topic))) = (case.pub_v5, m.alias) {
            if with_topic {
                aliases.insert(alias, topic.clone());
            } else if let Some(t) = aliases.get(&alias) {
                topic = t.clone();
            }
        }
        let e = Expect {
            what: format!("message {i}"),
            topic: topic.clone().into_bytes(),
            payload: case.payload(i),
            props: if case.pub_v5 { m.props.clone() } else { vec![] },
        };
        if m.retain {
            retained.retain(|x| x.topic != e.topic);
            retained.push(e.clone());
        }
        live.push(e);
    }
    if let Some(wp) = &case.will_props {
        live.push(Expect {
            what: "will".into(),
            topic: case.topic("a").into_bytes(),
            payload: case.will_payload(),
            props: wp.iter().filter(|(i, _)| *i != canon::P_WILL_DELAY).cloned().collect(),
        });
    }
    (live, retained)
}

fn base_record(case: &Case, oracle: &str, sub_v5: bool, msg: String) -> Record {
    Record::new("C20", oracle, msg)
        .fact("substrate", "S6")
        .fact("publisher", if case.pub_v5 { "v5" } else { "v4" })
        .fact("subscriber", if sub_v5 { "v5" } else { "v4" })
}

fn lost_record(case: &Case, sub_v5: bool, who: &str, lost: &Option<TaskEnd>) -> Record {
    let r = base_record(case, "observer-lost", sub_v5, format!("{who} lost its connection before the sentinel (task: {lost:?})")).fact("message_props", case.has_props());
    match lost {
        Some(TaskEnd::Panicked { location, message }) => r
            .fact("observer_task", "panicked")
            .fact("panic_site", location.split(':').next().unwrap_or("?"))
            .fact("panic_message", message.chars().take(80).collect::<String>()),
        Some(TaskEnd::Returned) => r.fact("observer_task", "returned"),
        None => r,
    }
}

fn check_stream(case: &Case, who: &str, spec_v5: bool, spec: Option<&SubSpec>, so: &SubObs, expected: &[&Expect], stats: &mut Stats) -> Option<Record> {
    if !so.complete {
        return Some(lost_record(case, spec_v5, who, &so.lost));
    }
    if spec_v5 {
        // a topic alias the subscriber did not allow (above its announced Topic Alias Maximum; none announced = no
        // aliases) is a protocol error for a conforming receiver: the message is not delivered "with the same topic"
        let max = spec.map(|s| s.alias_max).unwrap_or(0);
        for r in &so.received {
            stats.oracle("alias-within-announced-maximum");
            let alias = r.props.iter().find(|(i, _)| *i == canon::P_TOPIC_ALIAS).and_then(|(_, v)| if let PVal::U16(a) = v { Some(*a) } else { None });
            if let Some(a) = alias {
                if a == 0 || a > max {
                    return Some(
                        base_record(case, "alias-beyond-maximum", spec_v5, format!("{who}: a PUBLISH on {} carries topic alias {a}; the subscriber announced Topic Alias Maximum {max}", String::from_utf8_lossy(&r.topic)))
                            .fact("announced_maximum_zero", max == 0),
                    );
                }
            }
        }
    }
    for e in expected {
        stats.oracle("delivered-same-topic-and-payload");
        let same_payload: Vec<&RxPub> = so.received.iter().filter(|r| r.payload == e.payload).collect();
        let Some(got) = same_payload.first() else {
            // maybe it arrived with another payload on this topic? report as missing
            return Some(
                base_record(case, "not-delivered", spec_v5, format!("{who}: {} (topic {}) never arrived; received payloads: {:?}", e.what, String::from_utf8_lossy(&e.topic), so.received.iter().map(|r| String::from_utf8_lossy(&r.payload).chars().take(24).collect::<String>()).collect::<Vec<_>>()))
                    .fact("what", e.what.split(' ').next().unwrap_or("")),
            );
        };
        if got.topic != e.topic {
            let mut r = base_record(
                case,
                "topic-differs",
                spec_v5,
                format!("{who}: {} published on {} arrived on {}", e.what, String::from_utf8_lossy(&e.topic), String::from_utf8_lossy(&got.topic)),
            )
            .fact("via_alias", got.via_alias);
            if let Some(s) = spec {
                r = r.fact("subscriber_alias_max", s.alias_max > 0).fact("wildcard_filter", s.wildcard);
            }
            return Some(r);
        }
        if spec_v5 {
            stats.oracle("properties-preserved");
            if let Some(d) = props_diff(&e.props, &got.props) {
                return Some(base_record(case, "properties-not-preserved", spec_v5, format!("{who}: {}: {d}", e.what)).fact("what", e.what.split(' ').next().unwrap_or("")));
            }
        } else {
            stats.oracle("properties-dropped");
            if !got.props.is_empty() {
                return Some(base_record(case, "properties-towards-v4", spec_v5, format!("{who}: {} arrived with properties {:?}", e.what, got.props)));
            }
        }
    }
    None
}

fn check(case: &Case, obs: &Obs, stats: &mut Stats) -> Option<Record> {
    let (live, retained) = expectations(case);
    for (i, (spec, so)) in case.subs.iter().zip(obs.subs.iter()).enumerate() {
        let exp: Vec<&Expect> = live.iter().filter(|e| spec.wildcard || e.topic == case.topic("a").into_bytes()).collect();
        // messages published after the publisher was dropped are not owed
        let exp: Vec<&Expect> = if obs.publisher_ok { exp } else { vec![] };
        let who = format!("subscriber {i} ({}{}{})", if spec.v5 { "v5" } else { "v4" }, if spec.wildcard { ", wildcard" } else { "" }, if spec.alias_max > 0 { ", topic aliases" } else { "" });
        if let Some(r) = check_stream(case, &who, spec.v5, Some(spec), so, &exp, stats) {
            return Some(r);
        }
    }
    if !obs.publisher_ok {
        return Some(base_record(case, "publisher-dropped", false, format!("the publisher's connection was ended by the broker: {:?}", obs.notes)));
    }
    for (i, (v5, so)) in case.late.iter().zip(obs.late.iter()).enumerate() {
        let exp: Vec<&Expect> = retained.iter().collect();
        let who = format!("later subscriber {i} ({})", if *v5 { "v5" } else { "v4" });
        stats.oracle("retained-replay");
        if let Some(r) = check_stream(case, &who, *v5, None, so, &exp, stats) {
            return Some(r.fact("retained_replay", true));
        }
    }
    None
}

fn gen_props(rng: &mut Rng, mask: u32) -> Props {
    // bit 0..4: payload format, message expiry, content type, response topic, correlation data; bit 5: user properties
    let mut p: Props = vec![];
    if mask & 1 != 0 {
        p.push((canon::P_PAYLOAD_FORMAT, PVal::U8(1)));
    }
    if mask & 2 != 0 {
        p.push((canon::P_MESSAGE_EXPIRY, PVal::U32(*rng.pick(&[3_600u32, 7_200, 86_400, u32::MAX]))));
    }
    if mask & 4 != 0 {
        p.push((canon::P_CONTENT_TYPE, PVal::Str(canon::gen_str(rng, &Sizes::small(), 0))));
    }
    if mask & 8 != 0 {
        p.push((canon::P_RESPONSE_TOPIC, PVal::Str(canon::gen_topic(rng, &Sizes::small()))));
    }
    if mask & 16 != 0 {
        p.push((canon::P_CORRELATION_DATA, PVal::Bin(canon::gen_bin(rng, &Sizes::small()))));
    }
    if mask & 32 != 0 {
        for _ in 0..rng.range(1, 3) {
            p.push((canon::P_USER, PVal::Pair(canon::gen_str(rng, &Sizes::small(), 0), canon::gen_str(rng, &Sizes::small(), 0))));
        }
    }
    canon::sort_props(&mut p);
    p
}

fn gen_case(n: u64, rng: &mut Rng, trigger_v4: bool, trigger_alias: bool, mask_hint: u32) -> Case {
    let pub_v5 = rng.chance(3, 5);
    let k = rng.range(1, 6) as usize;
    let with_props = pub_v5 && rng.chance(3, 4);
    let mut msgs = vec![];
    let mut alias_set: Vec<u16> = vec![];
    // what each alias of the publisher currently stands for (a named use may re-map it, MQTT 5 3.3.2.3.4)
    let mut alias_leaf: std::collections::HashMap<u16, String> = Default::default();
    for i in 0..k {
        let mask = if !with_props {
            0
        } else if i == 0 {
            mask_hint & 63
        } else {
            rng.below(64) as u32
        };
        let alias = if pub_v5 && with_props && rng.chance(1, 3) {
            let a = rng.range(1, 2) as u16;
            // the topic name can only be left out once the alias is established, and then the leaf is the alias' leaf
            let known = alias_set.contains(&a);
            if !known {
                alias_set.push(a);
            }
            Some((a, !known || rng.chance(1, 2)))
        } else {
            None
        };
        let leaf: String = match alias {
            // a named use maps (or re-maps) the alias to whatever topic it names
            Some((a, true)) => {
                let l = rng.pick(&["a", "a", "b"]).to_string();
                alias_leaf.insert(a, l.clone());
                l
            }
            // an alias-only use stands for the topic the alias was mapped to last
            Some((a, false)) => alias_leaf.get(&a).cloned().unwrap_or_else(|| "a".into()),
            None => rng.pick(&["a", "a", "b"]).to_string(),
        };
        msgs.push(Msg {
            leaf,
            qos: rng.below(3) as u8,
            retain: rng.chance(1, 3),
            payload_len: if rng.chance(1, 40) { 20_000 } else { *rng.pick(&[0usize, 0, 0, 100, 127, 128, 300]) },
            props: gen_props(rng, mask),
            alias,
        });
    }
    let props_present = msgs.iter().any(|m| !m.props.is_empty() || m.alias.is_some());
    let will_props = (rng.chance(1, 5)).then(|| {
        let mask = rng.range(1, 63) as u32;
        let mut p = gen_props(rng, mask);
        if rng.chance(1, 4) {
            p.push((canon::P_WILL_DELAY, PVal::U32(0)));
            canon::sort_props(&mut p);
        }
        p
    });
    // towards 3.1.1 subscribers MQTT 5 properties reproduce the known V4::write defect
    let v4_allowed = trigger_v4 || !(pub_v5 && props_present || will_props.is_some());
    let nsubs = rng.range(1, 4);
    let mut subs = vec![];
    for _ in 0..nsubs {
        let v5 = !v4_allowed || rng.chance(1, 2);
        let alias_max = if v5 && rng.chance(1, 3) { *rng.pick(&[1u16, 2, 10]) } else { 0 };
        let _ = trigger_alias; // (the wildcard-filter alias defect is repaired: wildcard filters and aliases mix freely)
        let wildcard = rng.chance(1, 2);
        subs.push(SubSpec {
            v5,
            wildcard,
            qos: rng.below(3) as u8,
            sub_id: (v5 && rng.chance(1, 3)).then(|| *rng.pick(&[1u32, 127, 128, 268_435_455])),
            alias_max,
        });
    }
    if v4_allowed && pub_v5 && !subs.iter().any(|s| !s.v5) {
        subs[0].v5 = false;
        subs[0].sub_id = None;
        subs[0].alias_max = 0;
    }
    let late = if rng.chance(1, 2) {
        vec![!v4_allowed || rng.chance(1, 2), !v4_allowed || rng.chance(1, 2)]
    } else {
        vec![]
    };
    Case {
        n,
        pub_v5,
        subs,
        msgs,
        late,
        will_props,
    }
}

fn replay_doc(case: &Case, obs: &Obs) -> Value {
    let (live, retained) = expectations(case);
    json!({"substrate": "S6", "case": case, "expected_live": live, "expected_retained": retained, "observed": obs})
}

fn new_broker(rt: &Rt) -> Broker {
    Broker::start(rt, s6::router_config(64), vec![ListenerCfg::plain(Ver::V4), ListenerCfg::plain(Ver::V5)])
}

fn account(case: &Case, stats: &mut Stats) {
    stats.evaluations += 1;
    stats.shapes.insert(case.shape());
    stats.opn("messages", case.msgs.len() as u64);
    for s in &case.subs {
        let pair = format!("pair:{}->{}", if case.pub_v5 { "v5" } else { "v4" }, if s.v5 { "v5" } else { "v4" });
        stats.corner(&pair);
        if s.alias_max > 0 {
            stats.corner("subscriber-with-topic-aliases");
        }
        if s.sub_id.is_some() {
            stats.corner("subscription-identifier");
        }
    }
    for m in &case.msgs {
        if !m.props.is_empty() {
            stats.corner("publish-with-properties");
        }
        if m.alias.is_some() {
            stats.corner("publisher-topic-alias");
        }
        if m.retain {
            stats.corner("retained-publish");
        }
        stats.sig(format!("props:{:?}", m.props.iter().map(|p| p.0).collect::<std::collections::BTreeSet<_>>()));
    }
    if !case.late.is_empty() {
        stats.corner("retained-replay-observed");
    }
    if case.will_props.is_some() {
        stats.corner("will-with-properties");
    }
}

fn run_cases(ctx: &Ctx, rt: &Rt, cases: &[Case], stats: &mut Stats) {
    let mut broker = new_broker(rt);
    let mut on_broker = 0;
    for case in cases {
        if on_broker >= 400 {
            broker = new_broker(rt);
            on_broker = 0;
        }
        on_broker += 1;
        match rt.block_on(run_case(&broker, case)) {
            Ok(obs) => {
                account(case, stats);
                for cl in &obs.classes {
                    stats.sig(format!("emitted:{cl}"));
                }
                if let Some(rec) = check(case, &obs, stats) {
                    match judge(ctx, stats, rec, || replay_doc(case, &obs)) {
                        Judged::Known(_) | Judged::Violation => {}
                    }
                    broker = new_broker(rt);
                    on_broker = 0;
                } else if stats.samples.len() < 2 && case.has_props() && case.subs.iter().any(|s| s.v5) {
                    stats.sample(replay_doc(case, &obs));
                }
            }
            Err(S6Err::RouterGone(p)) => {
                let rec = Record::new("C20", "router-panic", format!("router thread ended: {p:?}")).fact("site", p.as_ref().map(panic_site).unwrap_or_default());
                judge(ctx, stats, rec, || json!({"substrate": "S6", "case": case}));
                broker = new_broker(rt);
                on_broker = 0;
            }
            Err(e) => {
                stats.inconclusive.push(format!("S6 case {}: {e}", case.n));
                broker = new_broker(rt);
                on_broker = 0;
            }
        }
        if stats.violations.len() >= 3 || stats.inconclusive.len() >= 5 {
            break;
        }
    }
}

// ================================================================ S6: what the router emits towards a connection

/// Packet kind names shared with the S1 sweep (`Shape.kind`)
fn kind_name(ptype: u8) -> &'static str {
    match ptype {
        canon::CONNACK => "ConnAck",
        canon::PUBLISH => "Publish",
        canon::PUBACK => "PubAck",
        canon::PUBREC => "PubRec",
        canon::PUBREL => "PubRel",
        canon::PUBCOMP => "PubComp",
        canon::SUBACK => "SubAck",
        canon::UNSUBACK => "UnsubAck",
        canon::PINGRESP => "PingResp",
        canon::DISCONNECT => "Disconnect",
        _ => "Other",
    }
}

/// Shape classes ("<protocol>:<kind>:<carries properties>") of everything this peer decoded
fn classes_of(r: &Raw, into: &mut std::collections::BTreeSet<String>) {
    let proto = if r.ver == Ver::V5 { "v5" } else { "v4" };
    for c in r.seen.iter() {
        into.insert(format!("{proto}:{}:{}", kind_name(c.ptype), !c.props.is_empty()));
    }
}

#[derive(Clone, Copy, Debug, PartialEq, Eq, Serialize, Deserialize)]
pub enum EmitKind {
    /// a second connection with the same client id replaces the connection under observation
    TakeOver,
    /// the connection under observation sends something that makes the router close it:
    /// 0-2 unsolicited PUBACK / PUBREC / PUBCOMP, 3 SUBSCRIBE to `$bad/x`, 4 PUBLISH on a non-UTF-8 topic,
    /// 5 PUBREL for an unknown id, and (MQTT 5 only) 6 topic alias 0, 7 topic alias 65535, 8 empty topic with an
    /// unknown alias, 9 PUBLISH carrying a subscription identifier, 10 SUBSCRIBE with subscription identifier 0
    RouterClose(u8),
    /// one session that asks for every kind of reply the router builds
    Acks,
}

#[derive(Clone, Debug, PartialEq, Eq, Serialize, Deserialize)]
pub struct EmitCase {
    pub n: u64,
    pub kind: EmitKind,
    /// protocol of the connection under observation
    pub v5: bool,
    /// take-over: protocol of the replacing connection
    pub other_v5: bool,
    pub will: bool,
    pub persistent: bool,
    /// the connection under observation holds a subscription and an unacknowledged QoS 1 forward when it is ended
    pub busy: bool,
}

#[derive(Clone, Debug, Default, Serialize)]
pub struct EmitObs {
    /// every connection of the case: (role, protocol, how its broker task ended, undecodable bytes, packets it decoded)
    pub connections: Vec<(String, String, String, Option<String>, Vec<String>)>,
    /// a request of the Acks session that got no reply because the connection ended instead
    pub unanswered: Option<String>,
    pub classes: std::collections::BTreeSet<String>,
    pub notes: Vec<String>,
}

async fn observe_end(role: &str, mut r: Raw, obs: &mut EmitObs) -> Result<(), S6Err> {
    r.close();
    let end = r.join().await?;
    classes_of(&r, &mut obs.classes);
    let proto = if r.ver == Ver::V5 { "v5" } else { "v4" };
    let end = match end {
        TaskEnd::Returned => "returned".to_owned(),
        TaskEnd::Panicked { location, message } => format!("panicked|{location}|{message}"),
    };
    obs.connections.push((role.to_owned(), proto.to_owned(), end, r.bad.clone(), r.seen.iter().map(|c| c.summary()).collect()));
    Ok(())
}

async fn run_emit(b: &Broker, c: &EmitCase) -> Result<EmitObs, S6Err> {
    let mut obs = EmitObs::default();
    let n = c.n;
    let ver = if c.v5 { Ver::V5 } else { Ver::V4 };
    let v = s6::ver_num(ver);
    let id = format!("c20e{n}");
    let topic = format!("e{n}/t");
    let mut connect = s6::connect(v, &id, !c.persistent, 60);
    if c.will {
        connect = s6::with_will(connect, &format!("e{n}/will"), b"w", 1, false, vec![]);
    }
    if c.v5 && c.persistent {
        connect.props = vec![(canon::P_SESSION_EXPIRY, PVal::U32(300))];
    }
    let mut t = b.open(b.listener(ver));
    if !t.connect(&connect).await?.accepted() {
        return Err(S6Err::Harness("connection under observation was not accepted".into()));
    }
    let mut helper: Option<Raw> = None;
    if c.busy && c.kind != EmitKind::Acks {
        t.auto_ack = false;
        if t.subscribe(&topic, 1, None).await?.is_none() {
            return Err(S6Err::Harness("no SUBACK".into()));
        }
        let mut p = helper_client(b, Ver::V4, &format!("c20ep{n}")).await?;
        p.publish(topic.as_bytes(), b"unacked", 1, false, vec![]).await?;
        t.until_payload(b"unacked").await?;
        helper = Some(p);
    }
    match c.kind {
        EmitKind::TakeOver => {
            let over = if c.other_v5 { Ver::V5 } else { Ver::V4 };
            let mut t2 = b.open(b.listener(over));
            let out = t2.connect(&s6::connect(s6::ver_num(over), &id, true, 60)).await?;
            if !out.accepted() {
                obs.notes.push(format!("replacing connection: {}", out.brief()));
            }
            // whatever the replaced connection is or is not sent, it must be decodable and its task must end normally
            t.until_closed().await?;
            observe_end("replaced", t, &mut obs).await?;
            b.barrier().await?;
            if out.accepted() {
                t2.ping().await?;
                t2.disconnect().await?;
            }
            observe_end("replacing", t2, &mut obs).await?;
        }
        EmitKind::RouterClose(k) => {
            let mut bad = Canon::empty(v, canon::PUBLISH);
            match k {
                0 | 1 | 2 | 5 => {
                    bad = Canon::empty(v, [canon::PUBACK, canon::PUBREC, canon::PUBCOMP, 0, 0, canon::PUBREL][k as usize]);
                    bad.pkid = 4711;
                }
                3 => {
                    bad = Canon::empty(v, canon::SUBSCRIBE);
                    bad.pkid = 9;
                    bad.filters = vec![("$bad/x".into(), 0)];
                }
                4 => {
                    bad.topic = vec![b'e', 0xff, 0xfe, b'/', b'x'];
                    bad.payload = b"x".to_vec();
                }
                6 | 7 => {
                    bad.topic = topic.clone().into_bytes();
                    bad.payload = b"x".to_vec();
                    bad.props = vec![(canon::P_TOPIC_ALIAS, PVal::U16(if k == 6 { 0 } else { 65535 }))];
                }
                8 => {
                    bad.payload = b"x".to_vec();
                    bad.props = vec![(canon::P_TOPIC_ALIAS, PVal::U16(3))];
                }
                9 => {
                    bad.topic = topic.clone().into_bytes();
                    bad.payload = b"x".to_vec();
                    bad.qos = 1;
                    bad.pkid = 12;
                    bad.props = vec![(canon::P_SUBSCRIPTION_ID, PVal::Var(5))];
                }
                _ => {
                    bad = Canon::empty(v, canon::SUBSCRIBE);
                    bad.pkid = 9;
                    bad.filters = vec![(topic.clone(), 0)];
                    bad.props = vec![(canon::P_SUBSCRIPTION_ID, PVal::Var(0))];
                }
            }
            t.send(&bad).await?;
            // closed by the router (or the packet was tolerated: then the ping is answered)
            let alive = t.ping().await?;
            if alive {
                obs.notes.push("the broker tolerated the packet".into());
                t.disconnect().await?;
            }
            observe_end("closed-by-router", t, &mut obs).await?;
        }
        EmitKind::Acks => {
            t.auto_ack = true;
            let mut step = |what: &str, ok: bool, obs: &mut EmitObs| {
                if !ok && obs.unanswered.is_none() {
                    obs.unanswered = Some(what.to_owned());
                }
                ok
            };
            let mut ok = step("SUBSCRIBE qos 2 -> SUBACK", t.subscribe(&topic, 2, if c.v5 { Some(7) } else { None }).await?.is_some(), &mut obs);
            if ok {
                // two filters in one SUBSCRIBE
                let mut s = Canon::empty(v, canon::SUBSCRIBE);
                s.pkid = t.pkid();
                s.filters = vec![(format!("e{n}/a"), 0), (format!("e{n}/b/#"), 1)];
                let pk = s.pkid;
                t.send(&s).await?;
                ok = step("SUBSCRIBE two filters -> SUBACK", t.until(|x| x.ptype == canon::SUBACK && x.pkid == pk).await?.is_some(), &mut obs);
            }
            // own publishes come back as forwards: QoS 1 and QoS 2 flows in both directions (PUBREL towards us)
            for (q, what) in [(0u8, "PUBLISH qos 0"), (1, "PUBLISH qos 1 -> PUBACK"), (2, "PUBLISH qos 2 -> PUBREC, PUBREL -> PUBCOMP")] {
                if ok {
                    let payload = format!("own:{q}");
                    ok = step(what, t.publish(topic.as_bytes(), payload.as_bytes(), q, false, vec![]).await?, &mut obs);
                    if ok {
                        ok = step("forward of the own publish", t.pubs.iter().any(|p| p.payload == payload.as_bytes()) || t.until_payload(payload.as_bytes()).await?, &mut obs);
                    }
                }
            }
            if ok {
                // the PUBREL that answers our PUBREC for the QoS 2 forward (auto_ack sends PUBREC / PUBCOMP)
                ok = step("PUBREC -> PUBREL", t.seen.iter().any(|x| x.ptype == canon::PUBREL) || t.until(|x| x.ptype == canon::PUBREL).await?.is_some(), &mut obs);
            }
            if ok {
                let mut u = Canon::empty(v, canon::UNSUBSCRIBE);
                u.pkid = t.pkid();
                u.filters = vec![(format!("e{n}/a"), 0)];
                let pk = u.pkid;
                t.send(&u).await?;
                ok = step("UNSUBSCRIBE -> UNSUBACK", t.until(|x| x.ptype == canon::UNSUBACK && x.pkid == pk).await?.is_some(), &mut obs);
            }
            if ok {
                ok = step("PINGREQ -> PINGRESP", t.ping().await?, &mut obs);
            }
            if ok && c.persistent {
                // leave a QoS 2 forward half-way (PUBREC sent, PUBCOMP withheld), drop, resume: CONNACK(session present) and the PUBREL again
                t.auto_ack = false;
                let mut p = helper_client(b, Ver::V4, &format!("c20ep{n}")).await?;
                p.publish(topic.as_bytes(), b"half", 2, false, vec![]).await?;
                helper = Some(p);
                if let Some(f) = t.until(|x| x.ptype == canon::PUBLISH && x.payload == b"half").await? {
                    let mut rec = Canon::empty(v, canon::PUBREC);
                    rec.pkid = f.pkid;
                    t.send(&rec).await?;
                    t.until(|x| x.ptype == canon::PUBREL && x.pkid == f.pkid).await?;
                }
                observe_end("first-session", t, &mut obs).await?;
                b.barrier().await?;
                let mut t2 = b.open(b.listener(ver));
                let out = t2.connect(&connect).await?;
                step("CONNECT (resume) -> CONNACK", out.accepted(), &mut obs);
                if out.accepted() {
                    t2.auto_ack = true;
                    step("PINGREQ -> PINGRESP after resume", t2.ping().await?, &mut obs);
                    t2.disconnect().await?;
                }
                observe_end("resumed-session", t2, &mut obs).await?;
            } else {
                if ok {
                    t.disconnect().await?;
                }
                observe_end("session", t, &mut obs).await?;
            }
            if ok && !c.persistent {
                // empty client id: CONNACK with an assigned client identifier
                let mut a = b.open(b.listener(ver));
                let out = a.connect(&s6::connect(v, "", true, 60)).await?;
                step("CONNECT with empty client id -> CONNACK", out.accepted(), &mut obs);
                if out.accepted() {
                    a.disconnect().await?;
                }
                observe_end("assigned-id", a, &mut obs).await?;
            }
        }
    }
    if let Some(mut p) = helper {
        if p.is_open() {
            p.publish(topic.as_bytes(), b"", 0, true, vec![]).await?;
            p.disconnect().await?;
        }
        observe_end("helper", p, &mut obs).await?;
    }
    b.barrier().await?;
    Ok(obs)
}

fn check_emit(c: &EmitCase, obs: &EmitObs, stats: &mut Stats) -> Option<Record> {
    let kind = match c.kind {
        EmitKind::TakeOver => "take-over".to_owned(),
        EmitKind::RouterClose(k) => format!("router-close-{k}"),
        EmitKind::Acks => "acks".to_owned(),
    };
    for (role, proto, end, bad, seen) in &obs.connections {
        stats.oracle("emitted-encodable");
        if let Some(rest) = end.strip_prefix("panicked|") {
            let mut it = rest.splitn(2, '|');
            let location = it.next().unwrap_or("?");
            let message = it.next().unwrap_or("?");
            return Some(
                Record::new("C20", "encode-panic", format!("{kind}: the broker task of the {role} {proto} connection panicked at {location}: {message} (the peer had decoded: {seen:?})"))
                    .fact("substrate", "S6")
                    .fact("protocol", proto.clone())
                    .fact("context", kind.clone())
                    .fact("site", location.split(':').next().unwrap_or("?")),
            );
        }
        if let Some(b) = bad {
            return Some(
                Record::new("C20", "emitted-undecodable", format!("{kind}: the {role} {proto} connection received bytes its codec rejects: {b}"))
                    .fact("substrate", "S6")
                    .fact("protocol", proto.clone())
                    .fact("context", kind.clone()),
            );
        }
    }
    if let Some(what) = &obs.unanswered {
        // the reply was owed and the connection ended instead: the link died writing it (or before)
        return Some(
            Record::new("C20", "link-ended-instead-of-reply", format!("{kind} ({}): {what}: no reply, the connection ended (connections: {:?})", if c.v5 { "v5" } else { "v4" }, obs.connections.iter().map(|x| (&x.0, &x.2)).collect::<Vec<_>>()))
                .fact("substrate", "S6")
                .fact("protocol", if c.v5 { "v5" } else { "v4" })
                .fact("request", what.split(" ->").next().unwrap_or("").to_owned()),
        );
    }
    None
}

fn emit_cases(counter: &mut u64, rng: &mut Rng, rounds: u64) -> Vec<EmitCase> {
    let mut out = vec![];
    for _ in 0..rounds {
        for v5 in [false, true] {
            let mut push = |kind: EmitKind, other_v5: bool, rng: &mut Rng, counter: &mut u64| {
                *counter += 1;
                out.push(EmitCase {
                    n: *counter,
                    kind,
                    v5,
                    other_v5,
                    will: rng.chance(1, 2),
                    persistent: rng.chance(1, 2),
                    busy: rng.chance(1, 2),
                });
            };
            for other in [false, true] {
                push(EmitKind::TakeOver, other, rng, counter);
            }
            for k in 0..=(if v5 { 10u8 } else { 5 }) {
                push(EmitKind::RouterClose(k), false, rng, counter);
            }
            push(EmitKind::Acks, false, rng, counter);
            push(EmitKind::Acks, false, rng, counter);
        }
    }
    out
}

fn run_emits(ctx: &Ctx, rt: &Rt, cases: &[EmitCase], stats: &mut Stats) {
    let mut broker = new_broker(rt);
    let mut on_broker = 0;
    for c in cases {
        if on_broker >= 400 {
            broker = new_broker(rt);
            on_broker = 0;
        }
        on_broker += 1;
        match rt.block_on(run_emit(&broker, c)) {
            Ok(obs) => {
                stats.evaluations += 1;
                stats.shapes.insert(fnv(format!("emit|{:?}|{}|{}|{}|{}|{}", c.kind, c.v5, c.other_v5, c.will, c.persistent, c.busy).as_bytes()));
                let proto = if c.v5 { "v5" } else { "v4" };
                match c.kind {
                    EmitKind::TakeOver => stats.corner(&format!("take-over-of-{proto}")),
                    EmitKind::RouterClose(_) => stats.corner(&format!("router-close-of-{proto}")),
                    EmitKind::Acks => stats.corner(&format!("all-acks-towards-{proto}")),
                }
                for cl in &obs.classes {
                    stats.sig(format!("emitted:{cl}"));
                }
                if let Some(rec) = check_emit(c, &obs, stats) {
                    judge(ctx, stats, rec, || json!({"substrate": "S6-emit", "case": c, "observed": obs}));
                    broker = new_broker(rt);
                    on_broker = 0;
                }
            }
            Err(S6Err::RouterGone(p)) => {
                let rec = Record::new("C20", "router-panic", format!("router thread ended: {p:?}")).fact("site", p.as_ref().map(panic_site).unwrap_or_default());
                judge(ctx, stats, rec, || json!({"substrate": "S6-emit", "case": c}));
                broker = new_broker(rt);
                on_broker = 0;
            }
            Err(e) => {
                stats.inconclusive.push(format!("S6 emission case {} ({:?}): {e}", c.n, c.kind));
                broker = new_broker(rt);
                on_broker = 0;
            }
        }
        if stats.violations.len() >= 3 || stats.inconclusive.len() >= 5 {
            break;
        }
    }
}

// ---------------------------------------------------------------- real rumqttc event loops on both sides

#[derive(Clone, Debug, Serialize, Deserialize)]
pub struct RealCase {
    pub n: u64,
    pub pub_v5: bool,
    pub sub_v5: bool,
    pub qos: Vec<u8>,
    /// MQTT 5 publisher: content type + user property on every message
    pub props: bool,
}

#[derive(Clone, Debug, Default, Serialize)]
pub struct RealObs {
    /// (topic, payload, content type, user properties)
    pub received: Vec<(String, String, Option<String>, Vec<(String, String)>)>,
    pub error: Option<String>,
    /// a broker connection task of this case panicked: (source file, message)
    pub broker_task_panic: Option<(String, String)>,
}

fn q4(q: u8) -> rumqttc::QoS {
    match q {
        0 => rumqttc::QoS::AtMostOnce,
        1 => rumqttc::QoS::AtLeastOnce,
        _ => rumqttc::QoS::ExactlyOnce,
    }
}
fn q5(q: u8) -> rumqttc::v5::mqttbytes::QoS {
    match q {
        0 => rumqttc::v5::mqttbytes::QoS::AtMostOnce,
        1 => rumqttc::v5::mqttbytes::QoS::AtLeastOnce,
        _ => rumqttc::v5::mqttbytes::QoS::ExactlyOnce,
    }
}

const REAL_WATCHDOG: Duration = Duration::from_secs(30);

async fn run_real(b: &Broker, c: &RealCase) -> Result<RealObs, S6Err> {
    use tokio::time::timeout;
    let mut obs = RealObs::default();
    let addr4 = format!("verif-s6-{}-{}-v4", b.router_id, c.n);
    let addr5 = format!("verif-s6-{}-{}-v5", b.router_id, c.n);
    let tasks4 = b.register_addr(&addr4, b.listener(Ver::V4));
    let tasks5 = b.register_addr(&addr5, b.listener(Ver::V5));
    let topic = format!("r{}/t", c.n);
    let sentinel = format!("sentinel:{}", c.n);
    let (tx, rx) = flume::unbounded::<Result<(String, String, Option<String>, Vec<(String, String)>), String>>();
    let (sub_ready_tx, sub_ready_rx) = flume::bounded::<()>(1);

    // subscriber: drive poll() until the sentinel arrives
    let sub_task: tokio::task::JoinHandle<()> = if c.sub_v5 {
        let mut o = rumqttc::v5::MqttOptions::new(format!("c20rs{}", c.n), addr5.clone(), 1883);
        o.set_keep_alive(Duration::from_secs(60));
        let (client, mut el) = rumqttc::v5::AsyncClient::new(o, 64);
        let topic = topic.clone();
        let sentinel = sentinel.clone();
        tokio::spawn(async move {
            use rumqttc::v5::mqttbytes::v5::Packet;
            use rumqttc::v5::Event;
            if let Err(e) = client.subscribe(topic, q5(2)).await {
                tx.send(Err(format!("subscribe: {e}"))).ok();
                return;
            }
            loop {
                match el.poll().await {
                    Ok(Event::Incoming(Packet::SubAck(_))) => {
                        sub_ready_tx.try_send(()).ok();
                    }
                    Ok(Event::Incoming(Packet::Publish(p))) => {
                        let payload = String::from_utf8_lossy(&p.payload).into_owned();
                        let (ct, up) = match &p.properties {
                            Some(pp) => (pp.content_type.clone(), pp.user_properties.clone()),
                            None => (None, vec![]),
                        };
                        let done = payload == sentinel;
                        tx.send(Ok((String::from_utf8_lossy(&p.topic).into_owned(), payload, ct, up))).ok();
                        if done {
                            // let the acknowledgement of the sentinel go out
                            let _ = tokio::time::timeout(Duration::from_millis(50), el.poll()).await;
                            return;
                        }
                    }
                    Ok(_) => {}
                    Err(e) => {
                        tx.send(Err(format!("subscriber event loop: {e}"))).ok();
                        return;
                    }
                }
            }
        })
    } else {
        let mut o = rumqttc::MqttOptions::new(format!("c20rs{}", c.n), addr4.clone(), 1883);
        o.set_keep_alive(Duration::from_secs(60));
        let (client, mut el) = rumqttc::AsyncClient::new(o, 64);
        let topic = topic.clone();
        let sentinel = sentinel.clone();
        tokio::spawn(async move {
            use rumqttc::{Event, Packet};
            if let Err(e) = client.subscribe(topic, q4(2)).await {
                tx.send(Err(format!("subscribe: {e}"))).ok();
                return;
            }
            loop {
                match el.poll().await {
                    Ok(Event::Incoming(Packet::SubAck(_))) => {
                        sub_ready_tx.try_send(()).ok();
                    }
                    Ok(Event::Incoming(Packet::Publish(p))) => {
                        let payload = String::from_utf8_lossy(&p.payload).into_owned();
                        let done = payload == sentinel;
                        tx.send(Ok((p.topic.clone(), payload, None, vec![]))).ok();
                        if done {
                            let _ = tokio::time::timeout(Duration::from_millis(50), el.poll()).await;
                            return;
                        }
                    }
                    Ok(_) => {}
                    Err(e) => {
                        tx.send(Err(format!("subscriber event loop: {e}"))).ok();
                        return;
                    }
                }
            }
        })
    };
    match timeout(REAL_WATCHDOG, sub_ready_rx.recv_async()).await {
        Ok(Ok(())) => {}
        Ok(Err(_)) => {
            obs.error = Some(rx.try_recv().ok().and_then(|r| r.err()).unwrap_or_else(|| "subscriber ended before SUBACK".into()));
            return Ok(obs);
        }
        Err(_) => return Err(S6Err::Watchdog("real subscriber: no SUBACK".into())),
    }

    // publisher: messages then the sentinel, poll() until every request is acknowledged
    let total = c.qos.len() + 1;
    let pub_task: tokio::task::JoinHandle<Result<(), String>> = if c.pub_v5 {
        let mut o = rumqttc::v5::MqttOptions::new(format!("c20rp{}", c.n), addr5.clone(), 1883);
        o.set_keep_alive(Duration::from_secs(60));
        let (client, mut el) = rumqttc::v5::AsyncClient::new(o, 64);
        let c = c.clone();
        let topic = topic.clone();
        let sentinel = sentinel.clone();
        tokio::spawn(async move {
            use rumqttc::v5::mqttbytes::v5::{Packet, PublishProperties};
            use rumqttc::v5::Event;
            for (i, q) in c.qos.iter().enumerate() {
                let payload = format!("real:{}:{}", c.n, i);
                let r = if c.props {
                    let props = PublishProperties {
                        content_type: Some("application/x-test".into()),
                        user_properties: vec![("k".into(), format!("v{i}"))],
                        ..Default::default()
                    };
                    client.publish_with_properties(topic.clone(), q5(*q), false, payload, props).await
                } else {
                    client.publish(topic.clone(), q5(*q), false, payload).await
                };
                r.map_err(|e| format!("publish: {e}"))?;
            }
            let mut written = 0;
            let mut acked = 0;
            let need_acks = c.qos.iter().filter(|q| **q > 0).count();
            let mut sentinel_sent = false;
            loop {
                if !sentinel_sent && written >= c.qos.len() && acked >= need_acks {
                    // a QoS 2 message enters the log only at PUBREL: the sentinel goes out after every message is acknowledged
                    client.publish(topic.clone(), q5(1), false, sentinel.clone()).await.map_err(|e| format!("publish: {e}"))?;
                    sentinel_sent = true;
                }
                match el.poll().await {
                    Ok(Event::Outgoing(rumqttc::Outgoing::Publish(_))) => written += 1,
                    Ok(Event::Incoming(Packet::PubAck(_))) | Ok(Event::Incoming(Packet::PubComp(_))) => acked += 1,
                    Ok(_) => {}
                    Err(e) => return Err(format!("publisher event loop: {e}")),
                }
                if sentinel_sent && written >= c.qos.len() + 1 && acked >= need_acks + 1 {
                    return Ok(());
                }
            }
        })
    } else {
        let mut o = rumqttc::MqttOptions::new(format!("c20rp{}", c.n), addr4.clone(), 1883);
        o.set_keep_alive(Duration::from_secs(60));
        let (client, mut el) = rumqttc::AsyncClient::new(o, 64);
        let c = c.clone();
        let topic = topic.clone();
        let sentinel = sentinel.clone();
        tokio::spawn(async move {
            use rumqttc::{Event, Packet};
            for (i, q) in c.qos.iter().enumerate() {
                let payload = format!("real:{}:{}", c.n, i);
                client.publish(topic.clone(), q4(*q), false, payload).await.map_err(|e| format!("publish: {e}"))?;
            }
            let mut written = 0;
            let mut acked = 0;
            let need_acks = c.qos.iter().filter(|q| **q > 0).count();
            let mut sentinel_sent = false;
            loop {
                if !sentinel_sent && written >= c.qos.len() && acked >= need_acks {
                    // a QoS 2 message enters the log only at PUBREL: the sentinel goes out after every message is acknowledged
                    client.publish(topic.clone(), q4(1), false, sentinel.clone()).await.map_err(|e| format!("publish: {e}"))?;
                    sentinel_sent = true;
                }
                match el.poll().await {
                    Ok(Event::Outgoing(rumqttc::Outgoing::Publish(_))) => written += 1,
                    Ok(Event::Incoming(Packet::PubAck(_))) | Ok(Event::Incoming(Packet::PubComp(_))) => acked += 1,
                    Ok(_) => {}
                    Err(e) => return Err(format!("publisher event loop: {e}")),
                }
                if sentinel_sent && written >= c.qos.len() + 1 && acked >= need_acks + 1 {
                    return Ok(());
                }
            }
        })
    };
    let _ = total;
    match timeout(REAL_WATCHDOG, pub_task).await {
        Ok(Ok(Ok(()))) => {}
        Ok(Ok(Err(e))) => obs.error = Some(e),
        Ok(Err(e)) => obs.error = Some(format!("publisher task: {e}")),
        Err(_) => return Err(S6Err::Watchdog("real publisher did not finish".into())),
    }
    // everything up to the sentinel (or the subscriber's error)
    loop {
        match timeout(REAL_WATCHDOG, rx.recv_async()).await {
            Ok(Ok(Ok(m))) => {
                let done = m.1 == sentinel;
                if done {
                    break;
                }
                obs.received.push(m);
            }
            Ok(Ok(Err(e))) => {
                obs.error.get_or_insert(e);
                break;
            }
            Ok(Err(_)) => {
                obs.error.get_or_insert("subscriber ended before the sentinel".into());
                break;
            }
            Err(_) => return Err(S6Err::Watchdog("real subscriber: sentinel never arrived".into())),
        }
    }
    sub_task.abort();
    let _ = sub_task.await;
    rumqttc::verif::unregister(&addr4);
    rumqttc::verif::unregister(&addr5);
    // the clients are gone: their connection tasks end; a panic in one of them explains a lost client
    let mut handles: Vec<tokio::task::JoinHandle<()>> = tasks4.lock().unwrap().drain(..).collect();
    handles.extend(tasks5.lock().unwrap().drain(..));
    for h in handles {
        match timeout(REAL_WATCHDOG, h).await {
            Ok(Err(e)) if e.is_panic() => {
                let payload = e.into_panic();
                let message = payload
                    .downcast_ref::<&str>()
                    .map(|s| (*s).to_owned())
                    .or_else(|| payload.downcast_ref::<String>().cloned())
                    .unwrap_or_else(|| "?".into());
                let site = s6::find_panic("s6w-", Some(&message)).map(|r| r.location.split(':').next().unwrap_or("?").to_owned()).unwrap_or_else(|| "?".into());
                obs.broker_task_panic = Some((site, message));
            }
            Ok(_) => {}
            Err(_) => return Err(S6Err::Watchdog("connection task of a real client did not end".into())),
        }
    }
    b.barrier().await?;
    Ok(obs)
}

fn check_real(c: &RealCase, obs: &RealObs, stats: &mut Stats) -> Option<Record> {
    let rec = |oracle: &str, msg: String| {
        Record::new("C20", oracle, msg)
            .fact("substrate", "S6-real-clients")
            .fact("publisher", if c.pub_v5 { "v5" } else { "v4" })
            .fact("subscriber", if c.sub_v5 { "v5" } else { "v4" })
            .fact("message_props", c.pub_v5 && c.props)
    };
    if let Some(e) = &obs.error {
        let r = rec("observer-lost", format!("rumqttc client failed: {e} (broker connection task panic: {:?})", obs.broker_task_panic));
        return Some(match &obs.broker_task_panic {
            Some((site, message)) => r
                .fact("observer_task", "panicked")
                .fact("panic_site", site.clone())
                .fact("panic_message", message.chars().take(80).collect::<String>()),
            None => r.fact("observer_task", "real-client"),
        });
    }
    for (i, _) in c.qos.iter().enumerate() {
        stats.oracle("delivered-same-topic-and-payload");
        let payload = format!("real:{}:{}", c.n, i);
        let Some(m) = obs.received.iter().find(|m| m.1 == payload) else {
            return Some(rec("not-delivered", format!("message {i} never reached the rumqttc subscriber")));
        };
        if m.0 != format!("r{}/t", c.n) {
            return Some(rec("topic-differs", format!("message {i} arrived on topic {}", m.0)));
        }
        if c.sub_v5 && c.pub_v5 && c.props {
            stats.oracle("properties-preserved");
            if m.2.as_deref() != Some("application/x-test") || m.3 != vec![("k".to_owned(), format!("v{i}"))] {
                return Some(rec("properties-not-preserved", format!("message {i}: content type {:?}, user properties {:?}", m.2, m.3)));
            }
        }
    }
    None
}

fn run_reals(ctx: &Ctx, rt: &Rt, cases: &[RealCase], stats: &mut Stats) {
    let mut broker = new_broker(rt);
    for c in cases {
        match rt.block_on(run_real(&broker, c)) {
            Ok(obs) => {
                stats.evaluations += 1;
                stats.shapes.insert(fnv(format!("real|{}|{}|{:?}|{}", c.pub_v5, c.sub_v5, c.qos, c.props).as_bytes()));
                stats.corner(&format!("real-clients:{}->{}", if c.pub_v5 { "v5" } else { "v4" }, if c.sub_v5 { "v5" } else { "v4" }));
                if let Some(rec) = check_real(c, &obs, stats) {
                    judge(ctx, stats, rec, || json!({"substrate": "S6-real-clients", "case": c, "observed": obs}));
                    broker = new_broker(rt);
                }
            }
            Err(e) => {
                stats.inconclusive.push(format!("S6 real-client case {}: {e}", c.n));
                broker = new_broker(rt);
            }
        }
        if stats.violations.len() >= 3 || stats.inconclusive.len() >= 5 {
            break;
        }
    }
}

// ================================================================ S1: encode clause

fn pub_props(mask: u32, rng: &mut Rng) -> dp::PublishProperties {
    // bits: 0 PFI, 1 MEI, 2 topic alias, 3 response topic, 4 correlation data, 5 user, 6 subscription id, 7 content type
    dp::PublishProperties {
        payload_format_indicator: (mask & 1 != 0).then_some(1),
        message_expiry_interval: (mask & 2 != 0).then(|| *rng.pick(&[0u32, 1, 86_400, u32::MAX])),
        topic_alias: (mask & 4 != 0).then(|| *rng.pick(&[1u16, 2, 4096, u16::MAX])),
        response_topic: (mask & 8 != 0).then(|| "resp/t".to_owned()),
        correlation_data: (mask & 16 != 0).then(|| bytes::Bytes::from_static(b"\x00\x01corr")),
        user_properties: if mask & 32 != 0 { vec![("k".into(), "v".into()), ("k".into(), "w".into())] } else { vec![] },
        subscription_identifiers: if mask & 64 != 0 { vec![*rng.pick(&[1usize, 127, 128, 268_435_455])] } else { vec![] },
        content_type: (mask & 128 != 0).then(|| "text/plain".to_owned()),
    }
}

fn props_of_dp(p: &dp::PublishProperties) -> Props {
    let mut b = canon::PropsBuilder::default();
    b.u8(canon::P_PAYLOAD_FORMAT, p.payload_format_indicator)
        .u32(canon::P_MESSAGE_EXPIRY, p.message_expiry_interval)
        .u16(canon::P_TOPIC_ALIAS, p.topic_alias)
        .str(canon::P_RESPONSE_TOPIC, &p.response_topic)
        .bin(canon::P_CORRELATION_DATA, &p.correlation_data)
        .users(&p.user_properties)
        .vars(canon::P_SUBSCRIPTION_ID, &p.subscription_identifiers)
        .str(canon::P_CONTENT_TYPE, &p.content_type);
    b.done()
}

enum Enc {
    Bytes(Vec<u8>),
    Error(String),
    Panic { site: String, message: String },
    /// the notification converts to no packet at all
    Nothing,
}

fn encode(n: Notification, v5: bool) -> Enc {
    let r = guarded(move || {
        let p: Option<dp::Packet> = n.into();
        let Some(p) = p else { return Ok(None) };
        let mut out = BytesMut::new();
        let r = if v5 { dp::v5::V5.write(p, &mut out) } else { dp::v4::V4.write(p, &mut out) };
        r.map(|_| Some(out.to_vec())).map_err(|e| e.to_string())
    });
    match r {
        Ok(Ok(Some(b))) => Enc::Bytes(b),
        Ok(Ok(None)) => Enc::Nothing,
        Ok(Err(e)) => Enc::Error(e),
        Err(p) => Enc::Panic {
            site: panic_site(&p),
            message: p.message,
        },
    }
}

fn client_decode(bytes: &[u8], v5: bool) -> Result<Canon, String> {
    let mut buf = BytesMut::from(bytes);
    let c = if v5 {
        match decode_step::<C5>(&mut buf, 64 * 1024 * 1024).0 {
            Step::Packet(p) => C5::canon(&p),
            s => return Err(format!("client v5 codec: {}", s.class())),
        }
    } else {
        match decode_step::<C4>(&mut buf, 64 * 1024 * 1024).0 {
            Step::Packet(p) => C4::canon(&p),
            s => return Err(format!("client v4 codec: {}", s.class())),
        }
    };
    if !buf.is_empty() {
        return Err(format!("{} bytes left behind the frame", buf.len()));
    }
    Ok(c)
}

/// One notification shape: emittable = the routing core has a code path that builds it
struct Shape {
    name: String,
    kind: &'static str,
    props: bool,
    emittable: bool,
    n: Notification,
    /// expected content of a forward as the subscriber must decode it: (topic, payload, qos, retain, pkid, props)
    forward: Option<(Vec<u8>, Vec<u8>, u8, bool, u16, Props)>,
}

fn all_reasons() -> Vec<dp::DisconnectReasonCode> {
    use dp::DisconnectReasonCode::*;
    vec![
        NormalDisconnection,
        DisconnectWithWillMessage,
        UnspecifiedError,
        MalformedPacket,
        ProtocolError,
        ImplementationSpecificError,
        NotAuthorized,
        ServerBusy,
        ServerShuttingDown,
        KeepAliveTimeout,
        SessionTakenOver,
        TopicFilterInvalid,
        TopicNameInvalid,
        ReceiveMaximumExceeded,
        TopicAliasInvalid,
        PacketTooLarge,
        MessageRateTooHigh,
        QuotaExceeded,
        AdministrativeAction,
        PayloadFormatInvalid,
        RetainNotSupported,
        QoSNotSupported,
        UseAnotherServer,
        ServerMoved,
        SharedSubscriptionNotSupported,
        ConnectionRateExceeded,
        MaximumConnectTime,
        SubscriptionIdentifiersNotSupported,
        WildcardSubscriptionsNotSupported,
    ]
}

fn shapes(v5: bool, rng: &mut Rng) -> Vec<Shape> {
    let mut out = vec![];
    // forwards: every subset of the eight publish properties x QoS x retain; towards a 3.1.1
    // connection the router can only hold what a publisher sent (no alias, no subscription id)
    for mask in 0u32..256 {
        let emittable = v5 || mask & (4 | 64) == 0;
        for qos in 0u8..3 {
            let retain = (mask + qos as u32) % 2 == 1;
            let alias_only_topic = v5 && mask & 4 != 0 && qos == 1;
            let topic: &[u8] = if alias_only_topic { b"" } else { b"t/a" };
            let payload = format!("p{mask}-{qos}").into_bytes();
            let pkid = if qos == 0 { 0 } else { 1 + (mask as u16 % 100) };
            let publish = dpkt::mk_publish(false, qos, pkid, retain, topic, &payload);
            let props = pub_props(mask, rng);
            let canon_props = props_of_dp(&props);
            out.push(Shape {
                name: format!("Forward(mask={mask:#010b}, qos={qos}, retain={retain}, topic={:?})", String::from_utf8_lossy(topic)),
                kind: "Publish",
                props: true,
                emittable,
                n: Notification::Forward(Forward {
                    cursor: Some((0, mask as u64)),
                    size: 0,
                    publish,
                    properties: Some(props),
                }),
                forward: Some((topic.to_vec(), payload, qos, retain, pkid, if v5 { canon_props } else { vec![] })),
            });
        }
    }
    // a forward without properties
    for qos in 0u8..3 {
        let pkid = if qos == 0 { 0 } else { 7 };
        out.push(Shape {
            name: format!("Forward(no properties, qos={qos})"),
            kind: "Publish",
            props: false,
            emittable: true,
            n: Notification::Forward(Forward {
                cursor: None,
                size: 0,
                publish: dpkt::mk_publish(false, qos, pkid, false, b"t/a", b"x"),
                properties: None,
            }),
            forward: Some((b"t/a".to_vec(), b"x".to_vec(), qos, false, pkid, vec![])),
        });
    }
    let ack = |name: &str, kind: &'static str, props: bool, emittable: bool, a: Ack| Shape {
        name: name.to_owned(),
        kind,
        props,
        emittable,
        n: Notification::DeviceAck(a),
        forward: None,
    };
    // acknowledgements the router builds (router/logs.rs AckLog): without properties, CONNACK with
    let connack_props = dp::ConnAckProperties {
        session_expiry_interval: None,
        receive_max: None,
        max_qos: None,
        retain_available: None,
        max_packet_size: None,
        assigned_client_identifier: Some("rumqtt-x".into()),
        topic_alias_max: Some(4096),
        reason_string: None,
        user_properties: vec![],
        wildcard_subscription_available: None,
        subscription_identifiers_available: None,
        shared_subscription_available: None,
        server_keep_alive: None,
        response_information: None,
        server_reference: None,
        authentication_method: None,
        authentication_data: None,
    };
    for sp in [false, true] {
        for code in [dp::ConnectReturnCode::Success, dp::ConnectReturnCode::ClientIdentifierNotValid] {
            let a = dp::ConnAck {
                session_present: sp,
                code,
            };
            out.push(ack(&format!("ConnAck({code:?}, sp={sp}, with properties)"), "ConnAck", true, true, Ack::ConnAck(3, a.clone(), Some(connack_props.clone()))));
            out.push(ack(&format!("ConnAck({code:?}, sp={sp}, no properties)"), "ConnAck", false, true, Ack::ConnAck(3, a, None)));
        }
    }
    for pkid in [1u16, 65535] {
        let puback = dp::PubAck {
            pkid,
            reason: dp::PubAckReason::Success,
        };
        let pubrec = dp::PubRec {
            pkid,
            reason: dp::PubRecReason::Success,
        };
        let pubrel = dp::PubRel {
            pkid,
            reason: dp::PubRelReason::Success,
        };
        let pubcomp = dp::PubComp {
            pkid,
            reason: dp::PubCompReason::Success,
        };
        out.push(ack(&format!("PubAck({pkid})"), "PubAck", false, true, Ack::PubAck(puback.clone())));
        out.push(ack(&format!("PubRec({pkid})"), "PubRec", false, true, Ack::PubRec(pubrec.clone())));
        out.push(ack(&format!("PubRel({pkid})"), "PubRel", false, true, Ack::PubRel(pubrel.clone())));
        out.push(ack(&format!("PubComp({pkid})"), "PubComp", false, true, Ack::PubComp(pubcomp.clone())));
        out.push(ack(&format!("UnsubAck({pkid})"), "UnsubAck", false, true, Ack::UnsubAck(dp::UnsubAck { pkid, reasons: vec![dp::UnsubAckReason::Success] })));
        for codes in [
            vec![dp::SubscribeReasonCode::Success(dp::QoS::AtMostOnce)],
            vec![dp::SubscribeReasonCode::Success(dp::QoS::ExactlyOnce), dp::SubscribeReasonCode::Failure, dp::SubscribeReasonCode::Success(dp::QoS::AtLeastOnce)],
        ] {
            out.push(ack(&format!("SubAck({pkid}, {} codes)", codes.len()), "SubAck", false, true, Ack::SubAck(dp::SubAck { pkid, return_codes: codes })));
        }
        // variants with properties: the Ack type has them, no router code path builds them (reported, not judged)
        let rs = Some("because".to_owned());
        out.push(ack(
            "PubAckWithProperties",
            "PubAck",
            true,
            false,
            Ack::PubAckWithProperties(
                puback,
                dp::PubAckProperties {
                    reason_string: rs.clone(),
                    user_properties: vec![],
                },
            ),
        ));
        out.push(ack(
            "PubRecWithProperties",
            "PubRec",
            true,
            false,
            Ack::PubRecWithProperties(
                pubrec,
                dp::PubRecProperties {
                    reason_string: rs.clone(),
                    user_properties: vec![],
                },
            ),
        ));
        out.push(ack(
            "PubRelWithProperties",
            "PubRel",
            true,
            false,
            Ack::PubRelWithProperties(
                pubrel,
                dp::PubRelProperties {
                    reason_string: rs.clone(),
                    user_properties: vec![],
                },
            ),
        ));
        out.push(ack(
            "PubCompWithProperties",
            "PubComp",
            true,
            false,
            Ack::PubCompWithProperties(
                pubcomp,
                dp::PubCompProperties {
                    reason_string: rs.clone(),
                    user_properties: vec![],
                },
            ),
        ));
        out.push(ack(
            "SubAckWithProperties",
            "SubAck",
            true,
            false,
            Ack::SubAckWithProperties(
                dp::SubAck {
                    pkid,
                    return_codes: vec![dp::SubscribeReasonCode::Success(dp::QoS::AtMostOnce)],
                },
                dp::SubAckProperties {
                    reason_string: rs.clone(),
                    user_properties: vec![],
                },
            ),
        ));
    }
    out.push(ack("PingResp", "PingResp", false, true, Ack::PingResp(dp::PingResp)));
    // router-initiated DISCONNECT: any reason, never with properties (handle_disconnection)
    for reason_code in all_reasons() {
        out.push(Shape {
            name: format!("Disconnect({reason_code:?})"),
            kind: "Disconnect",
            props: false,
            emittable: true,
            n: Notification::Disconnect(dp::Disconnect { reason_code }, None),
            forward: None,
        });
    }
    out.push(Shape {
        name: "Disconnect(ServerBusy, with properties)".into(),
        kind: "Disconnect",
        props: true,
        emittable: false,
        n: Notification::Disconnect(
            dp::Disconnect {
                reason_code: dp::DisconnectReasonCode::ServerBusy,
            },
            Some(dp::DisconnectProperties {
                session_expiry_interval: None,
                reason_string: Some("busy".into()),
                user_properties: vec![],
                server_reference: None,
            }),
        ),
        forward: None,
    });
    out.push(Shape {
        name: "Unschedule".into(),
        kind: "Unschedule",
        props: false,
        emittable: true,
        n: Notification::Unschedule,
        forward: None,
    });
    out
}

/// `observed`: "<kind>:<carries properties>" classes that some S6 peer received. The routing core does not know a
/// connection's protocol version, so a shape it was seen to emit towards one protocol can reach the other one too:
/// such shapes are judged for both encoders even when no code path was known to build them when this was written.
fn encode_clause(ctx: &Ctx, seed: u64, observed: &std::collections::BTreeSet<String>) -> Stats {
    let mut stats = Stats::default();
    let mut swept: std::collections::BTreeSet<String> = Default::default();
    let mut promoted: std::collections::BTreeSet<String> = Default::default();
    let mut rng = Rng::new(seed ^ 0x20e);
    let mut not_emittable: std::collections::BTreeMap<String, u64> = Default::default();
    for v5 in [false, true] {
        let proto = if v5 { "v5" } else { "v4" };
        for sh in shapes(v5, &mut rng) {
            stats.evaluations += 1;
            stats.shapes.insert(fnv(format!("enc|{proto}|{}", sh.name).as_bytes()));
            stats.op(&format!("encode:{proto}:{}", sh.kind));
            let enc = encode(sh.n.clone(), v5);
            let fail: Option<Record> = match &enc {
                Enc::Nothing => None,
                Enc::Panic { site, message } => {
                    stats.panics_caught += 1;
                    Some(
                        Record::new("C20", "encode-panic", format!("{proto} encoder panicked on {} at {site}: {message}", sh.name))
                            .fact("protocol", proto)
                            .fact("packet", sh.kind)
                            .fact("props", sh.props)
                            .fact("site", site.clone()),
                    )
                }
                Enc::Error(e) => Some(
                    Record::new("C20", "encode-error", format!("{proto} encoder refused {}: {e}", sh.name))
                        .fact("protocol", proto)
                        .fact("packet", sh.kind)
                        .fact("props", sh.props),
                ),
                Enc::Bytes(b) => match client_decode(b, v5) {
                    Err(e) => Some(
                        Record::new("C20", "encoded-undecodable", format!("{proto} encoding of {} is not accepted by the client codec: {e}", sh.name))
                            .fact("protocol", proto)
                            .fact("packet", sh.kind)
                            .fact("props", sh.props),
                    ),
                    Ok(c) => match &sh.forward {
                        Some((topic, payload, qos, retain, pkid, props)) => {
                            let mut got_props = c.props.clone();
                            canon::sort_props(&mut got_props);
                            let mut want = props.clone();
                            canon::sort_props(&mut want);
                            if c.ptype != canon::PUBLISH || c.topic != *topic || c.payload != *payload || c.qos != *qos || c.retain != *retain || c.pkid != *pkid {
                                Some(
                                    Record::new("C20", "forward-content", format!("{proto} encoding of {} decodes to {}", sh.name, c.summary()))
                                        .fact("protocol", proto)
                                        .fact("packet", sh.kind),
                                )
                            } else if got_props != want {
                                let oracle = if v5 { "properties-not-preserved" } else { "properties-towards-v4" };
                                Some(
                                    Record::new("C20", oracle, format!("{proto} encoding of {} carries properties {:?}, the notification had {:?}", sh.name, got_props, want))
                                        .fact("substrate", "S1")
                                        .fact("protocol", proto),
                                )
                            } else {
                                None
                            }
                        }
                        None => None,
                    },
                },
            };
            let class = format!("{}:{}", sh.kind, sh.props);
            swept.insert(class.clone());
            // (forwards with a topic alias / subscription identifier exist only towards MQTT 5 connections: per-connection state)
            let seen_emitted = sh.kind != "Publish" && observed.contains(&class);
            if seen_emitted && !sh.emittable {
                promoted.insert(class.clone());
            }
            if sh.emittable || seen_emitted {
                stats.oracle(&format!("encodable-{proto}"));
                if let Some(rec) = fail {
                    match judge(ctx, &mut stats, rec, || json!({"substrate": "S1", "protocol": proto, "notification": sh.name})) {
                        Judged::Known(_) | Judged::Violation => {}
                    }
                }
            } else if let Some(rec) = fail {
                let what = sh.name.split('(').next().unwrap_or("").to_owned();
                *not_emittable.entry(format!("{proto}: {what} ({}) -> {}", if sh.kind == "Publish" { "with topic alias or subscription identifier" } else { "with properties" }, rec.oracle)).or_default() += 1;
            }
        }
    }
    stats.extra.insert("not_emittable_shapes_that_fail".into(), json!(not_emittable));
    stats.extra.insert("emitted_shape_classes_observed".into(), json!(observed));
    stats.extra.insert("shape_classes_judged_because_observed".into(), json!(promoted));
    // a class the peers received that the sweep has no shape for cannot be judged: say so
    for cl in observed {
        if !swept.contains(cl) && !cl.starts_with("Other") {
            stats.inconclusive.push(format!("the router emitted a notification shape the encode sweep does not contain: {cl}"));
        }
    }
    stats.exhaustive_scopes.push("S1: Forward with every subset of the 8 publish properties x QoS 0-2 (retain alternating), every acknowledgement the router builds, DISCONNECT with every reason code, for V4.write and V5.write".into());
    stats
}

// ================================================================ driver

fn s6_part(ctx: &Ctx) -> Stats {
    let shards = if ctx.quick() { ctx.threads.clamp(1, 8) } else { ctx.threads.max(1) };
    let total = ctx.size(4_000, 60_000);
    let reals = ctx.size(160, 1_600);
    let emit_rounds = ctx.size(24, 800);
    let trigger_pct = if ctx.quick() { 15 } else { 3 };
    sharded(ctx, shards, |shard, seed| {
        let mut stats = Stats::default();
        let mut rng = Rng::new(seed ^ 0xc20);
        let rt = Rt::new(&format!("c20-{shard}"), 3);
        let mut counter: u64 = (shard as u64 + 1) * 10_000_000;
        let mine = total / shards as u64 + 1;
        let emits = emit_cases(&mut counter, &mut rng, emit_rounds / shards as u64 + 1);
        run_emits(ctx, &rt, &emits, &mut stats);
        let mut cases = vec![];
        for i in 0..mine {
            counter += 1;
            let trigger_v4 = rng.chance(trigger_pct, 100);
            let trigger_alias = rng.chance(trigger_pct, 100);
            // the first message of consecutive cases walks through all 64 subsets of the compared properties
            let mask_hint = (i as u32).wrapping_add(shard as u32 * 8) % 64;
            cases.push(gen_case(counter, &mut rng, trigger_v4, trigger_alias, mask_hint));
        }
        if stats.violations.is_empty() {
            run_cases(ctx, &rt, &cases, &mut stats);
        }
        if stats.violations.is_empty() {
            let mut rc = vec![];
            for i in 0..(reals / shards as u64 + 1) {
                counter += 1;
                let pair = (i as usize + shard) % 4;
                let pub_v5 = pair & 1 == 1;
                let sub_v5 = pair & 2 == 2;
                let k = rng.range(1, 5);
                // properties towards a 3.1.1 rumqttc subscriber reproduce the known V4::write defect
                let props = pub_v5 && (sub_v5 || rng.chance(trigger_pct, 100));
                rc.push(RealCase {
                    n: counter,
                    pub_v5,
                    sub_v5,
                    qos: (0..k).map(|_| rng.below(3) as u8).collect(),
                    props,
                });
            }
            run_reals(ctx, &rt, &rc, &mut stats);
        }
        stats
    })
}

fn run(ctx: &Ctx) -> Stats {
    // S6 first: the shape classes the peers actually received decide which shapes the S1 sweep judges
    let mut stats = s6_part(ctx);
    let observed: std::collections::BTreeSet<String> = stats
        .signatures
        .iter()
        .filter_map(|s| s.strip_prefix("emitted:"))
        .filter_map(|s| s.split_once(':').map(|(_proto, kind_props)| kind_props.to_owned()))
        .collect();
    let s1 = encode_clause(ctx, ctx.seed, &observed);
    stats.merge(s1);
    stats
}

fn replay(ctx: &Ctx, doc: &Value) -> Stats {
    let mut stats = Stats::default();
    if doc["substrate"] == "S1" {
        let all: std::collections::BTreeSet<String> = ["Disconnect:true", "PubAck:true", "PubRec:true", "PubRel:true", "PubComp:true", "SubAck:true"].iter().map(|s| s.to_string()).collect();
        let s = encode_clause(ctx, ctx.seed, &all);
        println!("replayed the whole encode clause (it is a fixed enumeration); looked for {}", doc["notification"]);
        return s;
    }
    let rt = Rt::new("c20-replay", 3);
    if doc["substrate"] == "S6-emit" {
        match serde_json::from_value::<EmitCase>(doc["case"].clone()) {
            Ok(c) => run_emits(ctx, &rt, &[c], &mut stats),
            Err(e) => stats.inconclusive.push(format!("replay: cannot read case: {e}")),
        }
    } else if doc["substrate"] == "S6-real-clients" {
        match serde_json::from_value::<RealCase>(doc["case"].clone()) {
            Ok(c) => run_reals(ctx, &rt, &[c], &mut stats),
            Err(e) => stats.inconclusive.push(format!("replay: cannot read case: {e}")),
        }
    } else {
        match serde_json::from_value::<Case>(doc["case"].clone()) {
            Ok(c) => run_cases(ctx, &rt, &[c], &mut stats),
            Err(e) => stats.inconclusive.push(format!("replay: cannot read case: {e}")),
        }
    }
    stats.shapes.insert(1);
    stats.shapes.insert(2);
    stats
}

pub fn prop() -> Prop {
    Prop {
        id: "C20",
        meta: Meta {
            level: "exploration",
            rule: "S6: seeded cases of one publisher (v4/v5) sending 1-6 messages (QoS 0-2, retained or not, payloads 0-20000 bytes, every subset of payload format / message expiry / content type / response topic / correlation data / user properties walked through by the first message of consecutive cases, publisher-side topic aliases) to 1-4 subscribers (v4/v5, exact or wildcard filter, QoS 0-2, subscription identifiers, Topic Alias Maximum), later subscribers for retained replays, a will with will properties; plus real rumqttc v4/v5 event loops on both sides for the four version pairs. Distinct = (publisher version, subscriber specs, per message (topic, QoS, retain, size class, property identifiers, alias use), later subscribers, will property identifiers). S6 emission cases: (kind: take-over / router close 0-10 / all acks, protocol of the observed connection, protocol of the replacing connection, will, persistent, busy). S1: one case per notification shape and protocol (fixed enumeration); shapes of a (kind, with/without properties) class that an S6 peer received are judged even when they were listed as not emittable.",
            assumptions: &[
                "S6 connections are in-memory duplex pipes entered through Server::verif_accept; everything behind them is production code",
                "topic alias and subscription identifier are the broker's to rewrite and are not compared; the message expiry interval may be smaller than sent",
                "notification shapes no router code path builds (acks with properties, DISCONNECT with properties) are executed and listed under coverage.not_emittable_shapes_that_fail; they are judged as soon as an S6 peer receives a packet of that class (coverage.shape_classes_judged_because_observed); the routing core does not know a connection's protocol version, so a class seen towards one version is judged for both encoders",
                "an encode error (as opposed to a panic) inside a connection task is only visible from outside where a reply is owed: there it is reported as link-ended-instead-of-reply",
                "MQTT 5 properties towards 3.1.1 subscribers are generated in ~15 % of the cases only (known finding KF-C20-V4PROPS)",
            ],
            floors: &[
                ("pair:v4->v4", 20),
                ("pair:v4->v5", 20),
                ("pair:v5->v4", 20),
                ("pair:v5->v5", 50),
                ("properties-preserved", 100),
                ("properties-dropped", 50),
                ("retained-replay", 30),
                ("will-with-properties", 10),
                ("encodable-v4", 200),
                ("encodable-v5", 800),
                ("real-clients:v4->v5", 2),
                ("real-clients:v5->v4", 2),
                ("take-over-of-v4", 8),
                ("take-over-of-v5", 8),
                ("router-close-of-v4", 20),
                ("router-close-of-v5", 40),
                ("all-acks-towards-v4", 8),
                ("all-acks-towards-v5", 8),
            ],
        },
        run,
        replay: Some(replay),
    }
}
