//! C14: client isolation; stale signals never hit a later connection (S4)
use super::s4common::{self, Plan};
use super::{Meta, Prop};
use crate::common::{Ctx, Stats};
#[allow(unused_imports)]
use crate::sub::s4drive::{base_profile, Stepping, Weights};
#[allow(unused_imports)]
use rumqttd::Strategy;

pub fn plan() -> Plan {
    let mut p = base_profile("c14-isolation");
    p.guarded_pair = true;
    p.hostile = true;
    p.stale_events = true;
    p.clients = (3, 6);
    p.w.bad = 10;
    p.w.stale = 10;
    p.w.takeover = 4;
    p.w.link_drop = 6;
    p.w.disconnect_pkt = 3;
    p.w.connect = 12;
    p.w.stall = 5;
    p.max_connections = 6;
    // a client holding a plain and a shared subscription on one filter is parked twice in one log
    p.shared_pm = 200;
    p.twin_pm = 250;
    p.ops = (30, 140);
    p.burst_pm = 40;
    let mut single = p.clone();
    single.name = "c14-single";
    single.stepping = Stepping::Single;
    let profiles = vec![p, single];
    Plan {
        profiles,
        directed: vec![("never-collecting-client", |h| h.never_collecting_client(260))],
        quick_histories: 2000,
        thorough_histories: 320_000,
        s5: Some((2, 30, s4common::s5_default(true, 0))),
        enumerate_session_end: None,
        enumerate_symbols: None,
        relabel: None,
    }
}

fn run(ctx: &Ctx) -> Stats {
    s4common::run(ctx, &plan())
}

fn replay(ctx: &Ctx, doc: &serde_json::Value) -> Stats {
    s4common::replay(ctx, &plan(), doc)
}

pub fn prop() -> Prop {
    Prop {
        id: "C14",
        meta: Meta {
            level: "exploration",
            rule: "an always-present well-behaved publisher/subscriber pair (P, S) works throughout while 1-4 other clients misbehave (protocol violations, bad acks, abrupt drops, reconnect storms, stalls, slot churn); after router-side closes the harness, still holding the dead link, emits the late events remote() can emit (DeviceData, Ready, Disconnect, PublishWill) at random positions relative to connects that reuse the slot; all delivery/ack oracles on P and S plus a closed-without-cause oracle on every connection. A case counts as distinct and non-trivial when its sequence of operation kinds is new and it reached at least one named corner state.",
            assumptions: &["router stepped on one thread through verif hooks; link actors use the real LinkTx/LinkRx", "default segment sizes: backlog stays within retention"],
            floors: &[("quiescent-point", 20), ("stale-event-delivered", 10), ("slot-recycled", 5)],
        },
        run,
        replay: Some(replay),
    }
}
