//! C10: the client answers inbound QoS flows correctly, surfaces every received packet exactly
//! once and in order, treats acknowledgements it never solicited as errors (no panic, no
//! bookkeeping change), and announces exactly the packets it writes.
//!
//! State-machine half (substrate S2): after every `handle_incoming_packet` /
//! `handle_outgoing_packet` call the events the call appended to `state.events` are compared
//! with the packet fed and the packet returned; replies are compared with what the flow rules
//! demand in auto-ack / manual-ack mode; for unsolicited acknowledgements a projection of all
//! bookkeeping readable from outside is compared before / after. "Written" in S2 means: returned
//! by the call and flushed as `EventLoop::select` + `Network::readb` would flush it (request
//! branch: at once; read batch: after the whole batch was handled).
//!
//! The event-loop half (wire-in vs `Incoming`, wire-out vs `Outgoing` on transports that never
//! failed, 0-12 packets per read) plugs in through `s3_half()`.
use super::{Meta, Prop};
use crate::common::{panic_site, Ctx, Record, Stats};
use crate::gen::cwork::{self, Proj, Step, View};
use crate::model::mclient::InClass;
use crate::sub::s2::{BatchEnd, Ev, OutKind, Outcome, Pk, Via};
use serde_json::Value;

pub const ID: &str = "C10";

fn out_kind_of(p: &Pk) -> Option<(OutKind, u16)> {
    Some(match p {
        Pk::Publish { pkid, .. } => (OutKind::Publish, *pkid),
        Pk::PubAck { pkid, .. } => (OutKind::PubAck, *pkid),
        Pk::PubRec { pkid, .. } => (OutKind::PubRec, *pkid),
        Pk::PubRel { pkid, .. } => (OutKind::PubRel, *pkid),
        Pk::PubComp { pkid, .. } => (OutKind::PubComp, *pkid),
        Pk::Subscribe { pkid, .. } => (OutKind::Subscribe, *pkid),
        Pk::Unsubscribe { pkid, .. } => (OutKind::Unsubscribe, *pkid),
        Pk::PingReq => (OutKind::PingReq, 0),
        Pk::PingResp => (OutKind::PingResp, 0),
        Pk::Disconnect { .. } => (OutKind::Disconnect, 0),
        _ => return None,
    })
}

/// fields of the bookkeeping that differ (retransmission set compared as a set: the order in
/// which `clean()` lists it is not bookkeeping any statement constrains)
fn proj_diff(a: &Proj, b: &Proj) -> Vec<&'static str> {
    let mut d = vec![];
    let sorted = |p: &Proj| {
        let mut pubs: Vec<String> = p.held.pubs.iter().map(|x| x.show()).collect();
        pubs.sort();
        let mut rels = p.held.rels.clone();
        rels.sort();
        (pubs, rels)
    };
    let (ap, ar) = sorted(a);
    let (bp, br) = sorted(b);
    if ap != bp {
        d.push("unacked-publishes");
    }
    if ar != br {
        d.push("pending-releases");
    }
    if a.inflight != b.inflight {
        d.push("inflight");
    }
    if a.collision != b.collision {
        d.push("collision");
    }
    if a.await_pingresp != b.await_pingresp {
        d.push("await_pingresp");
    }
    if a.ping_count != b.ping_count {
        d.push("collision_ping_count");
    }
    d
}

pub fn oracles(v: &View, stats: &mut Stats) -> Vec<Record> {
    let mut out = vec![];
    match &v.step {
        Step::Call {
            call,
            cls,
            user_rec_before,
            ..
        } => {
            let inbound = matches!(call.via, Via::Read | Via::ConnAck);
            // (1) no panic / overflow trap on any broker packet
            if inbound {
                stats.oracle("C10/no-panic-on-broker-packet");
                if let Outcome::Panic(p) = &call.outcome {
                    out.push(
                        v.tag(Record::new(
                            ID,
                            "panic",
                            format!("handle_incoming_packet({}) panicked at {}: {}", call.input.show(), p.location, p.message),
                        ))
                        .fact("site", panic_site(p)),
                    );
                    return out;
                }
            } else if matches!(call.outcome, Outcome::Panic(_)) {
                return out; // request-side panic: C07's
            }

            // (2) the received packet is surfaced exactly once, first, unchanged
            if inbound {
                stats.oracle("C10/incoming-surfaced-once");
                let ins: Vec<&Pk> = call
                    .events
                    .iter()
                    .filter_map(|e| match e {
                        Ev::In(p) => Some(p),
                        _ => None,
                    })
                    .collect();
                let first_is_in = matches!(call.events.first(), Some(Ev::In(_)));
                let same = match (&call.input, ins.first()) {
                    (Pk::Other(_), Some(_)) => true,
                    (a, Some(b)) => a == *b,
                    _ => false,
                };
                if ins.len() != 1 || !first_is_in || !same {
                    out.push(
                        v.tag(Record::new(
                            ID,
                            "incoming-not-surfaced-once",
                            format!("fed {} but the call queued {:?}", call.input.show(), call.events.iter().map(|e| e.show()).collect::<Vec<_>>()),
                        ))
                        .fact("surfaced", ins.len()),
                    );
                }
            } else {
                stats.oracle("C10/no-incoming-event-without-packet");
                if call.events.iter().any(|e| matches!(e, Ev::In(_))) {
                    out.push(v.tag(Record::new(
                        ID,
                        "incoming-event-without-packet",
                        format!("no packet was read, yet an Incoming event was queued: {}", call.show()),
                    )));
                }
            }

            // (3) Outgoing(x) is announced iff the call returned the corresponding packet
            stats.oracle("C10/outgoing-event-iff-packet-returned");
            let announced: Vec<(OutKind, u16)> = call
                .events
                .iter()
                .filter_map(|e| match e {
                    Ev::Out(k, id) if *k != OutKind::AwaitAck => Some((*k, *id)),
                    _ => None,
                })
                .collect();
            let returned: Option<(OutKind, u16)> = call.outcome.packet().and_then(out_kind_of);
            let expected: Vec<(OutKind, u16)> = returned.into_iter().collect();
            if announced != expected {
                let extra: Vec<&'static str> = announced.iter().filter(|a| !expected.contains(a)).map(|a| a.0.name()).collect();
                let missing = expected.iter().any(|e| !announced.contains(e));
                out.push(
                    v.tag(Record::new(
                        ID,
                        "outgoing-event-mismatch",
                        format!(
                            "call returned {} but announced {:?}: {}",
                            call.outcome.show(),
                            announced.iter().map(|(k, id)| format!("{}({id})", k.name())).collect::<Vec<_>>(),
                            call.show()
                        ),
                    ))
                    .fact("extra_announced", extra.join(","))
                    .fact("announcement_missing", missing)
                    .fact("input_alias", matches!(&call.input, Pk::Publish { alias: Some(_), .. })),
                );
            }
            // AwaitAck(id) is announced iff the publish was parked on that id
            let await_ids: Vec<u16> = call
                .events
                .iter()
                .filter_map(|e| match e {
                    Ev::Out(OutKind::AwaitAck, id) => Some(*id),
                    _ => None,
                })
                .collect();
            if !await_ids.is_empty() {
                stats.oracle("C10/awaitack-iff-parked");
                let parked_now = matches!((&v.collision, &call.input), (Some(Pk::Publish { payload: a, pkid, .. }), Pk::Publish { payload: b, .. }) if a == b && await_ids == vec![*pkid]);
                if !parked_now || call.outcome.packet().is_some() {
                    out.push(v.tag(Record::new(
                        ID,
                        "awaitack-without-collision",
                        format!("AwaitAck{await_ids:?} announced but collision = {:?}: {}", v.collision.as_ref().map(|p| p.show()), call.show()),
                    )));
                }
            }

            // (4) replies demanded by the inbound flows
            if call.via == Via::Read && call.outcome.is_ok() {
                let got = call.outcome.packet();
                let mut expected: Option<Option<Pk>> = None; // Some(x) = verdict, x = demanded reply
                match &call.input {
                    Pk::Publish { qos, pkid, .. } => {
                        expected = Some(if v.manual {
                            None
                        } else {
                            match qos {
                                0 => None,
                                1 => Some(Pk::PubAck { pkid: *pkid, reason: 0 }),
                                _ => Some(Pk::PubRec { pkid: *pkid, reason: 0 }),
                            }
                        });
                    }
                    Pk::PubRel { pkid, .. } if matches!(cls, InClass::RelKnown) => {
                        // manual mode: completing a flow the user acknowledged is not "on its
                        // own"; a release arriving before the user's PUBREC pits two clauses of
                        // the statement against each other and is not judged
                        if !v.manual || *user_rec_before {
                            expected = Some(Some(Pk::PubComp { pkid: *pkid, reason: 0 }));
                        } else {
                            stats.add_extra("manual_release_before_user_pubrec_not_judged", 1);
                        }
                    }
                    _ => {}
                }
                if let Some(exp) = expected {
                    stats.oracle("C10/inbound-flow-reply");
                    let ok = match (&exp, got) {
                        (None, None) => true,
                        (Some(e), Some(g)) => e.kind() == g.kind() && e.pkid() == g.pkid(),
                        _ => false,
                    };
                    if !ok {
                        out.push(
                            v.tag(Record::new(
                                ID,
                                "inbound-reply-wrong",
                                format!(
                                    "{} (manual_acks={}) must be answered with {} but the call returned {}",
                                    call.input.show(),
                                    v.manual,
                                    exp.as_ref().map(|p| p.show()).unwrap_or("nothing".into()),
                                    call.outcome.show()
                                ),
                            ))
                            .fact("manual", v.manual)
                            .fact("expected", exp.as_ref().map(|p| p.kind()).unwrap_or("none"))
                            .fact("got", got.map(|p| p.kind()).unwrap_or("none")),
                        );
                    }
                }
            }

            // (5) acknowledgements nobody solicited: an error, and nothing else changes
            if call.via == Via::Read {
                let unsolicited = matches!(cls, InClass::AckUnsolicited);
                let repeated = matches!(cls, InClass::AckRepeatedRec);
                if unsolicited {
                    stats.oracle("C10/unsolicited-ack-is-error");
                    if call.outcome.is_ok() {
                        out.push(
                            v.tag(Record::new(
                                ID,
                                "unsolicited-ack-accepted",
                                format!("{} answers nothing that is outstanding on this connection, yet: {}", call.input.show(), call.show()),
                            ))
                            .fact("packet", call.input.kind()),
                        );
                    }
                }
                if repeated {
                    // a second PUBREC for a released id: an error, or the release again
                    stats.oracle("C10/repeated-pubrec-harmless");
                    let ok = match &call.outcome {
                        Outcome::Err(_) => true,
                        Outcome::Ok(Some(Pk::PubRel { pkid, .. })) => *pkid == call.input.pkid(),
                        _ => false,
                    };
                    if !ok {
                        out.push(v.tag(Record::new(
                            ID,
                            "repeated-pubrec-mishandled",
                            format!("{}", call.show()),
                        )));
                    }
                }
                let reported_unsolicited = matches!(call.outcome, Outcome::Err(crate::sub::s2::SErr::Unsolicited(_)));
                if unsolicited || repeated || reported_unsolicited {
                    if let (Some(b), Some(a)) = (v.before, v.after) {
                        stats.oracle("C10/unsolicited-leaves-bookkeeping-unchanged");
                        let d = proj_diff(b, a);
                        if !d.is_empty() {
                            out.push(
                                v.tag(Record::new(
                                    ID,
                                    "unsolicited-ack-changed-state",
                                    format!(
                                        "{} was not solicited, yet it changed {:?}: before {:?} / after {:?}",
                                        call.input.show(),
                                        d,
                                        b,
                                        a
                                    ),
                                ))
                                .fact("packet", call.input.kind())
                                .fact("changed", d.join(",")),
                            );
                        }
                        // observation, not a verdict: clean() order rotated
                        if b.held != a.held && d.is_empty() {
                            stats.add_extra("unsolicited_ack_rotated_clean_order_not_judged", 1);
                        }
                    }
                }
            }
        }
        // (6) what was announced in a read batch must have been written: when the client itself
        // raises an error later in the batch, the buffered replies die with the network while
        // their Outgoing events stay queued for the user
        Step::BatchEnd(end) => {
            stats.oracle("C10/announced-replies-are-written");
            if let BatchEnd::Dropped(buf) = end {
                if let Some(first) = buf.first() {
                    out.push(
                        v.tag(Record::new(
                            ID,
                            "announced-not-written",
                            format!(
                                "{} repl{} ({}) were announced as Outgoing events but never flushed: a later packet of the same read batch made the client drop the connection (transport never failed)",
                                buf.len(),
                                if buf.len() == 1 { "y" } else { "ies" },
                                buf.iter().map(|p| p.show()).collect::<Vec<_>>().join(", ")
                            ),
                        ))
                        .fact("announced", first.kind())
                        .fact("cause", "client-error-later-in-read-batch"),
                    );
                }
            }
        }
        // (7) the queue handed to the user is exactly what the calls appended, in order
        Step::QueueDrained { queue, reported } => {
            stats.oracle("C10/event-queue-is-fifo-of-calls");
            if queue != reported {
                out.push(v.tag(Record::new(
                    ID,
                    "event-queue-differs",
                    format!(
                        "events queued for the user {:?} differ from what the calls appended {:?}",
                        queue.iter().map(|e| e.show()).collect::<Vec<_>>(),
                        reported.iter().map(|e| e.show()).collect::<Vec<_>>()
                    ),
                )));
            }
        }
        _ => {}
    }
    out
}

/// Event-loop half: absent until `src/sub/s3.rs` exists.
pub fn s3_half(_ctx: &Ctx, _stats: &mut Stats) {}

fn run(ctx: &Ctx) -> Stats {
    let mut stats = cwork::run_family(ctx, ID, cwork::PROFILE_C10, 15_000, 3_000_000);
    s3_half(ctx, &mut stats);
    stats
}

fn replay(ctx: &Ctx, doc: &Value) -> Stats {
    cwork::replay_family(ctx, ID, doc)
}

pub fn prop() -> Prop {
    Prop {
        id: ID,
        meta: Meta {
            level: "exploration",
            rule: "S2 half only (state machine; the event-loop half on real wire bytes is not built yet). A case is one \
                   history of 20-160 ops against the real v4 or v5 MqttState: read batches of 0-12 broker packets of every \
                   type (publishes QoS 0-2 with ids valid / repeated / above the limit / 65535, releases known and unknown, \
                   acknowledgements solicited / repeated / unsolicited / wrong kind / id 0, SUBACK, UNSUBACK, PINGRESP, \
                   server DISCONNECT, mid-session CONNACK, client-only packets; v5 reason codes and topic aliases), \
                   interleaved with user requests and manual acknowledgements; manual_acks on in 40% of the histories. \
                   Distinct = hash of (version, limit, manual, op-kind sequence incl. packet kinds per batch), counted \
                   only if a named corner state was reached.",
            assumptions: &[
                "only packets the decoders can produce are fed (QoS>0 publishes have a non-zero id)",
                "manual mode: PUBCOMP for a release whose publish the user acknowledged is demanded; a release arriving before the user's PUBREC is not judged (two clauses of the statement conflict)",
                "a PUBREL for an id the client does not know and a repeated PUBREC may be answered with an error or the protocol reply; either way bookkeeping must not change",
                "the order in which clean() lists unacknowledged publishes is not bookkeeping (3.1.1: an unsolicited PUBACK moves last_puback and rotates it; reported in the evidence, not judged)",
                "S2: a reply of a read batch counts as written when the whole batch was handled (Network::readb feeds, EventLoop::select flushes afterwards)",
            ],
            floors: &[
                ("unsolicited-ack", 6000),
                ("repeated-pubrec", 2),
                ("manual-mode-publish-in", 10000),
                ("pubrel-known-id", 7000),
                ("read-batch-over-limit", 800),
                ("v5-topic-alias-in", 3000),
                ("v5-failure-reason-code", 500),
                ("C10/inbound-flow-reply", 50000),
                ("C10/incoming-surfaced-once", 100000),
                ("C10/unsolicited-leaves-bookkeeping-unchanged", 18000),
            ],
        },
        run,
        replay: Some(replay),
    }
}
