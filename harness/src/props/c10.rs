//! C10: the client answers inbound QoS flows correctly, surfaces every received packet exactly
//! once and in order, treats acknowledgements it never solicited as errors (no panic, no
//! bookkeeping change), and announces exactly the packets it writes.
//!
//! State-machine half (substrate S2): after every `handle_incoming_packet` /
//! `handle_outgoing_packet` call the events the call appended to `state.events` are compared
//! with the packet fed and the packet returned; replies are compared with what the flow rules
//! demand in auto-ack / manual-ack mode; for unsolicited acknowledgements a projection of all
//! bookkeeping readable from outside is compared before / after. "Written" in S2 means: returned
//! by the call and flushed as `EventLoop::select` + `Network::readb` would flush it (request
//! branch: at once; read batch: after the whole batch was handled).
//!
//! The event-loop half (wire-in vs `Incoming`, wire-out vs `Outgoing` on transports that never
//! failed, 0-12 packets per read) plugs in through `s3_half()`.
use super::{Meta, Prop};
use crate::common::{panic_site, Ctx, Record, Stats};
use crate::gen::cwork::{self, Proj, Step, View};
use crate::model::mclient::InClass;
use crate::sub::s2::{BatchEnd, Ev, OutKind, Outcome, Pk, Via};
use serde_json::Value;

pub const ID: &str = "C10";

fn out_kind_of(p: &Pk) -> Option<(OutKind, u16)> {
    Some(match p {
        Pk::Publish { pkid, .. } => (OutKind::Publish, *pkid),
        Pk::PubAck { pkid, .. } => (OutKind::PubAck, *pkid),
        Pk::PubRec { pkid, .. } => (OutKind::PubRec, *pkid),
        Pk::PubRel { pkid, .. } => (OutKind::PubRel, *pkid),
        Pk::PubComp { pkid, .. } => (OutKind::PubComp, *pkid),
        Pk::Subscribe { pkid, .. } => (OutKind::Subscribe, *pkid),
        Pk::Unsubscribe { pkid, .. } => (OutKind::Unsubscribe, *pkid),
        Pk::PingReq => (OutKind::PingReq, 0),
        Pk::PingResp => (OutKind::PingResp, 0),
        Pk::Disconnect { .. } => (OutKind::Disconnect, 0),
        _ => return None,
    })
}

/// fields of the bookkeeping that differ (retransmission set compared as a set: the order in
/// which `clean()` lists it is not bookkeeping any statement constrains)
fn proj_diff(a: &Proj, b: &Proj) -> Vec<&'static str> {
    let mut d = vec![];
    let sorted = |p: &Proj| {
        let mut pubs: Vec<String> = p.held.pubs.iter().map(|x| x.show()).collect();
        pubs.sort();
        let mut rels = p.held.rels.clone();
        rels.sort();
        (pubs, rels)
    };
    let (ap, ar) = sorted(a);
    let (bp, br) = sorted(b);
    if ap != bp {
        d.push("unacked-publishes");
    }
    if ar != br {
        d.push("pending-releases");
    }
    if a.inflight != b.inflight {
        d.push("inflight");
    }
    if a.collision != b.collision {
        d.push("collision");
    }
    if a.await_pingresp != b.await_pingresp {
        d.push("await_pingresp");
    }
    if a.ping_count != b.ping_count {
        d.push("collision_ping_count");
    }
    d
}

pub fn oracles(v: &View, stats: &mut Stats) -> Vec<Record> {
    let mut out = vec![];
    match &v.step {
        Step::Call {
            call,
            cls,
            user_rec_before,
            ..
        } => {
            let inbound = matches!(call.via, Via::Read | Via::ConnAck);
            // (1) no panic / overflow trap on any broker packet
            if inbound {
                stats.oracle("C10/no-panic-on-broker-packet");
                if let Outcome::Panic(p) = &call.outcome {
                    out.push(
                        v.tag(Record::new(
                            ID,
                            "panic",
                            format!("handle_incoming_packet({}) panicked at {}: {}", call.input.show(), p.location, p.message),
                        ))
                        .fact("site", panic_site(p)),
                    );
                    return out;
                }
            } else if matches!(call.outcome, Outcome::Panic(_)) {
                return out; // request-side panic: C07's
            }

            // (2) the received packet is surfaced exactly once, first, unchanged
            if inbound {
                stats.oracle("C10/incoming-surfaced-once");
                let ins: Vec<&Pk> = call
                    .events
                    .iter()
                    .filter_map(|e| match e {
                        Ev::In(p) => Some(p),
                        _ => None,
                    })
                    .collect();
                let first_is_in = matches!(call.events.first(), Some(Ev::In(_)));
                let same = match (&call.input, ins.first()) {
                    (Pk::Other(_), Some(_)) => true,
                    (a, Some(b)) => a == *b,
                    _ => false,
                };
                if ins.len() != 1 || !first_is_in || !same {
                    out.push(
                        v.tag(Record::new(
                            ID,
                            "incoming-not-surfaced-once",
                            format!("fed {} but the call queued {:?}", call.input.show(), call.events.iter().map(|e| e.show()).collect::<Vec<_>>()),
                        ))
                        .fact("surfaced", ins.len()),
                    );
                }
            } else {
                stats.oracle("C10/no-incoming-event-without-packet");
                if call.events.iter().any(|e| matches!(e, Ev::In(_))) {
                    out.push(v.tag(Record::new(
                        ID,
                        "incoming-event-without-packet",
                        format!("no packet was read, yet an Incoming event was queued: {}", call.show()),
                    )));
                }
            }

            // (3) Outgoing(x) is announced iff the call returned the corresponding packet
            stats.oracle("C10/outgoing-event-iff-packet-returned");
            let announced: Vec<(OutKind, u16)> = call
                .events
                .iter()
                .filter_map(|e| match e {
                    Ev::Out(k, id) if *k != OutKind::AwaitAck => Some((*k, *id)),
                    _ => None,
                })
                .collect();
            let returned: Option<(OutKind, u16)> = call.outcome.packet().and_then(out_kind_of);
            let expected: Vec<(OutKind, u16)> = returned.into_iter().collect();
            if announced != expected {
                let extra: Vec<&'static str> = announced.iter().filter(|a| !expected.contains(a)).map(|a| a.0.name()).collect();
                let missing = expected.iter().any(|e| !announced.contains(e));
                out.push(
                    v.tag(Record::new(
                        ID,
                        "outgoing-event-mismatch",
                        format!(
                            "call returned {} but announced {:?}: {}",
                            call.outcome.show(),
                            announced.iter().map(|(k, id)| format!("{}({id})", k.name())).collect::<Vec<_>>(),
                            call.show()
                        ),
                    ))
                    .fact("extra_announced", extra.join(","))
                    .fact("announcement_missing", missing)
                    .fact("input_alias", matches!(&call.input, Pk::Publish { alias: Some(_), .. })),
                );
            }
            // AwaitAck(id) is announced iff the publish was parked on that id
            let await_ids: Vec<u16> = call
                .events
                .iter()
                .filter_map(|e| match e {
                    Ev::Out(OutKind::AwaitAck, id) => Some(*id),
                    _ => None,
                })
                .collect();
            if !await_ids.is_empty() {
                stats.oracle("C10/awaitack-iff-parked");
                let parked_now = matches!((&v.collision, &call.input), (Some(Pk::Publish { payload: a, pkid, .. }), Pk::Publish { payload: b, .. }) if a == b && await_ids == vec![*pkid]);
                if !parked_now || call.outcome.packet().is_some() {
                    out.push(v.tag(Record::new(
                        ID,
                        "awaitack-without-collision",
                        format!("AwaitAck{await_ids:?} announced but collision = {:?}: {}", v.collision.as_ref().map(|p| p.show()), call.show()),
                    )));
                }
            }

            // (4) replies demanded by the inbound flows
            if call.via == Via::Read && call.outcome.is_ok() {
                let got = call.outcome.packet();
                let mut expected: Option<Option<Pk>> = None; // Some(x) = verdict, x = demanded reply
                match &call.input {
                    Pk::Publish { qos, pkid, .. } => {
                        expected = Some(if v.manual {
                            None
                        } else {
                            match qos {
                                0 => None,
                                1 => Some(Pk::PubAck { pkid: *pkid, reason: 0 }),
                                _ => Some(Pk::PubRec { pkid: *pkid, reason: 0 }),
                            }
                        });
                    }
                    Pk::PubRel { pkid, .. } if matches!(cls, InClass::RelKnown) => {
                        // manual mode: completing a flow the user acknowledged is not "on its
                        // own"; a release arriving before the user's PUBREC pits two clauses of
                        // the statement against each other and is not judged
                        if !v.manual || *user_rec_before {
                            expected = Some(Some(Pk::PubComp { pkid: *pkid, reason: 0 }));
                        } else {
                            stats.add_extra("manual_release_before_user_pubrec_not_judged", 1);
                        }
                    }
                    _ => {}
                }
                if let Some(exp) = expected {
                    stats.oracle("C10/inbound-flow-reply");
                    let ok = match (&exp, got) {
                        (None, None) => true,
                        (Some(e), Some(g)) => e.kind() == g.kind() && e.pkid() == g.pkid(),
                        _ => false,
                    };
                    if !ok {
                        out.push(
                            v.tag(Record::new(
                                ID,
                                "inbound-reply-wrong",
                                format!(
                                    "{} (manual_acks={}) must be answered with {} but the call returned {}",
                                    call.input.show(),
                                    v.manual,
                                    exp.as_ref().map(|p| p.show()).unwrap_or("nothing".into()),
                                    call.outcome.show()
                                ),
                            ))
                            .fact("manual", v.manual)
                            .fact("expected", exp.as_ref().map(|p| p.kind()).unwrap_or("none"))
                            .fact("got", got.map(|p| p.kind()).unwrap_or("none")),
                        );
                    }
                }
            }

            // (5) acknowledgements nobody solicited: an error, and nothing else changes
            if call.via == Via::Read {
                let unsolicited = matches!(cls, InClass::AckUnsolicited);
                let repeated = matches!(cls, InClass::AckRepeatedRec);
                if unsolicited {
                    stats.oracle("C10/unsolicited-ack-is-error");
                    if call.outcome.is_ok() {
                        out.push(
                            v.tag(Record::new(
                                ID,
                                "unsolicited-ack-accepted",
                                format!("{} answers nothing that is outstanding on this connection, yet: {}", call.input.show(), call.show()),
                            ))
                            .fact("packet", call.input.kind()),
                        );
                    }
                }
                if repeated {
                    // a second PUBREC for a released id: an error, or the release again
                    stats.oracle("C10/repeated-pubrec-harmless");
                    let ok = match &call.outcome {
                        Outcome::Err(_) => true,
                        Outcome::Ok(Some(Pk::PubRel { pkid, .. })) => *pkid == call.input.pkid(),
                        _ => false,
                    };
                    if !ok {
                        out.push(v.tag(Record::new(
                            ID,
                            "repeated-pubrec-mishandled",
                            format!("{}", call.show()),
                        )));
                    }
                }
                let reported_unsolicited = matches!(call.outcome, Outcome::Err(crate::sub::s2::SErr::Unsolicited(_)));
                if unsolicited || repeated || reported_unsolicited {
                    if let (Some(b), Some(a)) = (v.before, v.after) {
                        stats.oracle("C10/unsolicited-leaves-bookkeeping-unchanged");
                        let d = proj_diff(b, a);
                        if !d.is_empty() {
                            out.push(
                                v.tag(Record::new(
                                    ID,
                                    "unsolicited-ack-changed-state",
                                    format!(
                                        "{} was not solicited, yet it changed {:?}: before {:?} / after {:?}",
                                        call.input.show(),
                                        d,
                                        b,
                                        a
                                    ),
                                ))
                                .fact("packet", call.input.kind())
                                .fact("changed", d.join(",")),
                            );
                        }
                        // observation, not a verdict: clean() order rotated
                        if b.held != a.held && d.is_empty() {
                            stats.add_extra("unsolicited_ack_rotated_clean_order_not_judged", 1);
                        }
                    }
                }
            }
        }
        // (6) what was announced in a read batch must have been written: when the client itself
        // raises an error later in the batch, the buffered replies die with the network while
        // their Outgoing events stay queued for the user
        Step::BatchEnd(end) => {
            stats.oracle("C10/announced-replies-are-written");
            if let BatchEnd::Dropped(buf) = end {
                if let Some(first) = buf.first() {
                    out.push(
                        v.tag(Record::new(
                            ID,
                            "announced-not-written",
                            format!(
                                "{} repl{} ({}) were announced as Outgoing events but never flushed: a later packet of the same read batch made the client drop the connection (transport never failed)",
                                buf.len(),
                                if buf.len() == 1 { "y" } else { "ies" },
                                buf.iter().map(|p| p.show()).collect::<Vec<_>>().join(", ")
                            ),
                        ))
                        .fact("announced", first.kind())
                        .fact("cause", "client-error-later-in-read-batch"),
                    );
                }
            }
        }
        // (7) the queue handed to the user is exactly what the calls appended, in order
        Step::QueueDrained { queue, reported } => {
            stats.oracle("C10/event-queue-is-fifo-of-calls");
            if queue != reported {
                out.push(v.tag(Record::new(
                    ID,
                    "event-queue-differs",
                    format!(
                        "events queued for the user {:?} differ from what the calls appended {:?}",
                        queue.iter().map(|e| e.show()).collect::<Vec<_>>(),
                        reported.iter().map(|e| e.show()).collect::<Vec<_>>()
                    ),
                )));
            }
        }
        _ => {}
    }
    out
}

// ------------------------------------------------------------------ event-loop half (S3)

mod el {
    //! Real `EventLoop::poll()` against the scripted broker, transports that never fail: the
    //! frames the broker wrote (wire-in) against the `Incoming` events, the frames the broker
    //! received (wire-out) against the `Outgoing` events, replies per inbound flow.
    use super::ID;
    use crate::common::{fnv, judge, Ctx, Judged, Record, Rng, Stats};
    use crate::gen::cs3::{self, BurstSpec, Case, ConnSpec, UOp, UStep, F, W};
    use crate::sub::s3::{Dir, ErrClass, Ev, Kind, Pk, RunLog, Ver};
    use serde_json::{json, Value};
    use std::collections::BTreeMap;

    /// ids the client never allocates in these scenarios (inflight limit 10)
    const FOREIGN_ID: u16 = 60000;

    fn same(a: &Pk, b: &Pk) -> bool {
        a.kind == b.kind
            && a.pkid == b.pkid
            && (a.kind != Kind::Publish || (a.qos == b.qos && a.topic == b.topic && a.payload == b.payload))
            && (a.kind != Kind::ConnAck || a.flag == b.flag)
    }

    fn client_raised(c: &ErrClass) -> bool {
        matches!(
            c,
            ErrClass::Unsolicited(_) | ErrClass::WrongPacket | ErrClass::Deserialization | ErrClass::ServerDisconnect | ErrClass::Other
        )
    }

    pub fn gen_case(rng: &mut Rng, ver: Ver, trigger: bool, n: u64) -> Case {
        let manual = rng.chance(2, 5);
        let mut steps = vec![];
        let mut conns = vec![];
        let n_conns = rng.range(1, 3) as usize;
        let mut payload = 0u64;
        let mut next_in = 0u16;
        for c in 0..n_conns {
            let last = c + 1 == n_conns;
            // releases are scripted explicitly (which read they travel in matters), so the
            // broker does not answer the client's PUBREC by itself
            let mut spec = ConnSpec::normal(c > 0).rule(cs3::Cls::PubRec, vec![], cs3::R::Drop);
            let mut due_rel: Vec<u16> = vec![];
            let mut pub_idx = 0usize; // index of inbound publishes on this connection
            let n_bursts = rng.range(1, 4);
            let mut hostile_placed = false;
            for b in 0..n_bursts {
                let size = match rng.below(8) {
                    0 => 0,
                    1 => rng.range(10, 12),
                    2 => 9,
                    _ => rng.range(1, 5),
                } as usize;
                let mut frames: Vec<F> = vec![];
                let mut replies_so_far = false;
                for _ in 0..size {
                    match rng.weighted(&[40, 14, 6, 5, 5]) {
                        0 => {
                            let qos = rng.below(3) as u8;
                            let pkid = if qos == 0 {
                                0
                            } else {
                                match rng.below(12) {
                                    0 => 65535,
                                    1 => 11,
                                    2 if next_in > 0 => next_in, // repeated id
                                    _ => {
                                        next_in = next_in % 40 + 1;
                                        next_in
                                    }
                                }
                            };
                            payload += 1;
                            frames.push(F::Publish {
                                qos,
                                pkid,
                                topic: (*rng.pick(&["a", "a/b", "t/1"])).to_owned(),
                                payload: format!("in{n}-{payload}"),
                            });
                            if qos == 2 && !due_rel.contains(&pkid) {
                                due_rel.push(pkid);
                            }
                            if qos > 0 && !manual {
                                replies_so_far = true;
                            }
                            if manual && qos > 0 && rng.chance(2, 3) {
                                steps.push(UStep {
                                    when: W::AfterPublishIn { conn: c, nth: pub_idx },
                                    op: UOp::Ack { qos, pkid },
                                });
                            }
                            pub_idx += 1;
                        }
                        1 => {
                            if !due_rel.is_empty() {
                                let i = rng.below(due_rel.len() as u64) as usize;
                                frames.push(F::PubRel(due_rel.remove(i)));
                                replies_so_far = true;
                            }
                        }
                        2 => frames.push(F::SubAck(rng.range(1, 10) as u16)),
                        3 => frames.push(F::UnsubAck(rng.range(1, 10) as u16)),
                        _ => frames.push(F::PingResp),
                    }
                }
                // something the client must refuse: at most one per connection, never on the last
                if !last && !hostile_placed && (b + 1 == n_bursts || rng.chance(1, 3)) {
                    let h = match rng.below(5) {
                        0 => F::PubAck(FOREIGN_ID + c as u16),
                        1 => F::PubRec(FOREIGN_ID + c as u16),
                        2 => F::PubComp(FOREIGN_ID + c as u16),
                        3 => F::PubRel(FOREIGN_ID + c as u16),
                        _ => F::PingReq,
                    };
                    // known finding trigger: a refused packet behind packets that were answered
                    // in the same read. Trigger-free: the refused packet travels alone or behind
                    // packets that need no answer.
                    if replies_so_far && !trigger {
                        spec.bursts.push(BurstSpec {
                            at_ms: 10 + 20 * b,
                            frames: std::mem::take(&mut frames),
                        });
                        spec.bursts.push(BurstSpec {
                            at_ms: 10 + 20 * b + 10,
                            frames: vec![h],
                        });
                    } else {
                        frames.push(h);
                    }
                    hostile_placed = true;
                }
                if !frames.is_empty() || size == 0 {
                    spec.bursts.push(BurstSpec {
                        at_ms: 10 + 20 * b,
                        frames,
                    });
                }
                if hostile_placed {
                    break;
                }
            }
            // user requests on this connection
            let when0 = if c == 0 { W::AfterConnAck(0) } else { W::AfterConnAck(c) };
            for _ in 0..rng.range(0, 4) {
                payload += 1;
                steps.push(UStep {
                    when: if rng.chance(1, 2) { when0.clone() } else { W::AtMs(15 + 20 * rng.below(3)) },
                    op: UOp::Pub {
                        qos: rng.below(3) as u8,
                        payload: format!("u{n}-{payload}"),
                    },
                });
            }
            if rng.chance(1, 4) {
                steps.push(UStep {
                    when: when0,
                    op: UOp::Sub { filter: "a/#".into() },
                });
            }
            conns.push(spec);
        }
        // whatever happens on the scripted connections, the run ends on a quiet one
        conns.push(ConnSpec::normal(true).rule(cs3::Cls::PubRec, vec![], cs3::R::Drop));
        Case {
            name: format!("c10-random-{n}"),
            ver: ver.name().into(),
            inflight: 10,
            manual,
            steps,
            conns,
        }
    }

    pub fn verdicts(case: &Case, log: &RunLog, stats: &mut Stats) -> Vec<Record> {
        let mut out = vec![];
        let ver = case.ver().name();
        let rec = |oracle: &str, msg: String| Record::new(ID, oracle, msg).fact("version", ver).fact("substrate", "S3");
        stats.oracle("C10/s3/no-panic");
        if let Some(p) = &log.panic {
            out.push(
                rec("panic", format!("poll() panicked at {}: {}", p.location, p.message))
                    .fact("site", crate::common::panic_site(p))
                    .fact("after", "poll"),
            );
            return out;
        }
        let prod = cs3::produced(log);
        stats.oracle("C10/s3/event-queue-is-fifo");
        if let Some(a) = prod.anomalies.first() {
            out.push(rec("event-queue-differs", format!("events were not handed out in the order they were queued: {a}")));
            return out;
        }
        let (head, segs) = cs3::by_connection(&prod.events);
        let conns = cs3::connacked_conns(log);
        stats.oracle("C10/s3/one-connack-event-per-connection");
        if !head.is_empty() || segs.len() != conns.len() {
            out.push(rec(
                "incoming-events-differ",
                format!(
                    "{} connections got a CONNACK on the wire but {} CONNACK events were surfaced ({} events before the first)",
                    conns.len(),
                    segs.len(),
                    head.len()
                ),
            )
            .fact("what", "connack-count"));
            return out;
        }
        let last_poll = log.polls.last();
        for (si, seg) in segs.iter().enumerate() {
            let c = conns[si];
            let is_last = si + 1 == segs.len();
            // how this connection ended
            let end = log.end_of(c);
            let end_class = end.and_then(|p| p.err()).map(|e| e.class.clone());
            let ended_by_client_error = end_class.as_ref().map(client_raised).unwrap_or(false);
            let err_poll = end.map(|p| p.idx);
            let transport_failed = log.conns.get(c).map(|r| r.fired.is_some()).unwrap_or(false)
                || matches!(end_class, Some(ErrClass::Io(_)) | Some(ErrClass::ConnectionAborted));

            // (A) wire-in vs Incoming events
            stats.oracle("C10/s3/incoming-events-match-wire-in");
            let wire_in: Vec<&Pk> = log.wire_of(c, Dir::B2C).map(|w| &w.pk).collect();
            let evs_in: Vec<&Ev> = seg.iter().map(|(_, e)| e).filter(|e| e.incoming).collect();
            let mut bad = None;
            for (i, e) in evs_in.iter().enumerate() {
                match wire_in.get(i) {
                    Some(w) if same(w, &e.pk) => {}
                    Some(w) => {
                        bad = Some(format!("event #{i} is {} but frame #{i} on the wire was {}", e.pk.brief(), w.brief()));
                        break;
                    }
                    None => {
                        bad = Some(format!("event #{i} {} has no frame on the wire", e.pk.brief()));
                        break;
                    }
                }
            }
            let alive_at_end = is_last && end.is_none() && log.stopped_by == "stop-condition";
            if bad.is_none() && alive_at_end && evs_in.len() != wire_in.len() {
                bad = Some(format!(
                    "the connection went idle, {} frames were delivered but only {} were surfaced (first missing: {})",
                    wire_in.len(),
                    evs_in.len(),
                    wire_in[evs_in.len()].brief()
                ));
            }
            if let Some(b) = bad {
                out.push(rec("incoming-events-differ", format!("connection {c}: {b}")).fact("what", "sequence"));
                return out;
            }

            // (B) Outgoing events vs wire-out, transports that never failed
            if !transport_failed {
                stats.oracle("C10/s3/outgoing-events-match-wire-out");
                let frames: Vec<&Pk> = log
                    .conns
                    .get(c)
                    .map(|r| r.intended.iter().filter(|f| f.pk.kind != Kind::Connect).map(|f| &f.pk).collect())
                    .unwrap_or_default();
                let evs_out: Vec<&(usize, Ev)> = seg.iter().filter(|(_, e)| !e.incoming && e.pk.kind != Kind::AwaitAck).collect();
                let n = frames.len().min(evs_out.len());
                for i in 0..n {
                    let (f, e) = (frames[i], &evs_out[i].1.pk);
                    if f.kind != e.kind || f.pkid != e.pkid {
                        out.push(
                            rec(
                                "outgoing-events-differ",
                                format!("connection {c}: frame #{i} written is {} but Outgoing event #{i} is {}", f.brief(), e.brief()),
                            )
                            .fact("what", "sequence"),
                        );
                        return out;
                    }
                }
                if frames.len() > n {
                    out.push(
                        rec(
                            "outgoing-events-differ",
                            format!("connection {c}: {} was written but never announced", frames[n].brief()),
                        )
                        .fact("what", "written-not-announced"),
                    );
                    return out;
                }
                if evs_out.len() > n {
                    let (poll, e) = evs_out[n];
                    // replies of the read batch in which the client itself raised an error
                    let in_failing_batch = ended_by_client_error && Some(*poll) == err_poll;
                    out.push(
                        rec(
                            "announced-not-written",
                            format!(
                                "connection {c}: Outgoing({}) was announced but the packet never reached the transport (connection ended with {:?}, transport never failed)",
                                e.pk.brief(),
                                end_class
                            ),
                        )
                        .fact("announced", format!("{:?}", e.pk.kind))
                        .fact(
                            "cause",
                            if in_failing_batch {
                                "client-error-later-in-read-batch"
                            } else {
                                "unexplained"
                            },
                        ),
                    );
                    return out;
                }
            }

            // (C) replies per inbound flow on the wire of this connection
            if !transport_failed {
                stats.oracle("C10/s3/inbound-flow-replies-on-wire");
                let mut want: BTreeMap<(Kind, u16), i64> = BTreeMap::new();
                let mut open_q2: Vec<u16> = vec![];
                for (poll, e) in seg.iter().filter(|(_, e)| e.incoming) {
                    // packets of the batch that ended the connection may have lost their replies
                    // to the known finding reported under (B)
                    let _ = poll;
                    match e.pk.kind {
                        Kind::Publish if e.pk.qos == 1 => *want.entry((Kind::PubAck, e.pk.pkid)).or_default() += 1,
                        Kind::Publish if e.pk.qos == 2 => {
                            *want.entry((Kind::PubRec, e.pk.pkid)).or_default() += 1;
                            if !open_q2.contains(&e.pk.pkid) {
                                open_q2.push(e.pk.pkid);
                            }
                        }
                        Kind::PubRel => {
                            if let Some(i) = open_q2.iter().position(|x| *x == e.pk.pkid) {
                                open_q2.remove(i);
                                *want.entry((Kind::PubComp, e.pk.pkid)).or_default() += 1;
                            }
                        }
                        _ => {}
                    }
                }
                let mut got: BTreeMap<(Kind, u16), i64> = BTreeMap::new();
                for w in log.wire_of(c, Dir::C2B) {
                    if matches!(w.pk.kind, Kind::PubAck | Kind::PubRec | Kind::PubComp) {
                        *got.entry((w.pk.kind, w.pk.pkid)).or_default() += 1;
                    }
                }
                let user_acks = |kind: Kind, pkid: u16| -> i64 {
                    log.user
                        .iter()
                        .filter(|u| u.ok && matches!(&u.act, crate::sub::s3::Act::Ack { qos, pkid: p } if *p == pkid && ((*qos == 1 && kind == Kind::PubAck) || (*qos == 2 && kind == Kind::PubRec))))
                        .count() as i64
                };
                if case.manual {
                    // none of PUBACK / PUBREC on its own
                    for ((kind, pkid), n) in &got {
                        if *kind == Kind::PubComp {
                            continue;
                        }
                        if *n > user_acks(*kind, *pkid) {
                            out.push(
                                rec(
                                    "inbound-reply-wrong",
                                    format!("connection {c}: manual_acks is on, the user acknowledged id {pkid} {} times, but {n} {kind:?}({pkid}) were written", user_acks(*kind, *pkid)),
                                )
                                .fact("manual", true)
                                .fact("expected", "none")
                                .fact("got", format!("{kind:?}")),
                            );
                            return out;
                        }
                    }
                } else if alive_at_end || !ended_by_client_error {
                    for ((kind, pkid), n) in &want {
                        let g = got.get(&(*kind, *pkid)).copied().unwrap_or(0);
                        if g != *n {
                            out.push(
                                rec(
                                    "inbound-reply-wrong",
                                    format!("connection {c}: {n} inbound packets demand {kind:?}({pkid}) but {g} were written"),
                                )
                                .fact("manual", false)
                                .fact("expected", format!("{kind:?}"))
                                .fact("got", if g == 0 { "none".to_owned() } else { format!("{g}x") }),
                            );
                            return out;
                        }
                    }
                    for ((kind, pkid), g) in &got {
                        if !want.contains_key(&(*kind, *pkid)) {
                            out.push(
                                rec(
                                    "inbound-reply-wrong",
                                    format!("connection {c}: {g} {kind:?}({pkid}) written although no inbound packet demands it"),
                                )
                                .fact("manual", false)
                                .fact("expected", "none")
                                .fact("got", format!("{kind:?}")),
                            );
                            return out;
                        }
                    }
                }
            }

            // (D) an acknowledgement nobody solicited ends the connection with an error and
            // leaves what the client holds unchanged
            for (poll, e) in seg.iter().filter(|(_, e)| e.incoming) {
                if matches!(e.pk.kind, Kind::PubAck | Kind::PubRec | Kind::PubComp) && e.pk.pkid >= FOREIGN_ID {
                    stats.oracle("C10/s3/unsolicited-ack-is-error");
                    stats.corner("s3-unsolicited-ack");
                    let ok = matches!(end_class, Some(ErrClass::Unsolicited(id)) if id == e.pk.pkid) && Some(*poll) == err_poll;
                    if !ok {
                        out.push(
                            rec(
                                "unsolicited-ack-accepted",
                                format!("connection {c}: {} answers nothing, yet the connection ended with {:?}", e.pk.brief(), end_class),
                            )
                            .fact("packet", format!("{:?}", e.pk.kind)),
                        );
                        return out;
                    }
                    // bookkeeping: only judged when the refused packet was alone in its read
                    let alone = prod.events.iter().filter(|(p, x)| p == poll && x.incoming).count() == 1;
                    if alone && *poll > 0 {
                        stats.oracle("C10/s3/unsolicited-leaves-bookkeeping-unchanged");
                        let key = |s: &crate::sub::s3::Snap| {
                            let mut v: Vec<String> = s
                                .held
                                .iter()
                                .chain(s.pending.iter())
                                .filter(|r| matches!(r.kind, Kind::Publish | Kind::PubRel))
                                // (a publish without a packet id was never sent: it is a request that `clean()` moved
                                // from the channel into the pending queue, not something the refused packet changed)
                                .filter(|r| r.pkid != 0)
                                .map(|r| format!("{:?}/{}/{}", r.kind, r.pkid, r.payload))
                                .collect();
                            v.sort();
                            (v, s.collision, s.collision_payload.clone())
                        };
                        let (b, a) = (key(&log.polls[*poll - 1].snap), key(&log.polls[*poll].snap));
                        if b != a {
                            out.push(
                                rec(
                                    "unsolicited-ack-changed-state",
                                    format!("connection {c}: {} was refused, yet what the client holds changed from {:?} to {:?}", e.pk.brief(), b, a),
                                )
                                .fact("packet", format!("{:?}", e.pk.kind))
                                .fact("changed", "held"),
                            );
                            return out;
                        }
                    }
                }
            }
            let _ = last_poll;
        }
        out
    }

    fn corners(case: &Case, log: &RunLog, stats: &mut Stats) -> bool {
        let mut any = false;
        if case.manual {
            stats.corner("s3-manual-acks");
        }
        for c in &case.conns {
            for b in &c.bursts {
                if b.frames.len() >= 10 {
                    stats.corner("s3-read-batch-over-limit");
                    any = true;
                }
                if b.frames.is_empty() {
                    stats.corner("s3-empty-batch");
                }
            }
        }
        if log.conns.len() >= 2 {
            stats.corner("s3-client-ended-connection");
            any = true;
        }
        if log.wire.iter().any(|w| w.dir == Dir::C2B && w.pk.kind == Kind::PubComp) {
            stats.corner("s3-pubcomp-on-wire");
            any = true;
        }
        if log.wire.iter().any(|w| w.dir == Dir::C2B && matches!(w.pk.kind, Kind::PubAck | Kind::PubRec)) {
            any = true;
        }
        any
    }

    pub fn run_case(ctx: &Ctx, stats: &mut Stats, case: &Case) -> bool {
        let log = cs3::run(case);
        stats.evaluations += 1;
        stats.op("s3-history");
        cs3::census(stats, &log);
        if let Some(e) = &log.harness_error {
            stats.inconclusive.push(format!("S3 harness: {e} (case {}: {})", case.name, serde_json::to_string(case).unwrap_or_default()));
            return false;
        }
        if corners(case, &log, stats) {
            let shape: Vec<String> = log
                .wire
                .iter()
                .map(|w| format!("{}{:?}", if w.dir == Dir::C2B { '>' } else { '<' }, w.pk.kind))
                .collect();
            stats.shapes.insert(fnv(format!("{}|{}|{}", case.ver, case.manual, shape.join(",")).as_bytes()));
        }
        let recs = verdicts(case, &log, stats);
        if stats.evaluations % 97 == 3 {
            stats.sample(json!({"kind": "S3", "case": case, "observed": log.brief(60)}));
        }
        for r in recs {
            let replay = || json!({"substrate": "S3", "case": case, "observed": log.brief(300)});
            match judge(ctx, stats, r, replay) {
                Judged::Known(_) => return true,
                Judged::Violation => return true,
            }
        }
        false
    }

    pub fn directed(ver: Ver) -> Vec<Case> {
        let v = ver.name().to_owned();
        let inp = |qos: u8, pkid: u16, p: &str| F::Publish {
            qos,
            pkid,
            topic: "a".into(),
            payload: p.into(),
        };
        vec![
            // every inbound flow, auto-ack, 12 packets in one write (crosses the read batch)
            Case {
                name: "s3-inbound-auto".into(),
                ver: v.clone(),
                inflight: 10,
                manual: false,
                steps: vec![UStep {
                    when: W::AfterConnAck(0),
                    op: UOp::Pub {
                        qos: 1,
                        payload: "u1".into(),
                    },
                }],
                conns: vec![ConnSpec {
                    bursts: vec![
                        BurstSpec {
                            at_ms: 10,
                            frames: (0..12).map(|i| inp((i % 3) as u8, if i % 3 == 0 { 0 } else { 20 + i }, &format!("i{i}"))).collect(),
                        },
                        BurstSpec {
                            at_ms: 30,
                            frames: vec![F::PubRel(22), F::PubRel(25), F::PingResp, F::SubAck(3)],
                        },
                        BurstSpec { at_ms: 50, frames: vec![] },
                    ],
                    ..ConnSpec::normal(false).rule(cs3::Cls::PubRec, vec![], cs3::R::Drop)
                }, ConnSpec::normal(true)],
            },
            // manual acknowledgements
            Case {
                name: "s3-inbound-manual".into(),
                ver: v.clone(),
                inflight: 10,
                manual: true,
                steps: vec![
                    UStep {
                        when: W::AfterPublishIn { conn: 0, nth: 0 },
                        op: UOp::Ack { qos: 1, pkid: 7 },
                    },
                    UStep {
                        when: W::AfterPublishIn { conn: 0, nth: 1 },
                        op: UOp::Ack { qos: 2, pkid: 8 },
                    },
                ],
                conns: vec![ConnSpec {
                    bursts: vec![
                        BurstSpec {
                            at_ms: 10,
                            frames: vec![inp(1, 7, "i1"), inp(2, 8, "i2"), inp(1, 9, "never-acked")],
                        },
                        BurstSpec {
                            at_ms: 40,
                            frames: vec![F::PubRel(8)],
                        },
                    ],
                    ..ConnSpec::normal(false).rule(cs3::Cls::PubRec, vec![], cs3::R::Drop)
                }, ConnSpec::normal(true)],
            },
            // an unsolicited acknowledgement alone in its read: error, reconnect, life goes on
            Case {
                name: "s3-unsolicited-alone".into(),
                ver: v.clone(),
                inflight: 10,
                manual: false,
                steps: vec![UStep {
                    when: W::AfterConnAck(0),
                    op: UOp::Pub {
                        qos: 1,
                        payload: "u1".into(),
                    },
                }],
                conns: vec![
                    ConnSpec {
                        bursts: vec![BurstSpec {
                            at_ms: 20,
                            frames: vec![F::PubComp(FOREIGN_ID)],
                        }],
                        ..ConnSpec::normal(false)
                    }
                    .rule(cs3::Cls::Q1, vec![], cs3::R::Drop),
                    ConnSpec::normal(true),
                ],
            },
            // DESIGN.md section 4, F14: a reply is announced, then dropped with the connection
            Case {
                name: "s3-F14-reply-announced-then-dropped".into(),
                ver: v,
                inflight: 10,
                manual: false,
                steps: vec![],
                conns: vec![
                    ConnSpec {
                        bursts: vec![BurstSpec {
                            at_ms: 10,
                            frames: vec![inp(1, 5, "i1"), F::PubAck(FOREIGN_ID)],
                        }],
                        ..ConnSpec::normal(false)
                    },
                    ConnSpec::normal(true),
                ],
            },
        ]
    }

    pub fn run(ctx: &Ctx, stats: &mut Stats, seed: u64, n: u64, with_directed: bool) {
        let mut rng = Rng::new(seed ^ 0x5310);
        if with_directed {
            for ver in [Ver::V4, Ver::V5] {
                for case in directed(ver) {
                    run_case(ctx, stats, &case);
                    stats.add_extra("s3_directed_scenarios", 1);
                }
            }
        }
        for i in 0..n {
            let ver = if rng.chance(1, 2) { Ver::V4 } else { Ver::V5 };
            let trigger = rng.chance(15, 100);
            let case = gen_case(&mut rng, ver, trigger, seed.wrapping_mul(100_000) + i);
            run_case(ctx, stats, &case);
            if stats.violations.len() >= 5 {
                break;
            }
        }
    }

    pub fn replay(ctx: &Ctx, doc: &Value) -> Stats {
        let mut stats = Stats::default();
        match serde_json::from_value::<Case>(doc["case"].clone()) {
            Ok(case) => {
                run_case(ctx, &mut stats, &case);
            }
            Err(e) => stats.inconclusive.push(format!("replay file does not hold an S3 case: {e}")),
        }
        stats.shapes.insert(1);
        stats.shapes.insert(2);
        stats
    }
}

fn run(ctx: &Ctx) -> Stats {
    let mut stats = cwork::run_family(ctx, ID, cwork::PROFILE_C10, 15_000, 3_000_000);
    // event-loop half
    if ctx.quick() {
        el::run(ctx, &mut stats, ctx.seed, ctx.size(1500, 0), true);
    } else {
        let per = ctx.size(0, 400_000) / ctx.threads.max(1) as u64 + 1;
        let s3 = crate::common::sharded(ctx, ctx.threads, |shard, seed| {
            let mut st = Stats::default();
            el::run(ctx, &mut st, seed, per, shard == 0);
            st
        });
        stats.merge(s3);
    }
    stats
}

fn replay(ctx: &Ctx, doc: &Value) -> Stats {
    if doc["substrate"] == "S3" {
        return el::replay(ctx, doc);
    }
    cwork::replay_family(ctx, ID, doc)
}

pub fn prop() -> Prop {
    Prop {
        id: ID,
        meta: Meta {
            level: "exploration",
            rule: "Two halves. S3 (real EventLoop::poll, v4 and v5, scripted broker, transports that never fail, 1-3 \
                   connections ended only by packets the client itself refuses): broker bursts of 0-12 frames per write \
                   (publishes QoS 0-2 incl. repeated ids / ids above the limit / 65535, scripted releases, SUBACK, \
                   UNSUBACK, PINGRESP, unsolicited PUBACK/PUBREC/PUBCOMP/PUBREL, PINGREQ), user requests and manual \
                   acks interleaved; wire-in vs Incoming events, wire-out vs Outgoing events, replies per inbound flow. \
                   S2 (real MqttState driven directly): a case is one \
                   history of 20-160 ops against the real v4 or v5 MqttState: read batches of 0-12 broker packets of every \
                   type (publishes QoS 0-2 with ids valid / repeated / above the limit / 65535, releases known and unknown, \
                   acknowledgements solicited / repeated / unsolicited / wrong kind / id 0, SUBACK, UNSUBACK, PINGRESP, \
                   server DISCONNECT, mid-session CONNACK, client-only packets; v5 reason codes and topic aliases), \
                   interleaved with user requests and manual acknowledgements; manual_acks on in 40% of the histories. \
                   Distinct = hash of (version, limit, manual, op-kind sequence incl. packet kinds per batch), counted \
                   only if a named corner state was reached.",
            assumptions: &[
                "only packets the decoders can produce are fed (QoS>0 publishes have a non-zero id)",
                "manual mode: PUBCOMP for a release whose publish the user acknowledged is demanded; a release arriving before the user's PUBREC is not judged (two clauses of the statement conflict)",
                "a PUBREL for an id the client does not know and a repeated PUBREC may be answered with an error or the protocol reply; either way bookkeeping must not change",
                "the order in which clean() lists unacknowledged publishes is not bookkeeping (3.1.1: an unsolicited PUBACK moves last_puback and rotates it; reported in the evidence, not judged)",
                "S2: a reply of a read batch counts as written when the whole batch was handled (Network::readb feeds, EventLoop::select flushes afterwards); the S3 half observes the real write",
                "S3: events are compared in the order the client produced them (poll() returns + state.events still queued after each return); the 3.1.1 CONNACK is the one event that bypasses the queue",
                "S3: MQTT 5 topic aliases, reason codes, server DISCONNECT and mid-session CONNACK are fed in the S2 half only",
            ],
            floors: &[
                ("unsolicited-ack", 6000),
                ("repeated-pubrec", 2),
                ("manual-mode-publish-in", 10000),
                ("pubrel-known-id", 7000),
                ("read-batch-over-limit", 800),
                ("v5-topic-alias-in", 3000),
                ("v5-failure-reason-code", 500),
                ("C10/inbound-flow-reply", 50000),
                ("C10/incoming-surfaced-once", 100000),
                ("C10/unsolicited-leaves-bookkeeping-unchanged", 18000),
                ("s3-read-batch-over-limit", 150),
                ("s3-unsolicited-ack", 250),
                ("s3-manual-acks", 200),
                ("s3-client-ended-connection", 300),
                ("C10/s3/incoming-events-match-wire-in", 1000),
                ("C10/s3/outgoing-events-match-wire-out", 1000),
                ("C10/s3/inbound-flow-replies-on-wire", 1000),
            ],
        },
        run,
        replay: Some(replay),
    }
}
