//! C13: commit-log reads return exactly the retained suffix; retention is bounded.
//!
//! Substrate S1: a real `rumqttd::verif::CommitLog<Item>` driven directly (`append`, `readv`,
//! `next_offset`, `memory_segments_count`, `_head_and_tail`), every call under `guarded`,
//! next to the sequential specification `model::mlog::MLog`.
//!
//! **Issued cursors.** The statement's equality clause speaks about cursors "the log itself
//! issued". The harness keeps a pool of (cursor value, position) pairs, where the position
//! (an absolute entry number) is what the *model* says the cursor stands for at the moment
//! it is handed out – the cursor's two numbers are never decoded by the oracle:
//! * the value returned by `next_offset()` (and by `append`, which returns the same thing)
//!   when n entries have been appended stands for position n (the log tail at that moment);
//! * the tag the log attached to a returned entry stands for that entry's own position
//!   (`Segment::readv` tags an entry with its own absolute offset, not the one after it);
//! * the `end` of the `Position` returned by a read *from an issued cursor* stands for the
//!   position right after the last entry that read had to return.
//! Reads from issued cursors are compared with M-log in full; everything else offered to
//! `readv` is *fabricated* (random, ±1 of issued values, huge) and is judged only for: no
//! panic, at most `len` items, items in append order. A fabricated value that happens to
//! equal an issued one is an issued cursor (the log cannot tell them apart).
//!
//! Oracles: `panic`, `read-items` (gap, repeat, wrong entry, wrong tag, more than `len`,
//! stale cursor not resuming at the oldest retained entry), `caught-up` (`Done` exactly when
//! nothing retained is left), `read-error` (`Err` from an issued cursor), `segment-bound`
//! (more segments than configured), `retention` (head/tail segment numbers differ from
//! M-log: something other than the whole oldest segment went, or it went although the
//! configured number was not exceeded), `read-bounds` (more than `len` items or items out
//! of append order, judged for every cursor, fabricated ones included). A wrong continuation shows up as `read-items` of the
//! later read that starts from it; the `start` field of `Position` is not judged (the
//! statement does not mention it).
//!
//! `readv` takes `&self` and items are plain data, so reads cannot change the log: the state
//! is a function of the append sequence alone and "all interleavings of append and readv"
//! in the small scope is covered by reading from *every* issued cursor with every length of
//! a small set after *every* append.
//!
//! Miri smoke (DESIGN.md 2.8, manual: the dependency tree takes ~6 min to build under Miri):
//! `VERIF_THREADS=1 MIRIFLAGS=-Zmiri-disable-isolation cargo +nightly miri run --offline --bin vh -- C13`
//! runs a small workload (`cfg!(miri)` below); only Miri's own UB report counts there.
use super::{Meta, Prop};
use crate::common::{fnv, guarded, judge, panic_site, sharded, Ctx, Judged, Record, Rng, Stats};
use crate::model::mlog::MLog;
use rumqttd::verif::{CommitLog, Position, Storage};
use serde_json::{json, Value};
use std::collections::BTreeSet;

const ID: &str = "C13";

type Cursor = (u64, u64);

#[derive(Clone, Debug, PartialEq, Eq)]
struct Item {
    id: u64,
    size: usize,
}

impl Storage for Item {
    fn size(&self) -> usize {
        self.size
    }
}

#[derive(Clone, Copy, Debug)]
struct Config {
    segment_size: usize,
    max_segments: usize,
}

#[derive(Clone, Debug)]
enum Op {
    Append(usize),
    /// `position`: Some = issued cursor standing for that position, None = fabricated
    Read { cursor: Cursor, len: u64, position: Option<u64> },
    /// read from every issued cursor with every one of these lengths
    Audit(Vec<u64>),
}

impl Op {
    fn to_json(&self) -> Value {
        match self {
            Op::Append(size) => json!({"op": "append", "size": size}),
            Op::Read { cursor, len, position } => {
                json!({"op": "readv", "cursor": [cursor.0, cursor.1], "len": len.to_string(), "position": position})
            }
            Op::Audit(lens) => {
                json!({"op": "audit", "lens": lens.iter().map(|l| l.to_string()).collect::<Vec<_>>()})
            }
        }
    }
    fn from_json(v: &Value) -> Option<Op> {
        let u = |x: &Value| x.as_u64().or_else(|| x.as_str().and_then(|s| s.parse().ok()));
        match v["op"].as_str()? {
            "append" => Some(Op::Append(v["size"].as_u64()? as usize)),
            "readv" => Some(Op::Read {
                cursor: (u(&v["cursor"][0])?, u(&v["cursor"][1])?),
                len: u(&v["len"])?,
                position: v["position"].as_u64(),
            }),
            "audit" => Some(Op::Audit(v["lens"].as_array()?.iter().filter_map(u).collect())),
            _ => None,
        }
    }
}

/// lengths at which `idx + len` inside `Segment::readv` can overflow (known finding)
fn near_max(len: u64) -> bool {
    len > u64::MAX - (1 << 32)
}

#[derive(Default)]
struct Tally {
    appends: u64,
    reads_issued: u64,
    reads_fabricated: u64,
    items_returned: u64,
    o_panic: u64,
    o_items: u64,
    o_caught_up: u64,
    o_bound: u64,
    o_retention: u64,
    o_bounds: u64,
    panics: u64,
    corners: [u64; 11],
}

const CORNERS: [&str; 11] = [
    "segment-rollover",
    "eviction",
    "stale-cursor-jump",
    "read-len-0",
    "boundary-cursor-previous-segment",
    "read-spans-segments",
    "oversized-entry",
    "eviction-with-one-segment",
    "caught-up",
    "continuation-followed",
    "read-stops-at-segment-end",
];

impl Tally {
    fn flush(&self, st: &mut Stats) {
        st.opn("append", self.appends);
        st.opn("readv-issued-cursor", self.reads_issued);
        st.opn("readv-fabricated-cursor", self.reads_fabricated);
        st.oraclen("panic", self.o_panic);
        st.oraclen("read-items", self.o_items);
        st.oraclen("caught-up", self.o_caught_up);
        st.oraclen("segment-bound", self.o_bound);
        st.oraclen("retention", self.o_retention);
        st.oraclen("read-bounds", self.o_bounds);
        st.add_extra("items_returned_by_reads", self.items_returned);
        st.panics_caught += self.panics;
        for (i, name) in CORNERS.iter().enumerate() {
            if self.corners[i] > 0 {
                *st.corners.entry((*name).to_owned()).or_default() += self.corners[i];
            }
        }
    }
}

/// A history stops being judged after a violation or a known finding
#[derive(PartialEq, Eq, Clone, Copy, Debug)]
enum Flow {
    Go,
    Stop,
}

struct Driver<'a> {
    ctx: &'a Ctx,
    cfg: Config,
    log: CommitLog<Item>,
    model: MLog<u64>,
    /// issued (cursor value, position it stands for), in the order of issue
    pool: Vec<(Cursor, u64)>,
    seen: BTreeSet<(Cursor, u64)>,
    /// pool entries that are continuations of earlier reads
    continuations: BTreeSet<Cursor>,
    ops: Vec<Op>,
    rolled: bool,
    evicted: bool,
    jumped: bool,
    /// continuation of the most recent read from an issued cursor
    last_end: Option<(Cursor, u64)>,
    /// what the log returned, op by op (kept only for histories that may become samples)
    trace: Option<Vec<Value>>,
    /// corner states this history reached (bit i = CORNERS[i]), rollovers, evictions
    corner_mask: u32,
    rollovers: u32,
    evictions: u32,
}

impl<'a> Driver<'a> {
    fn new(ctx: &'a Ctx, cfg: Config) -> Option<Driver<'a>> {
        let log = guarded(|| CommitLog::new(cfg.segment_size, cfg.max_segments)).ok()?.ok()?;
        let mut d = Driver {
            ctx,
            cfg,
            log,
            model: MLog::new(cfg.segment_size as u64, cfg.max_segments as u64),
            pool: Vec::new(),
            seen: BTreeSet::new(),
            continuations: BTreeSet::new(),
            ops: Vec::new(),
            rolled: false,
            evicted: false,
            jumped: false,
            last_end: None,
            trace: None,
            corner_mask: 0,
            rollovers: 0,
            evictions: 0,
        };
        // the tail of the empty log is an issued cursor too
        if let Ok(c) = guarded(|| d.log.next_offset()) {
            d.issue(c, 0);
        }
        Some(d)
    }

    fn corner(&mut self, ta: &mut Tally, i: usize) {
        ta.corners[i] += 1;
        self.corner_mask |= 1 << i;
    }

    fn issue(&mut self, cursor: Cursor, position: u64) {
        if self.seen.insert((cursor, position)) {
            self.pool.push((cursor, position));
        }
    }

    fn replay_json(&self) -> Value {
        json!({
            "segment_size": self.cfg.segment_size,
            "max_segments": self.cfg.max_segments,
            "ops": self.ops.iter().map(Op::to_json).collect::<Vec<_>>(),
        })
    }

    fn fail(&self, st: &mut Stats, rec: Record) -> Flow {
        let _: Judged = judge(self.ctx, st, rec, || self.replay_json());
        Flow::Stop
    }

    fn panic_record(&self, call: &str, p: &crate::common::PanicInfo, cursor_kind: &str, len: u64) -> Record {
        Record::new(ID, "panic", format!("CommitLog::{call} panicked at {}: {}", p.location, p.message))
            .fact("call", call)
            .fact("site", panic_site(p))
            .fact("cursor", cursor_kind)
            .fact("len_class", if near_max(len) { "near-u64-max" } else { "ordinary" })
    }

    fn append(&mut self, st: &mut Stats, ta: &mut Tally, size: usize) -> Flow {
        self.ops.push(Op::Append(size));
        ta.appends += 1;
        let id = self.model.tail_position();
        let info = self.model.append(id, size as u64);
        let item = Item { id, size };
        ta.o_panic += 1;
        let returned = match guarded(|| self.log.append(item)) {
            Ok(c) => c,
            Err(p) => {
                ta.panics += 1;
                let rec = self.panic_record("append", &p, "none", 0);
                return self.fail(st, rec);
            }
        };
        if info.rolled_over {
            self.corner(ta, 0);
            self.rolled = true;
            self.rollovers += 1;
        }
        if info.evicted_segment {
            self.corner(ta, 1);
            self.evicted = true;
            self.evictions += 1;
            if self.cfg.max_segments == 1 {
                self.corner(ta, 7);
            }
        }
        if size > self.cfg.segment_size {
            self.corner(ta, 6);
        }

        // retention, observed through the log's own accessors
        let observed = guarded(|| (self.log.memory_segments_count() as u64, self.log._head_and_tail(), self.log.next_offset()));
        let (count, (head, tail), next) = match observed {
            Ok(x) => x,
            Err(p) => {
                ta.panics += 1;
                let rec = self.panic_record("next_offset", &p, "none", 0);
                return self.fail(st, rec);
            }
        };
        ta.o_bound += 1;
        if count > self.cfg.max_segments as u64 {
            let rec = Record::new(
                ID,
                "segment-bound",
                format!("{count} segments in memory, configured maximum {}", self.cfg.max_segments),
            )
            .fact("segments", count)
            .fact("max_segments", self.cfg.max_segments as u64);
            return self.fail(st, rec);
        }
        ta.o_retention += 1;
        let want = (self.model.head_segment(), self.model.tail_segment());
        if (head, tail) != want || count != self.model.segment_count() {
            let rec = Record::new(
                ID,
                "retention",
                format!(
                    "after append #{id} (size {size}) the log holds segments {head}..={tail} ({count} in memory), M-log holds {}..={} ({})",
                    want.0,
                    want.1,
                    self.model.segment_count()
                ),
            )
            .fact("head_matches", head == want.0)
            .fact("tail_matches", tail == want.1)
            .fact("count_matches", count == self.model.segment_count());
            return self.fail(st, rec);
        }
        if let Some(t) = self.trace.as_mut() {
            t.push(json!({"append": size, "returned": [returned.0, returned.1], "segments_in_memory": count, "head_tail": [head, tail]}));
        }
        // both values are "the log tail at this moment"
        let position = self.model.tail_position();
        self.issue(returned, position);
        self.issue(next, position);
        Flow::Go
    }

    /// One readv. `position`: Some(p) = the cursor was issued for position p
    fn read(&mut self, st: &mut Stats, ta: &mut Tally, cursor: Cursor, len: u64, position: Option<u64>) -> Flow {
        self.ops.push(Op::Read { cursor, len, position });
        let kind = if position.is_some() { "issued" } else { "fabricated" };
        ta.o_panic += 1;
        let result = guarded(|| {
            let mut out: Vec<(Item, Cursor)> = Vec::new();
            let r = self.log.readv(cursor, len, &mut out);
            (r, out)
        });
        let (result, out) = match result {
            Ok(x) => x,
            Err(p) => {
                ta.panics += 1;
                let rec = self.panic_record("readv", &p, kind, len).fact("cursor_value", format!("{cursor:?}"));
                return self.fail(st, rec);
            }
        };
        ta.items_returned += out.len() as u64;
        if let Some(t) = self.trace.as_mut() {
            t.push(json!({
                "readv": [cursor.0, cursor.1], "len": len.to_string(), "cursor": kind,
                "returned (tag, entry)": out.iter().map(|(i, tag)| json!([[tag.0, tag.1], i.id])).collect::<Vec<_>>(),
                "position": format!("{result:?}"),
            }));
        }

        // any cursor: never more than len, append order
        ta.o_bounds += 1;
        let ordered = out.windows(2).all(|w| w[0].0.id < w[1].0.id);
        if out.len() as u64 > len || !ordered {
            let rec = Record::new(
                ID,
                "read-bounds",
                format!(
                    "readv({cursor:?}, {len}) returned {} items, ids {:?}",
                    out.len(),
                    out.iter().map(|x| x.0.id).collect::<Vec<_>>()
                ),
            )
            .fact("cursor", kind)
            .fact("more_than_len", out.len() as u64 > len)
            .fact("in_order", ordered);
            return self.fail(st, rec);
        }

        let Some(position) = position else {
            ta.reads_fabricated += 1;
            return Flow::Go;
        };
        ta.reads_issued += 1;
        let want = self.model.read(position, len);

        let pos = match result {
            Ok(p) => p,
            Err(e) => {
                let rec = Record::new(ID, "read-error", format!("readv({cursor:?}, {len}) from an issued cursor returned Err({e})"));
                return self.fail(st, rec);
            }
        };
        let (done, end) = match pos {
            Position::Next { end, .. } => (false, end),
            Position::Done { end, .. } => (true, end),
        };

        ta.o_items += 1;
        let got: Vec<(Cursor, u64)> = out.iter().map(|(item, tag)| (*tag, item.id)).collect();
        if got != want.items {
            let what = if got.len() as u64 > len {
                "more-than-len"
            } else if got.iter().map(|g| g.1).ne(want.items.iter().map(|w| w.1)) {
                if want.jumped {
                    "wrong-entries-stale-cursor"
                } else {
                    "wrong-entries"
                }
            } else {
                "wrong-offset-tag"
            };
            let rec = Record::new(
                ID,
                "read-items",
                format!(
                    "readv({cursor:?}, {len}) for position {position} (retained {}..{}): got (tag, entry) {:?}, M-log says {:?}",
                    self.model.oldest_retained(),
                    self.model.tail_position(),
                    got,
                    want.items
                ),
            )
            .fact("what", what)
            .fact("stale_cursor", want.jumped)
            .fact("continuation_cursor", self.continuations.contains(&cursor));
            return self.fail(st, rec);
        }

        ta.o_caught_up += 1;
        if done != want.caught_up {
            let rec = Record::new(
                ID,
                "caught-up",
                format!(
                    "readv({cursor:?}, {len}) for position {position} returned {pos:?}; entries retained after the read: {}",
                    self.model.tail_position() - want.next
                ),
            )
            .fact("reported_done", done)
            .fact("entries_left", self.model.tail_position() - want.next);
            return self.fail(st, rec);
        }

        // corners, from the model's point of view
        if want.jumped {
            self.corner(ta, 2);
            self.jumped = true;
        }
        if len == 0 {
            self.corner(ta, 3);
        }
        if let Some(seg) = self.model.segment_of(position) {
            if position >= self.model.oldest_retained() && cursor.0.checked_add(1) == Some(seg) {
                self.corner(ta, 4);
            }
        }
        if let (Some(first), Some(last)) = (want.items.first(), want.items.last()) {
            if first.0 .0 != last.0 .0 {
                self.corner(ta, 5);
            }
            if !want.caught_up && self.model.segment_of(want.next) != Some(last.0 .0) {
                self.corner(ta, 10);
            }
        }
        if want.caught_up {
            self.corner(ta, 8);
        }
        if self.continuations.contains(&cursor) {
            self.corner(ta, 9);
        }

        // what this read issued: the tags and the continuation
        for (tag, id) in &got {
            self.issue(*tag, *id);
        }
        self.continuations.insert(end);
        self.issue(end, want.next);
        self.last_end = Some((end, want.next));
        Flow::Go
    }

    /// read from every issued cursor (also those issued by this very audit) with every length
    fn audit(&mut self, st: &mut Stats, ta: &mut Tally, lens: &[u64]) -> Flow {
        let mut i = 0;
        while i < self.pool.len() {
            let (cursor, position) = self.pool[i];
            for len in lens {
                if self.read(st, ta, cursor, *len, Some(position)) == Flow::Stop {
                    return Flow::Stop;
                }
                // reads are replayed from the Audit op, not one by one
                self.ops.pop();
            }
            i += 1;
        }
        Flow::Go
    }

    fn audit_op(&mut self, st: &mut Stats, ta: &mut Tally, lens: &[u64]) -> Flow {
        // a failing read stays recorded after the marker; a replay reaches it through the
        // marker first (same reads, same order)
        self.ops.push(Op::Audit(lens.to_vec()));
        self.audit(st, ta, lens)
    }

    /// what kind of history this was: configuration, how often it rolled over / evicted
    /// (bucketed) and which corner states it reached
    fn shape(&self) -> u64 {
        let bucket = |n: u32| match n {
            0..=3 => n,
            4..=7 => 4,
            8..=15 => 5,
            _ => 6,
        };
        let text = format!(
            "{}|{}|{}|{}|{:b}",
            self.cfg.segment_size,
            self.cfg.max_segments,
            bucket(self.rollovers),
            bucket(self.evictions),
            self.corner_mask
        );
        fnv(text.as_bytes())
    }
}

// ---------------------------------------------------------------- exhaustive small scope

const SMALL_SEGMENT: usize = 1024;
const SMALL_SIZES: [usize; 5] = [1, 500, 1023, 1024, 3000];
const SMALL_LENS: [u64; 5] = [0, 1, 2, 3, u64::MAX / 2];
const SMALL_MAX_SEGMENTS: [usize; 3] = [1, 2, 3];

fn exhaustive(ctx: &Ctx, st: &mut Stats, ta: &mut Tally, max_appends: u32, shard: usize, shards: usize) {
    let n = SMALL_SIZES.len() as u64;
    let total = n.pow(max_appends);
    // every sequence of exactly max_appends appends; audits after every append cover the
    // shorter sequences as prefixes
    for index in 0..total {
        if index as usize % shards != shard {
            continue;
        }
        for max_segments in SMALL_MAX_SEGMENTS {
            if st.violations.len() >= 5 {
                return;
            }
            st.evaluations += 1;
            let cfg = Config { segment_size: SMALL_SEGMENT, max_segments };
            let Some(mut d) = Driver::new(ctx, cfg) else {
                st.inconclusive.push("CommitLog::new failed".into());
                return;
            };
            let mut x = index;
            let mut flow = d.audit_op(st, ta, &SMALL_LENS);
            for _ in 0..max_appends {
                if flow == Flow::Stop {
                    break;
                }
                let size = SMALL_SIZES[(x % n) as usize];
                x /= n;
                flow = d.append(st, ta, size);
                if flow == Flow::Go {
                    flow = d.audit_op(st, ta, &SMALL_LENS);
                }
            }
            if d.rolled {
                st.shapes.insert(d.shape());
            }
            if index == total - 1 && max_segments == 2 {
                st.sample(json!({
                    "kind": "small scope: last enumerated append sequence, every issued cursor read with every length after every append",
                    "case": d.replay_json(),
                    "issued_cursors_at_end": d.pool.iter().map(|(c, p)| json!({"cursor": [c.0, c.1], "position": p})).collect::<Vec<_>>(),
                    "log_head_tail": d.log._head_and_tail(),
                    "oldest_retained_position": d.model.oldest_retained(),
                }));
            }
        }
    }
}

// ---------------------------------------------------------------- random histories

fn random_len(rng: &mut Rng, allow_trigger: bool) -> u64 {
    if allow_trigger && rng.chance(1, 6) {
        return *rng.pick(&[u64::MAX, u64::MAX - 1, u64::MAX - 7]);
    }
    match rng.below(12) {
        0 | 1 => 0,
        2 | 3 => 1,
        4 => 2,
        5 => 7,
        6 => rng.range(3, 40),
        7 => 100,
        8 => u64::MAX / 2,
        9 => u32::MAX as u64,
        _ => rng.range(1, 5),
    }
}

fn random_size(rng: &mut Rng, seg: usize, profile: u64) -> usize {
    let small = [0usize, 1, 7, 64, seg / 10];
    let big = [seg / 3, seg / 2, seg - 1, seg, seg + 1, 3 * seg];
    let big_weight = match profile {
        0 => 2,
        1 => 6,
        _ => 9,
    };
    if rng.below(10) < big_weight {
        *rng.pick(&big)
    } else {
        *rng.pick(&small)
    }
}

fn fabricated(rng: &mut Rng, d: &Driver) -> Cursor {
    let (tail_seg, tail_off) = (d.model.tail_segment(), d.model.tail_position());
    let base = if d.pool.is_empty() { (0, 0) } else { d.pool[rng.below(d.pool.len() as u64) as usize].0 };
    match rng.below(10) {
        0 => (base.0, base.1.wrapping_add(1)),
        1 => (base.0, base.1.wrapping_sub(1)),
        2 => (base.0.wrapping_add(1), base.1),
        3 => (base.0.wrapping_sub(1), base.1),
        4 => (rng.below(tail_seg + 3), rng.below(tail_off + 3)),
        5 => (u64::MAX, u64::MAX),
        6 => (base.0, u64::MAX),
        7 => (u64::MAX, base.1),
        8 => (rng.below(tail_seg + 1), 0),
        _ => (rng.next(), rng.next()),
    }
}

fn random_history(ctx: &Ctx, st: &mut Stats, ta: &mut Tally, rng: &mut Rng, want_sample: bool) {
    st.evaluations += 1;
    let cfg = Config {
        segment_size: *rng.pick(&[1024usize, 1024, 1500, 2048, 4096]),
        max_segments: *rng.pick(&[1usize, 2, 2, 3, 3, 10]),
    };
    // ~15 % of the histories may use read lengths next to u64::MAX (trigger of the known
    // `idx + len` overflow in Segment::readv); the others never do
    let allow_trigger = rng.chance(15, 100);
    let profile = rng.below(3);
    let n_ops = rng.range(10, 120);
    let Some(mut d) = Driver::new(ctx, cfg) else {
        st.inconclusive.push("CommitLog::new failed".into());
        return;
    };
    if want_sample {
        d.trace = Some(Vec::new());
    }
    let mut flow = Flow::Go;
    for _ in 0..n_ops {
        if flow == Flow::Stop {
            break;
        }
        match rng.weighted(&[45, 25, 10, 10, 10]) {
            0 => {
                let size = random_size(rng, cfg.segment_size, profile);
                flow = d.append(st, ta, size);
            }
            1 => {
                // any issued cursor, old ones as likely as fresh ones
                let (cursor, position) = d.pool[rng.below(d.pool.len() as u64) as usize];
                let len = random_len(rng, allow_trigger);
                flow = d.read(st, ta, cursor, len, Some(position));
            }
            2 => {
                // the oldest issued cursors: most likely stale
                let i = rng.below((d.pool.len() as u64 / 4).max(1)) as usize;
                let (cursor, position) = d.pool[i];
                let len = random_len(rng, allow_trigger);
                flow = d.read(st, ta, cursor, len, Some(position));
            }
            3 => {
                // follow the continuation of the previous read, like a subscriber does
                if let Some((cursor, position)) = d.last_end {
                    let len = random_len(rng, allow_trigger);
                    flow = d.read(st, ta, cursor, len, Some(position));
                    }
            }
            _ => {
                let cursor = fabricated(rng, &d);
                // a fabricated value that equals an issued one *is* an issued cursor
                let position = d.pool.iter().find(|(c, _)| *c == cursor).map(|(_, p)| *p);
                let len = random_len(rng, allow_trigger);
                flow = d.read(st, ta, cursor, len, position);
            }
        }
    }
    // closing sweep over a sample of everything issued, however old
    if flow == Flow::Go {
        let step = (d.pool.len() / 24).max(1);
        let mut i = 0;
        while i < d.pool.len() && flow == Flow::Go {
            let (cursor, position) = d.pool[i];
            flow = d.read(st, ta, cursor, *rng.pick(&[0u64, 1, 3, u64::MAX / 2]), Some(position));
            i += step;
        }
    }
    if d.rolled {
        st.shapes.insert(d.shape());
    }
    if want_sample && d.evicted && d.jumped && d.ops.len() < 60 {
        st.sample(json!({
            "kind": "random history",
            "case": d.replay_json(),
            "observed": d.trace,
            "log_head_tail": d.log._head_and_tail(),
            "log_next_offset": d.log.next_offset(),
            "oldest_retained_position": d.model.oldest_retained(),
            "entries_appended": d.model.tail_position(),
        }));
    }
}

/// Directed histories: the corner states of DESIGN.md Appendix C plus the read lengths next
/// to u64::MAX, run at every seed
fn directed(ctx: &Ctx, st: &mut Stats, ta: &mut Tally) {
    for max_segments in [1usize, 2, 3] {
        for big_len in [u64::MAX / 2, u64::MAX] {
            st.evaluations += 1;
            let cfg = Config { segment_size: 1024, max_segments };
            let Some(mut d) = Driver::new(ctx, cfg) else {
                st.inconclusive.push("CommitLog::new failed".into());
                return;
            };
            let mut flow = Flow::Go;
            // 12 entries of 512 bytes: two per segment, six segments
            for _ in 0..12 {
                if flow == Flow::Go {
                    flow = d.append(st, ta, 512);
                }
                if flow == Flow::Go {
                    flow = d.audit_op(st, ta, &[0, 1, 2]);
                }
            }
            if flow == Flow::Go {
                flow = d.audit_op(st, ta, &[big_len]);
            }
            let _ = flow;
            st.shapes.insert(d.shape());
        }
    }
}

// ---------------------------------------------------------------- run / replay

fn work(ctx: &Ctx, shard: usize, shards: usize, seed: u64) -> Stats {
    let mut st = Stats::default();
    let mut ta = Tally::default();
    if shard == 0 {
        directed(ctx, &mut st, &mut ta);
    }
    let depth = small_scope_depth(ctx);
    exhaustive(ctx, &mut st, &mut ta, depth, shard, shards);
    let mut rng = Rng::new(seed ^ 0xc13);
    let n = if cfg!(miri) { 10 } else { ctx.size(200_000, 10_000_000) / shards as u64 };
    for i in 0..n {
        if st.violations.len() >= 5 {
            break;
        }
        let mut r = rng.fork();
        random_history(ctx, &mut st, &mut ta, &mut r, shard == 0 && i < 2000);
    }
    ta.flush(&mut st);
    st
}

fn small_scope_depth(ctx: &Ctx) -> u32 {
    if cfg!(miri) {
        // Miri smoke (DESIGN.md 2.8): a few thousand calls, judged by Miri's own UB reports
        return 2;
    }
    if ctx.quick() {
        6
    } else {
        8
    }
}

fn run(ctx: &Ctx) -> Stats {
    let threads = ctx.threads.max(1);
    let mut st = sharded(ctx, threads, |shard, seed| work(ctx, shard, threads, seed));
    st.violations.truncate(5);
    if st.violations.is_empty() {
        st.exhaustive_scopes.push(format!(
            "every sequence of <= {} appends with sizes from {:?} on a {}-byte-segment log with max_segments in {:?}; after every append (and on the empty log) readv from every cursor issued so far (tails, entry tags, continuations, also those issued during the sweep) with every len in {{0, 1, 2, 3, u64::MAX/2}}",
            small_scope_depth(ctx),
            SMALL_SIZES,
            SMALL_SEGMENT,
            SMALL_MAX_SEGMENTS
        ));
    }
    st
}

fn replay(ctx: &Ctx, case: &Value) -> Stats {
    let mut st = Stats::default();
    let mut ta = Tally::default();
    st.evaluations = 1;
    let cfg = Config {
        segment_size: case["segment_size"].as_u64().unwrap_or(1024) as usize,
        max_segments: case["max_segments"].as_u64().unwrap_or(1) as usize,
    };
    let ops: Vec<Op> = case["ops"].as_array().map(|a| a.iter().filter_map(Op::from_json).collect()).unwrap_or_default();
    let Some(mut d) = Driver::new(ctx, cfg) else {
        st.inconclusive.push("CommitLog::new failed".into());
        return st;
    };
    for op in ops {
        let flow = match op {
            Op::Append(size) => d.append(&mut st, &mut ta, size),
            Op::Read { cursor, len, position } => d.read(&mut st, &mut ta, cursor, len, position),
            Op::Audit(lens) => d.audit_op(&mut st, &mut ta, &lens),
        };
        if flow == Flow::Stop {
            break;
        }
    }
    st.sample(d.replay_json());
    ta.flush(&mut st);
    if st.violations.is_empty() {
        st.inconclusive.push("replayed case did not reproduce a violation".into());
    }
    st
}

pub fn prop() -> Prop {
    Prop {
        id: ID,
        meta: Meta {
            level: "exploration",
            rule: "a case is one history (one log configuration, a sequence of appends and reads). distinct_nontrivial counts distinct (segment size, max_segments, number of rollovers bucketed 0/1/2/3/4-7/8-15/16+, number of evictions bucketed the same way, set of named corner states reached) signatures among histories in which at least one segment rollover happened; op order, sizes, lengths and cursor values are abstracted away",
            assumptions: &[
                "rollover rule taken from the CommitLog doc comment and its tests: a new segment is started by the append that finds the active segment's byte size >= the limit",
                "the 'retention' oracle reads 'keeps at most the configured number of segments, discards only whole oldest segments' as a retention policy: the oldest segment is discarded exactly when a rollover would otherwise exceed the configured number (an earlier discard is reported too)",
                "issued cursors = next_offset()/append() results, entry tags, and the end of a Position returned for an issued cursor; the start field of Position is not judged",
                "readv takes &self: reads cannot change the log, so reading from every issued cursor after every append covers all interleavings of reads in the small scope",
            ],
            floors: &[
                ("segment-rollover", 10_000),
                ("eviction", 10_000),
                ("stale-cursor-jump", 10_000),
                ("read-len-0", 10_000),
                ("boundary-cursor-previous-segment", 1_000),
                ("read-spans-segments", 10_000),
                ("oversized-entry", 1_000),
                ("eviction-with-one-segment", 1_000),
                ("continuation-followed", 10_000),
                ("read-stops-at-segment-end", 1_000),
                ("read-bounds", 100_000),
            ],
        },
        run,
        replay: Some(replay),
    }
}
