//! C15: retained messages (S4)
use super::s4common::{self, Plan};
use super::{Meta, Prop};
use crate::common::{Ctx, Stats};
#[allow(unused_imports)]
use crate::sub::s4drive::{base_profile, Stepping, Weights};
#[allow(unused_imports)]
use rumqttd::Strategy;

pub fn plan() -> Plan {
    let mut p = base_profile("c15-retained");
    p.retain_pm = 500;
    p.w.subscribe = 16;
    p.w.unsubscribe = 4;
    p.topics = vec!["a", "a/b", "a/c", "b", "a/b/c"];
    p.burst_pm = 10;
    p.shared_pm = 100;
    p.persistent_pm = 300;
    p.w.link_drop = 5;
    p.w.takeover = 3;
    p.w.connect = 10;
    p.props_pm = 300;
    p.pub_alias_pm = 150;
    // MQTT 5 subscribers with a Topic Alias Maximum: the broker's aliases towards them are allocated, freed on
    // UNSUBSCRIBE and re-used, and a retained replay may be sent with an alias only
    p.alias_pm = 350;
    p.w.unsubscribe = 7;
    let mut single = p.clone();
    single.name = "c15-single";
    single.stepping = Stepping::Single;
    let profiles = vec![p, single];
    Plan {
        profiles,
        directed: vec![("alias-reuse-after-unsubscribe", |h| h.alias_reuse_after_unsubscribe())],
        quick_histories: 500,
        thorough_histories: 320_000,
        s5: None,
        enumerate_session_end: None,
        enumerate_symbols: None,
        relabel: None,
    }
}

fn run(ctx: &Ctx) -> Stats {
    s4common::run(ctx, &plan())
}

fn replay(ctx: &Ctx, doc: &serde_json::Value) -> Stats {
    s4common::replay(ctx, &plan(), doc)
}

pub fn prop() -> Prop {
    Prop {
        id: "C15",
        meta: Meta {
            level: "exploration",
            rule: "seeded histories of retained / plain publishes with payload or empty (replacement chains, clears) at QoS 0-2 interleaved with new, repeated and shared subscriptions using literal and wildcard filters; M-broker keeps the retained map; every retain-flagged forward must be a current retained message owed to a new non-shared subscription, completeness at quiescent points. A case counts as distinct and non-trivial when its sequence of operation kinds is new and it reached at least one named corner state.",
            assumptions: &["router stepped on one thread through verif hooks; link actors use the real LinkTx/LinkRx", "default segment sizes: backlog stays within retention"],
            floors: &[("quiescent-point", 20), ("retained-replay", 100)],
        },
        run,
        replay: Some(replay),
    }
}
