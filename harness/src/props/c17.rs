//! C17: shared subscriptions: exactly one member (S4)
use super::s4common::{self, Plan};
use super::{Meta, Prop};
use crate::common::{Ctx, Stats};
#[allow(unused_imports)]
use crate::sub::s4drive::{base_profile, Stepping, Weights};
#[allow(unused_imports)]
use rumqttd::Strategy;

pub fn plan() -> Plan {
    let mut p = base_profile("c17-shared");
    p.shared_pm = 650;
    p.persistent_pm = 0;
    p.clients = (3, 5);
    p.filters = vec!["a", "a/b", "a/+", "b"];
    p.strategies = vec![Strategy::RoundRobin, Strategy::Random, Strategy::Sticky];
    p.w.subscribe = 12;
    p.w.unsubscribe = 4;
    p.w.link_drop = 3;
    p.w.disconnect_pkt = 3;
    p.w.connect = 8;
    p.burst_pm = 120;
    p.burst = (20, 150);
    let mut single = p.clone();
    single.name = "c17-single";
    single.stepping = Stepping::Single;
    let profiles = vec![p, single];
    Plan {
        profiles,
        directed: vec![("shared-turn-holder-stuck", |h| h.shared_turn_holder_stuck())],
        quick_histories: 500,
        thorough_histories: 320_000,
        s5: Some((2, 30, s4common::s5_default(false, 3))),
        enumerate_session_end: None,
        enumerate_symbols: None,
        relabel: None,
    }
}

fn run(ctx: &Ctx) -> Stats {
    s4common::run(ctx, &plan())
}

fn replay(ctx: &Ctx, doc: &serde_json::Value) -> Stats {
    s4common::replay(ctx, &plan(), doc)
}

pub fn prop() -> Prop {
    Prop {
        id: "C17",
        meta: Meta {
            level: "exploration",
            rule: "seeded histories with 2-4 group members joining, leaving and disconnecting between single publishes and bursts, per-member ack pacing, the three balancing strategies, QoS 0-2, members that also subscribe plainly; per group the members' shares must be pairwise disjoint, each in acceptance order, and complete at quiescent points while the group stayed non-empty. A case counts as distinct and non-trivial when its sequence of operation kinds is new and it reached at least one named corner state.",
            assumptions: &["router stepped on one thread through verif hooks; link actors use the real LinkTx/LinkRx", "default segment sizes: backlog stays within retention"],
            floors: &[("quiescent-point", 20), ("shared-forward", 200)],
        },
        run,
        replay: Some(replay),
    }
}
