//! C06: exactly one matching ack per request, in order, to the right client (S4)
use super::s4common::{self, Plan};
use super::{Meta, Prop};
use crate::common::{Ctx, Stats};
#[allow(unused_imports)]
use crate::sub::s4drive::{base_profile, Stepping, Weights};
#[allow(unused_imports)]
use rumqttd::Strategy;

pub fn plan() -> Plan {
    let mut p = base_profile("c06-requests");
    p.w.ping = 6;
    p.w.subscribe = 12;
    p.w.unsubscribe = 6;
    p.qos_weights = [1, 3, 3];
    p.w.stall = 4;
    let mut single = p.clone();
    single.name = "c06-single";
    single.stepping = Stepping::Single;
    single.burst_pm = 150;
    let mut turns = p.clone();
    turns.name = "c06-turns";
    turns.stepping = Stepping::Turns;
    let profiles = vec![p, single, turns];
    Plan {
        profiles,
        directed: vec![],
        quick_histories: 400,
        thorough_histories: 240_000,
        s5: Some((2, 30, s4common::s5_default(false, 0))),
        enumerate_session_end: None,
        enumerate_symbols: None,
        relabel: None,
    }
}

fn run(ctx: &Ctx) -> Stats {
    s4common::run(ctx, &plan())
}

fn replay(ctx: &Ctx, doc: &serde_json::Value) -> Stats {
    s4common::replay(ctx, &plan(), doc)
}

pub fn prop() -> Prop {
    Prop {
        id: "C06",
        meta: Meta {
            level: "exploration",
            rule: "seeded histories rich in request packets (QoS1/2 publishes with PUBREL pacing, multi-filter SUBSCRIBE, UNSUBSCRIBE, PINGREQ, bursts, stalled consumers) against the real router; M-broker predicts the reply sequence per connection; every DeviceAck put in a link's buffer is compared with the head of that sequence, completeness at quiescent points. A case counts as distinct and non-trivial when its sequence of operation kinds is new and it reached at least one named corner state.",
            assumptions: &["router stepped on one thread through verif hooks; link actors use the real LinkTx/LinkRx", "default segment sizes: backlog stays within retention"],
            floors: &[("quiescent-point", 20), ("reply-order", 500)],
        },
        run,
        replay: Some(replay),
    }
}
