//! C18: client keep-alive pings on time, detects a silent broker, raises no false keep-alive
//! failure, never pings with keep-alive 0, and reports an incomplete connect/handshake as a
//! timeout. Substrate S3 (real `EventLoop::poll()` of both clients, scripted broker, virtual
//! time). Every verdict is arithmetic on virtual timestamps of the wire / `poll()` log.
use super::{Meta, Prop};
use crate::common::{fnv, judge, sharded, Ctx, Judged, Record, Rng, Stats};
use crate::sub::s3::{self, *};
use serde::{Deserialize, Serialize};
use serde_json::{json, Value};

/// tolerance on every deadline: tokio's timer wheel has 1 ms resolution and a deadline can be
/// rounded up once per timer involved
const TOL: Ms = 5;

#[derive(Clone, Debug, Serialize, Deserialize, PartialEq)]
enum PingDelay {
    Ms(u64),
    Never,
}

/// periodic QoS-q publishes starting `phase` ms after the connection was accepted
#[derive(Clone, Debug, Serialize, Deserialize, PartialEq)]
struct Flow {
    phase: u64,
    period: u64,
    qos: u8,
    /// extra payload bytes (to fill the pipe in the stall scenarios)
    #[serde(default)]
    pad: usize,
}

#[derive(Clone, Debug, Serialize, Deserialize, PartialEq)]
enum Family {
    /// PINGRESP delayed by `delay` from ping number `from_ping` on
    PingDelay { delay: PingDelay, from_ping: usize },
    /// the broker writes nothing at or after `at` ms
    Silence { at: u64 },
    /// (trigger of KF "stalled peer") the broker stops *reading* at `at` ms while the user keeps
    /// publishing: the client blocks in a write
    Stall { at: u64 },
    /// keep-alive 0 (v4): run for `for_s` virtual seconds
    Zero { for_s: u64 },
    /// the first connection ends while a PINGREQ is unanswered (`reset` = false: the broker is silent
    /// from `at` ms on, the client reports it; `reset` = true: pings are never answered and the broker
    /// closes the socket at `at` ms, K < at < 2K); the event loop reconnects to a healthy broker and
    /// the keep-alive clauses are judged on that second connection
    Reconnect { at: u64, reset: bool },
    /// (v5) the CONNACK carries `server_keep_alive = s`
    ServerKeepAlive { s: u16 },
    /// connect / handshake timing: the transport connects after `accept` ms (None = never), the
    /// CONNACK is written `connack` ms after the CONNECT (None = never); `partial` writes only
    /// the first two CONNACK bytes; `second` = do it on the second connection of the run
    Connect {
        accept: Option<u64>,
        connack: Option<u64>,
        partial: bool,
        second: bool,
        timeout_s: u64,
    },
}

#[derive(Clone, Debug, Serialize, Deserialize, PartialEq)]
struct Case {
    ver: String,
    k_s: u64,
    family: Family,
    incoming: Option<Flow>,
    outgoing: Option<Flow>,
    /// virtual duration of the keep-alive scenarios, in ms
    run_ms: u64,
}

fn ver_of(c: &Case) -> Ver {
    if c.ver == "v5" {
        Ver::V5
    } else {
        Ver::V4
    }
}

fn build(case: &Case) -> Scenario {
    let ver = ver_of(case);
    let mut scn = Scenario::new(ver);
    scn.snap = SnapLevel::Light;
    scn.opts.keep_alive_s = case.k_s;
    scn.opts.clean_session = true;
    scn.opts.inflight = 100;
    scn.opts.channel_cap = 4096;
    let k = case.k_s * 1000;
    let mut policy = ConnPolicy::normal(false);
    let mut run_ms = case.run_ms;
    scn.stop.when = vec![When::AfterErr(0)];

    // background traffic
    let mut traffic_end = run_ms;
    if let Family::Silence { at } | Family::Stall { at } = &case.family {
        traffic_end = traffic_end.min(at + 3 * k.max(1000));
    }
    if let Some(f) = &case.incoming {
        let mut t = f.phase;
        let mut n = 0u16;
        while t < traffic_end && n < 2000 {
            n += 1;
            let frame = s3::wire::publish(f.qos, if f.qos == 0 { 0 } else { n }, "in", &format!("b:{n}"), false, false);
            policy.unsolicited.push(Burst { at_ms: t, frames: vec![frame] });
            t += f.period.max(1);
        }
    }
    if let Some(f) = &case.outgoing {
        let mut t = f.phase;
        let mut n = 0;
        while t < traffic_end && n < 2000 {
            n += 1;
            // a little after the CONNACK at the earliest: the request must not precede the connect
            scn.user.push(UserStep {
                when: When::AtMs(t.max(1)),
                act: Act::publish(f.qos, "out", &format!("u:{n}{}", "x".repeat(f.pad))),
            });
            t += f.period.max(1);
        }
    }

    match &case.family {
        Family::PingDelay { delay, from_ping } => {
            let rest = match delay {
                PingDelay::Ms(0) => Reply::Normal,
                PingDelay::Ms(d) => Reply::Delay(*d),
                PingDelay::Never => Reply::Drop,
            };
            policy.rules.insert(On::PingReq, RuleSeq::normal_then(*from_ping, rest));
        }
        Family::Silence { at } => policy.silent_from_ms = Some(*at),
        Family::Stall { at } => {
            policy.stop_reading_at_ms = Some(*at);
            policy.silent_from_ms = Some(*at);
            policy.pipe_capacity = 256;
        }
        Family::Zero { for_s } => {
            run_ms = for_s * 1000;
        }
        Family::Reconnect { at, reset } => {
            let mut first = ConnPolicy::normal(false);
            if *reset {
                first.rules.insert(On::PingReq, RuleSeq::normal_then(0, Reply::Drop));
                first.close_at_ms = Some(*at);
            } else {
                first.silent_from_ms = Some(*at);
            }
            // the background traffic belongs to the second (judged) connection
            scn.conns = vec![ConnPlan { policy: first, fault: Fault::NONE }, ConnPlan { policy, fault: Fault::NONE }];
            scn.stop.when = vec![When::AfterErr(1), When::AtMs(run_ms)];
            scn.horizon_ms = run_ms + 2 * k + 5000;
            return scn;
        }
        Family::ServerKeepAlive { s } => {
            policy.connack = ConnAckRule::Send {
                session_present: false,
                code: 0,
                delay_ms: 0,
                props: Some(rumqttd::protocol::ConnAckProperties {
                    server_keep_alive: Some(*s),
                    ..Default::default()
                }),
            };
        }
        Family::Connect {
            accept,
            connack,
            partial,
            second,
            timeout_s,
        } => {
            scn.opts.conn_timeout_s = *timeout_s;
            let mut p = ConnPolicy::normal(false);
            p.accept = match accept {
                Some(d) => Accept::After(*d),
                None => Accept::Never,
            };
            p.connack = match (connack, partial) {
                (None, _) => ConnAckRule::Never,
                (Some(d), false) => ConnAckRule::Send {
                    session_present: false,
                    code: 0,
                    delay_ms: *d,
                    props: None,
                },
                (Some(d), true) => ConnAckRule::Raw {
                    bytes: vec![0x20, if ver == Ver::V4 { 0x02 } else { 0x03 }],
                    delay_ms: *d,
                    note: "first two bytes of a CONNACK".into(),
                },
            };
            if *second {
                // a normal first connection that the broker closes after 300 ms
                let mut first = ConnPolicy::normal(false);
                first.close_at_ms = Some(300);
                scn.conns = vec![ConnPlan { policy: first, fault: Fault::NONE }, ConnPlan { policy: p, fault: Fault::NONE }];
                scn.stop.when = vec![When::AfterErr(1), When::AfterConnAck(1)];
            } else {
                scn.conns = vec![ConnPlan { policy: p, fault: Fault::NONE }];
                scn.stop.when = vec![When::AfterErr(0), When::AfterConnAck(0)];
            }
            scn.horizon_ms = 300 + (timeout_s + 30) * 1000;
            return scn;
        }
    }
    scn.conns = vec![ConnPlan { policy, fault: Fault::NONE }];
    scn.stop.when.push(When::AtMs(run_ms));
    scn.horizon_ms = run_ms + 2 * k + 5000;
    scn
}

fn shape(case: &Case) -> u64 {
    let k = (case.k_s * 1000).max(1);
    // phases are abstracted to their K/8 slot, delays to their class
    let fam = match &case.family {
        Family::PingDelay { delay, from_ping } => {
            let class = match delay {
                PingDelay::Never => "never".to_owned(),
                PingDelay::Ms(d) if *d + 1 == k => "K-1".into(),
                PingDelay::Ms(d) if *d == k => "K".into(),
                PingDelay::Ms(d) if *d == k + 1 => "K+1".into(),
                PingDelay::Ms(d) => format!("{}/8", d * 8 / k),
            };
            format!("delay:{class}:{from_ping}")
        }
        Family::Silence { at } => format!("silence:{}", at * 8 / k),
        Family::Stall { at } => format!("stall:{}", at * 8 / k),
        Family::Zero { .. } => "zero".into(),
        Family::Reconnect { at, reset } => format!("reconnect:{}:{reset}", at * 8 / k),
        Family::ServerKeepAlive { s } => format!("ska:{s}"),
        Family::Connect {
            accept,
            connack,
            partial,
            second,
            timeout_s,
        } => {
            let t = timeout_s * 1000;
            let total = match (accept, connack) {
                (Some(a), Some(c)) if !partial => Some(a + c),
                _ => None,
            };
            let class = match total {
                None => "never".to_owned(),
                Some(x) if x + 1 == t => "T-1".into(),
                Some(x) if x == t + 1 => "T+1".into(),
                Some(x) if x == t => "T".into(),
                Some(x) => format!("{}/4", x * 4 / t),
            };
            format!("connect:{}:{}:{class}:{partial}:{second}", accept.is_some(), connack.is_some())
        }
    };
    let flow = |f: &Option<Flow>| match f {
        None => "-".to_owned(),
        Some(f) => format!("{}:{}:{}", f.phase * 8 / k, f.period * 8 / k, f.qos),
    };
    fnv(format!("{}|{}|{}|{}|{}", case.ver, case.k_s, fam, flow(&case.incoming), flow(&case.outgoing)).as_bytes())
}

/// (record, is it the first thing wrong in this history)
fn verdicts(case: &Case, log: &RunLog, stats: &mut Stats) -> Vec<Record> {
    let mut out = vec![];
    let k = case.k_s * 1000;
    let base = |oracle: &str, msg: String| {
        Record::new("C18", oracle, msg)
            .fact("client", case.ver.clone())
            .fact("keep_alive_s", case.k_s)
    };
    if let Some(p) = &log.panic {
        out.push(
            base("panic", format!("panic in the client at {}: {}", p.location, p.message))
                .fact("site", crate::common::panic_site(p)),
        );
        return out;
    }

    // ---------------- connect / handshake timeout
    if let Family::Connect {
        accept,
        connack,
        partial,
        second,
        timeout_s,
    } = &case.family
    {
        let conn = if *second { 1 } else { 0 };
        let t = timeout_s * 1000;
        // the poll() call that started this connect
        let Some(last) = log.polls.last() else {
            stats.inconclusive.push("connect scenario produced no poll() return".into());
            return out;
        };
        if last.conn != Some(conn) {
            stats.inconclusive.push(format!("connect scenario ended on connection {:?}", last.conn));
            return out;
        }
        let started = last.called;
        let completes = match (accept, connack) {
            (Some(a), Some(c)) if !partial => Some(a + c),
            _ => None,
        };
        let timed_out = matches!(last.err().map(|e| &e.class), Some(ErrClass::ConnectTimeout));
        let elapsed = last.at - started;
        let phase = if accept.is_none() { "transport" } else { "handshake" };
        stats.oracle("connect-timeout");
        match completes {
            Some(x) if x + 1 <= t => {
                // completed in time: a timeout report would be wrong, and so would any failure
                stats.corner("connect-completes-before-timeout");
                if timed_out {
                    out.push(
                        base(
                            "connect-timeout-spurious",
                            format!("handshake completed after {x} ms but poll() reported a timeout (limit {t} ms)"),
                        )
                        .fact("phase", phase),
                    );
                } else if last.err().is_some() {
                    stats.inconclusive.push(format!("connect in time failed with {:?}", last.err()));
                }
            }
            Some(x) if x == t => {
                stats.corner("connect-tie-not-judged");
                stats.add_extra(if timed_out { "tie_connect_timeout" } else { "tie_connect_ok" }, 1);
            }
            _ => {
                stats.corner("connect-timeout");
                if !timed_out {
                    out.push(
                        base(
                            "connect-timeout-missed",
                            format!(
                                "connect did not complete within {t} ms ({phase} stalled) but poll() returned {} after {elapsed} ms",
                                match &last.out {
                                    PollOut::Ev(e) => e.pk.brief(),
                                    PollOut::Err(e) => format!("{:?}", e.class),
                                }
                            ),
                        )
                        .fact("phase", phase)
                        .fact("partial_connack", *partial),
                    );
                } else if elapsed + TOL < t || elapsed > t + TOL {
                    out.push(
                        base(
                            "connect-timeout-wrong-time",
                            format!("timeout reported after {elapsed} ms, configured {t} ms"),
                        )
                        .fact("phase", phase)
                        .fact("early", elapsed < t),
                    );
                }
            }
        }
        return out;
    }

    // ---------------- established-connection clauses
    // the connection the clauses are judged on
    let j = if matches!(case.family, Family::Reconnect { .. }) { 1 } else { 0 };
    if j == 1 {
        // the premise: the first connection ended with a PINGREQ outstanding
        let c0_pings = log.wire_of(0, Dir::C2B).filter(|w| w.pk.kind == Kind::PingReq).count();
        let c0_pongs = log.wire_of(0, Dir::B2C).filter(|w| w.pk.kind == Kind::PingResp).count();
        if log.end_of(0).is_none() || c0_pings <= c0_pongs {
            stats.add_extra("reconnect_premise_not_met", 1);
            return out;
        }
        stats.corner("reconnect-after-unanswered-ping");
    }
    let Some(connack) = log.connack_of(j) else {
        stats.inconclusive.push(format!(
            "keep-alive scenario never got a CONNACK: {} {:?}",
            serde_json::to_string(case).unwrap_or_default(),
            log.brief(12)
        ));
        return out;
    };
    let t0 = connack.at;
    let err = log.end_of(j);
    let t_end = err.map(|p| p.at).unwrap_or(log.end_ms);
    let pings: Vec<Ms> = log
        .wire_of(j, Dir::C2B)
        .filter(|w| w.pk.kind == Kind::PingReq)
        .map(|w| w.at)
        .collect();
    let pongs: Vec<Ms> = log
        .wire_of(j, Dir::B2C)
        .filter(|w| w.pk.kind == Kind::PingResp)
        .map(|w| w.at)
        .collect();
    stats.opn("pingreq_seen", pings.len() as u64);
    stats.opn("pingresp_sent", pongs.len() as u64);

    // effective keep-alive: v5 lets the server override it
    let mut k_eff = k;
    if let Family::ServerKeepAlive { s } = &case.family {
        k_eff = *s as u64 * 1000;
    }

    if k_eff == 0 {
        // keep-alive zero: never pings (and the connection stays up)
        stats.oracle("zero-keepalive");
        stats.corner("zero-keepalive");
        // what the client handed to the transport counts, whether or not the broker got to read it
        let written: Vec<Ms> = log
            .polls
            .iter()
            .filter(|p| p.is(false, Kind::PingReq))
            .map(|p| p.at)
            .collect();
        let intended = log
            .conns
            .iter()
            .flat_map(|c| c.intended.iter())
            .filter(|f| f.pk.kind == Kind::PingReq)
            .count();
        if let Some(first) = pings.first().or(written.first()) {
            out.push(
                base(
                    "zero-keepalive-ping",
                    format!(
                        "keep-alive 0 but a PINGREQ was written at {first} ms ({} seen by the broker, {} announced by poll(), {} handed to the transport){}",
                        pings.len(),
                        written.len(),
                        intended,
                        err.map(|e| format!("; then {}", e.brief())).unwrap_or_default()
                    ),
                )
                .fact("via", if matches!(case.family, Family::ServerKeepAlive { .. }) { "server_keep_alive" } else { "options" }),
            );
        } else if let Some(e) = err {
            if e.at + TOL < log.end_ms.min(case.run_ms) {
                stats.inconclusive.push(format!("zero keep-alive run failed early: {}", e.brief()));
            }
        }
        return out;
    }

    // (a) a PINGREQ at least once per interval, over the whole established lifetime
    stats.oracle("ping-interval");
    let stalled = matches!(case.family, Family::Stall { .. });
    let mut prev = t0;
    let mut worst = 0;
    // once the transport accepts no more bytes the client *cannot* send: the interval clause is
    // judged up to that point, the detection clause (b) afterwards
    let interval_end = match &case.family {
        Family::Stall { at } => t_end.min(t0.max(*at)),
        _ => t_end,
    };
    for t in pings.iter().copied().filter(|t| *t <= interval_end).chain(std::iter::once(interval_end)) {
        worst = worst.max(t.saturating_sub(prev));
        prev = t;
    }
    if worst > k_eff + TOL {
        out.push(
            base(
                "ping-interval",
                format!("{worst} ms without a PINGREQ on an established connection (keep-alive {k_eff} ms)"),
            )
            .fact("write_blocked", stalled),
        );
        return out;
    }

    // (b) broker stopped answering pings at T_s: failure reported by T_s + 2K
    let stopped_at: Option<Ms> = match &case.family {
        Family::Silence { at } | Family::Stall { at } => Some(t0.max(*at)),
        Family::PingDelay {
            delay: PingDelay::Never, ..
        } => Some(pongs.last().copied().unwrap_or(t0)),
        _ => None,
    };
    if let Some(ts) = stopped_at {
        let deadline = ts + 2 * k_eff + TOL;
        if case.run_ms + 2 * k_eff >= deadline {
            stats.oracle("silence-detected");
            stats.corner("silence");
            let reported = err.map(|e| e.at);
            if reported.map(|r| r > deadline).unwrap_or(true) {
                out.push(
                    base(
                        "silence-not-detected",
                        format!(
                            "broker stopped answering at {ts} ms; no failure reported by {deadline} ms (reported: {reported:?})"
                        ),
                    )
                    .fact("write_blocked", stalled),
                );
                return out;
            }
        }
    }

    // (c) no keep-alive failure while every PINGREQ is answered within the interval
    if let Some(e) = err {
        let keepalive_failure = matches!(e.err().unwrap().class, ErrClass::AwaitPingResp);
        // answered strictly within the interval, and before the failure
        let all_answered = pings.iter().filter(|p| **p < e.at).all(|p| {
            pongs.iter().any(|q| *q >= *p && *q + 1 <= *p + k_eff && *q < e.at)
        });
        let tie = matches!(&case.family, Family::PingDelay { delay: PingDelay::Ms(d), .. } if *d == k_eff);
        if keepalive_failure && all_answered && !tie {
            stats.oracle("no-false-alarm");
            out.push(base(
                "false-keepalive-failure",
                format!(
                    "keep-alive failure at {} ms although every PINGREQ ({:?}) was answered within the interval ({:?})",
                    e.at, pings, pongs
                ),
            ));
            return out;
        }
        if tie {
            stats.add_extra("tie_runs_failed", 1);
        }
        if !keepalive_failure && stopped_at.is_none() && e.at < case.run_ms {
            stats.inconclusive.push(format!("unexpected failure in a keep-alive scenario: {}", e.brief()));
        }
    } else {
        if matches!(&case.family, Family::PingDelay { delay: PingDelay::Ms(d), .. } if *d == k_eff) {
            stats.add_extra("tie_runs_survived", 1);
        }
        let answered_in_time = !pings.is_empty()
            && pings
                .iter()
                .filter(|p| **p + k_eff < t_end)
                .all(|p| pongs.iter().any(|q| *q >= *p && *q + 1 <= *p + k_eff));
        if answered_in_time {
            stats.oracle("no-false-alarm");
            if let Family::PingDelay {
                delay: PingDelay::Ms(d), ..
            } = &case.family
            {
                if *d + 1 == k_eff {
                    stats.corner("pingresp-at-K-1ms");
                }
            }
        }
    }
    out
}

fn run_case(ctx: &Ctx, stats: &mut Stats, case: &Case) {
    let scn = build(case);
    let log = s3::run(&scn);
    stats.evaluations += 1;
    stats.op(&format!(
        "family:{}",
        match &case.family {
            Family::PingDelay { .. } => "ping-delay",
            Family::Silence { .. } => "silence",
            Family::Stall { .. } => "stall",
            Family::Zero { .. } => "zero",
            Family::Reconnect { .. } => "reconnect",
            Family::ServerKeepAlive { .. } => "server-keep-alive",
            Family::Connect { .. } => "connect",
        }
    ));
    stats.opn("poll_returns", log.polls.len() as u64);
    stats.opn("wire_frames", log.wire.len() as u64);
    stats.add_extra("virtual_seconds", log.end_ms / 1000);
    if log.panic.is_some() {
        stats.panics_caught += 1;
    }
    if let Some(e) = &log.harness_error {
        stats.inconclusive.push(format!("harness: {e}"));
        return;
    }
    if case.incoming.is_some() || case.outgoing.is_some() || !matches!(case.family, Family::PingDelay { delay: PingDelay::Ms(0), .. })
    {
        stats.shapes.insert(shape(case));
    }
    if let Ok(pat) = std::env::var("VERIF_DUMP") {
        let text = serde_json::to_string(case).unwrap_or_default();
        if text.contains(&pat) {
            println!("--- {text}");
            for l in log.brief(60) {
                println!("    {l}");
            }
        }
    }
    let records = verdicts(case, &log, stats);
    if stats.samples.len() < 3 && (stats.evaluations % 97 == 1) {
        stats.sample(json!({"case": case, "observed": log.brief(40)}));
    }
    for r in records {
        let replay = || json!({"case": case, "observed": log.brief(400)});
        if let Judged::Known(_) = judge(ctx, stats, r, replay) {
            break;
        }
    }
}

// ---------------------------------------------------------------- workload

fn versions() -> [(&'static str, &'static [u64]); 2] {
    [("v4", &[1, 2, 5, 60]), ("v5", &[5, 60])]
}

fn flows(rng: &mut Rng, k: u64, slot: u64, jitter: bool) -> Vec<(Option<Flow>, Option<Flow>)> {
    let j = |rng: &mut Rng| if jitter { rng.below(k / 8) } else { 0 };
    let phase = slot * k / 8;
    let period = *rng.pick(&[k / 4, k / 2, k, k - 1, 2 * k]);
    let q_in = rng.below(2) as u8;
    let q_out = rng.below(2) as u8;
    let fin = Flow {
        phase: phase + j(rng),
        period,
        qos: q_in,
        pad: 0,
    };
    let fout = Flow {
        phase: phase + j(rng),
        period,
        qos: q_out,
        pad: 0,
    };
    vec![
        (None, None),
        (Some(fin.clone()), None),
        (None, Some(fout.clone())),
        (Some(fin), Some(fout)),
    ]
}

fn workload(ctx: &Ctx, shard: usize, seed: u64) -> Stats {
    let mut stats = Stats::default();
    let mut rng = Rng::new(seed);
    // round 0 of shard 0 enumerates the grid exactly; every other round adds seeded jitter to
    // phases / periods / ping indices / connect timings around it
    let rounds = ctx.size(6, 120);
    for round in 0..rounds {
        let jitter = round > 0 || shard > 0;
        for (ver, ks) in versions() {
            for &ks in ks {
                let k = ks * 1000;
                // (1) PINGRESP delay × first delayed ping × traffic × phase
                let delays = [
                    PingDelay::Ms(0),
                    PingDelay::Ms(k / 4),
                    PingDelay::Ms(k / 2),
                    PingDelay::Ms(k - 1),
                    PingDelay::Ms(k),
                    PingDelay::Ms(k + 1),
                    PingDelay::Never,
                ];
                for delay in &delays {
                    for from_ping in 0..3usize {
                        for slot in 0..8u64 {
                            for (incoming, outgoing) in flows(&mut rng, k, slot, jitter) {
                                // a tie is run several times so both select! orders are seen
                                let reps = if *delay == PingDelay::Ms(k) { 2 } else { 1 };
                                for _ in 0..reps {
                                    let case = Case {
                                        ver: ver.into(),
                                        k_s: ks,
                                        family: Family::PingDelay {
                                            delay: delay.clone(),
                                            from_ping: if jitter { from_ping + rng.below(3) as usize } else { from_ping },
                                        },
                                        incoming: incoming.clone(),
                                        outgoing: outgoing.clone(),
                                        run_ms: 6 * k + 500,
                                    };
                                    run_case(ctx, &mut stats, &case);
                                }
                            }
                        }
                    }
                }
                // (2) silence from T, T on a K/8 grid over two intervals
                for slot in 0..=16u64 {
                    for (incoming, outgoing) in flows(&mut rng, k, slot % 8, jitter) {
                        let at = (slot * k / 8 + if jitter { rng.below(k / 8) } else { 0 }).max(1);
                        let case = Case {
                            ver: ver.into(),
                            k_s: ks,
                            family: Family::Silence { at },
                            incoming,
                            outgoing,
                            run_ms: at + 3 * k,
                        };
                        run_case(ctx, &mut stats, &case);
                    }
                }
            }
            // (3) connect / handshake timeout
            for timeout_s in [1u64, 3, 5] {
                let t = timeout_s * 1000;
                let mut variants: Vec<(Option<u64>, Option<u64>, bool)> = vec![
                    (None, None, false),         // transport never connects
                    (Some(0), None, false),      // CONNACK never sent
                    (Some(t / 2), None, false),  // slow transport, then no CONNACK
                    (Some(0), Some(0), true),    // truncated CONNACK
                    (Some(0), Some(t - 1), false),
                    (Some(0), Some(t), false),
                    (Some(0), Some(t + 1), false),
                    (Some(t / 2), Some(t / 2 - 1), false),
                    (Some(t / 2), Some(t / 2 + 1), false),
                    (Some(t - 1), Some(0), false),
                    (Some(t + 1), Some(0), false),
                    (Some(0), Some(0), false),
                    (Some(t / 4), Some(t / 4), false),
                ];
                if jitter {
                    for _ in 0..6 {
                        let a = rng.below(t + 200);
                        let c = rng.below(t + 200);
                        variants.push((Some(a), Some(c), false));
                    }
                }
                for (accept, connack, partial) in variants {
                    for second in [false, true] {
                        let case = Case {
                            ver: ver.into(),
                            k_s: 5,
                            family: Family::Connect {
                                accept,
                                connack,
                                partial,
                                second,
                                timeout_s,
                            },
                            incoming: None,
                            outgoing: None,
                            run_ms: 0,
                        };
                        run_case(ctx, &mut stats, &case);
                    }
                }
            }
        }
        // (7) a connection that ends with a PINGREQ outstanding, then a healthy one on the same event loop
        for (ver, ks) in [("v4", 1u64), ("v4", 5), ("v5", 5), ("v5", 60)] {
            let k = ks * 1000;
            for reset in [false, true] {
                for slot in [1u64, 3, 6] {
                    for (incoming, outgoing) in flows(&mut rng, k, slot, jitter) {
                        let j = if jitter { rng.below(k / 8) } else { 0 };
                        // silence: anywhere in the first interval; reset: strictly between the first ping (K) and the second tick (2K)
                        let at = if reset { k + (slot * k / 8 + j).clamp(1, k - 1) } else { (slot * k / 8 + j).max(1) };
                        let case = Case {
                            ver: ver.into(),
                            k_s: ks,
                            family: Family::Reconnect { at, reset },
                            incoming,
                            outgoing: if reset { None } else { outgoing },
                            run_ms: at + 2 * k + 3 * k + 500,
                        };
                        run_case(ctx, &mut stats, &case);
                    }
                }
            }
        }
        // (5) MQTT 5: the server overrides the keep-alive in the CONNACK
        for sk in [0u16, 1, 2, 7] {
            for slot in [0u64, 5] {
                for (incoming, outgoing) in flows(&mut rng, 8000, slot, jitter) {
                    let case = Case {
                        ver: "v5".into(),
                        k_s: 5,
                        family: Family::ServerKeepAlive { s: sk },
                        incoming,
                        outgoing,
                        run_ms: 30_000,
                    };
                    run_case(ctx, &mut stats, &case);
                }
            }
        }
        // (6) the peer stops reading (and answering) while the user keeps publishing: the pipe
        // fills up and the client blocks in a write
        for (ver, ks) in [("v4", 5u64), ("v4", 60), ("v5", 5), ("v5", 60)] {
            let k = ks * 1000;
            for slot in [1u64, 4, 9, 13] {
                let at = slot * k / 8 + if jitter { rng.below(k / 8) } else { 0 };
                let case = Case {
                    ver: ver.into(),
                    k_s: ks,
                    family: Family::Stall { at },
                    incoming: None,
                    outgoing: Some(Flow {
                        phase: 100,
                        period: 1000,
                        qos: (slot % 2) as u8,
                        pad: 300,
                    }),
                    run_ms: at + 3 * k,
                };
                run_case(ctx, &mut stats, &case);
            }
        }
        // (4) keep-alive zero (v4 options accept it): 10^4 virtual seconds, with and without traffic
        for slot in [0u64, 3] {
            for (incoming, outgoing) in flows(&mut rng, 8000, slot, jitter) {
                let widen = |f: Option<Flow>| {
                    f.map(|mut f| {
                        f.period = 100_000 + f.period * 50;
                        f
                    })
                };
                let case = Case {
                    ver: "v4".into(),
                    k_s: 0,
                    family: Family::Zero { for_s: 10_000 },
                    incoming: widen(incoming),
                    outgoing: widen(outgoing),
                    run_ms: 10_000_000,
                };
                run_case(ctx, &mut stats, &case);
            }
        }
    }
    stats
}

fn run(ctx: &Ctx) -> Stats {
    let mut stats = if ctx.quick() {
        workload(ctx, 0, ctx.seed.wrapping_mul(1000))
    } else {
        sharded(ctx, ctx.threads, |shard, seed| workload(ctx, shard, seed))
    };
    // real-time supplement (timer starvation cannot manifest under the paused clock)
    super::c18_rt::run(ctx, &mut stats);
    stats.exhaustive_scopes.push(
        "per client version and keep-alive K: PINGRESP delay {0,K/4,K/2,K-1ms,K,K+1ms,never} x first delayed ping {0,1,2} x traffic {none,in,out,both} x phase slot 0..7 (K/8 grid); silence start on the K/8 grid over [0,2K]; 13 connect/handshake timings x {first,second connection} x timeout {1,3,5}s".into(),
    );
    stats
}

fn replay(ctx: &Ctx, doc: &Value) -> Stats {
    let mut stats = Stats::default();
    match serde_json::from_value::<Case>(doc["case"].clone()) {
        Ok(case) => {
            // a tie-prone case is re-executed several times (select! order is random on exact ties)
            for _ in 0..8 {
                run_case(ctx, &mut stats, &case);
            }
            stats.shapes.insert(1);
            stats.shapes.insert(2);
        }
        Err(e) => stats.inconclusive.push(format!("replay file has no usable case: {e}")),
    }
    stats
}

pub fn prop() -> Prop {
    Prop {
        id: "C18",
        meta: Meta {
            level: "exploration",
            rule: "a case = (client version, keep-alive K, scenario family with its parameters, incoming flow, outgoing flow); distinct = distinct tuple after abstracting phases/periods to their K/8 slot and delays to their class {n/8, K-1ms, K, K+1ms, never}; non-trivial = anything but the undisturbed no-traffic run",
            assumptions: &[
                "poll() is called again immediately after every return (the statement's keep-alive clauses presuppose a polled event loop)",
                "virtual time (tokio paused clock): deadlines are judged with a 5 ms tolerance; exact ties (PINGRESP exactly at K, CONNACK exactly at the timeout) are run but not judged",
                "keep-alive zero is reachable through the 3.1.1 options only (the MQTT 5 options assert >= 5 s)",
            ],
            floors: &[
                ("pingresp-at-K-1ms", 20),
                ("silence", 100),
                ("zero-keepalive", 4),
                ("reconnect-after-unanswered-ping", 20),
                ("connect-timeout", 20),
                ("ping-interval", 500),
                ("no-false-alarm", 200),
            ],
        },
        run,
        replay: Some(replay),
    }
}
