//! C19: broker admission (valid authenticated CONNECT only), one session per client id,
//! never more live connections than `max_connections`.
//!
//! Deciding substrate S6 (full stack: the real per-connection task with `mqtt_connect`,
//! `handle_auth`, `RemoteLink::new`, the router's `handle_new_connection`) plus the router
//! half on S4 (`s4parts::c19_plan`).
//!
//! Part A (admission): a first packet is written to a listener (protocol version x
//! authentication configuration); the oracle is the predicate `admissible` below, written
//! from the statement; observed are the CONNACK decoded with the client crate's codec, an
//! effect probe (is a SUBSCRIBE answered, does a PUBLISH reach a witness subscriber) and the
//! router snapshot (`connection_map`).
//! Part B (uniqueness / limit): connect / close / DISCONNECT / take-over histories, with
//! concurrent bursts, against `max_connections` in {1,2,3}; after every step every
//! connection the model holds live is pinged: the number of connections that answer never
//! exceeds the maximum, no two of them share a client id, and a valid CONNECT is refused
//! only when the limit is reached.
use super::s4common;
use super::s4parts;
use super::{Meta, Prop};
use crate::common::{fnv, judge, sharded, Ctx, Judged, Record, Rng, Stats};
use crate::gen::canon::{self, Canon, Dir, Sizes};
use crate::sub::s6::{self, helper_client, Auth, Broker, ConnOutcome, Got, ListenerCfg, Raw, Rt, S6Err, TaskEnd, Ver};
use serde::{Deserialize, Serialize};
use serde_json::{json, Value};

// ---------------------------------------------------------------- listeners

fn stat_map() -> Vec<(String, String)> {
    vec![("alice".into(), "wonder".into()), ("bob".into(), "builder".into())]
}
fn ext_set() -> Vec<(String, String)> {
    vec![("alice".into(), "wonder".into()), ("carol".into(), "sing".into())]
}

const AUTHS: usize = 4;

fn auth_cfg(i: usize) -> Auth {
    match i {
        0 => Auth::None,
        1 => Auth::Static(stat_map()),
        2 => Auth::External(ext_set()),
        _ => Auth::Both {
            stat: stat_map(),
            ext: ext_set(),
        },
    }
}

/// listener index = version index * AUTHS + auth index
fn listeners() -> Vec<ListenerCfg> {
    let mut v = vec![];
    for ver in [Ver::V4, Ver::V5] {
        for a in 0..AUTHS {
            v.push(ListenerCfg::with_auth(ver, auth_cfg(a)));
        }
    }
    v
}

fn listener_index(v5: bool, auth: usize) -> usize {
    (v5 as usize) * AUTHS + auth
}

// ---------------------------------------------------------------- part A: cases

#[derive(Clone, Debug, PartialEq, Eq, Serialize, Deserialize)]
pub enum First {
    /// a well-formed CONNECT of the listener's version
    Connect,
    /// a well-formed CONNECT of the other protocol version
    OtherVersion,
    /// CONNECT with this protocol name instead of "MQTT"
    BadName(String),
    /// CONNECT with this protocol level
    BadLevel(u8),
    /// a well-formed packet of another type
    OtherPacket(u8),
    /// only the first k bytes of a well-formed CONNECT, then end of input
    Truncated(usize),
    /// arbitrary bytes, then end of input
    Garbage(Vec<u8>),
}

#[derive(Clone, Debug, PartialEq, Eq, Serialize, Deserialize)]
pub struct AdmCase {
    pub n: u64,
    pub v5: bool,
    pub auth: usize,
    pub first: First,
    pub client_id: String,
    pub clean: bool,
    pub keep_alive: u16,
    pub user: Option<String>,
    pub pass: Option<String>,
    pub will: bool,
    /// number of writes the first packet is split into
    pub chunks: usize,
    /// the probe is written behind the CONNECT without waiting for the CONNACK
    pub pipelined: bool,
}

#[derive(Clone, Copy, Debug, PartialEq, Eq)]
enum Verdict {
    Admissible,
    Inadmissible(&'static str),
    /// the statement does not decide (both mechanisms configured and they disagree)
    Open,
}

fn accepts(pairs: &[(String, String)], user: &str, pass: &str) -> bool {
    pairs.iter().any(|(u, p)| u == user && p == pass)
}

/// Credentials against the listener's configuration, from the statement: with credentials or
/// a callback configured, the login must be present and accepted by the configuration.
fn auth_verdict(auth: &Auth, user: &Option<String>, pass: &Option<String>) -> Verdict {
    if *auth == Auth::None {
        return Verdict::Admissible;
    }
    let Some(user) = user else {
        return Verdict::Inadmissible("login-absent");
    };
    let pass = pass.clone().unwrap_or_default();
    let (s, e) = match auth {
        Auth::None => unreachable!(),
        Auth::Static(m) => (Some(accepts(m, user, &pass)), None),
        Auth::External(x) => (None, Some(accepts(x, user, &pass))),
        Auth::Both { stat, ext } => (Some(accepts(stat, user, &pass)), Some(accepts(ext, user, &pass))),
    };
    match (s, e) {
        (Some(true), None) | (None, Some(true)) | (Some(true), Some(true)) => Verdict::Admissible,
        (Some(false), None) | (None, Some(false)) | (Some(false), Some(false)) => Verdict::Inadmissible("credentials-rejected"),
        _ => Verdict::Open,
    }
}

/// The statement's admission predicate
fn admissible(c: &AdmCase) -> Verdict {
    match &c.first {
        First::Connect => {}
        First::OtherVersion => return Verdict::Inadmissible("connect-of-other-version"),
        First::BadName(_) => return Verdict::Inadmissible("wrong-protocol-name"),
        First::BadLevel(_) => return Verdict::Inadmissible("wrong-protocol-level"),
        First::OtherPacket(_) => return Verdict::Inadmissible("first-packet-not-connect"),
        First::Truncated(_) => return Verdict::Inadmissible("truncated-connect"),
        First::Garbage(_) => return Verdict::Inadmissible("garbage"),
    }
    if c.keep_alive == 0 {
        return Verdict::Inadmissible("zero-keep-alive");
    }
    if c.client_id.chars().any(|ch| "+$#/".contains(ch)) {
        return Verdict::Inadmissible("client-id-metacharacter");
    }
    if c.client_id.is_empty() && !c.clean {
        return Verdict::Inadmissible("empty-client-id-without-clean-session");
    }
    auth_verdict(&auth_cfg(c.auth), &c.user, &c.pass)
}

fn connect_canon(c: &AdmCase, version: u8) -> Canon {
    let mut k = s6::connect(version, &c.client_id, c.clean, c.keep_alive);
    k = s6::with_login(k, c.user.as_deref(), c.pass.as_deref());
    if c.will {
        k = s6::with_will(k, &format!("c19will/{}", c.n), b"w", 0, false, vec![]);
    }
    k
}

/// The bytes of the first packet
fn first_bytes(c: &AdmCase, rng: &mut Rng) -> Vec<u8> {
    let v = if c.v5 { 5 } else { 4 };
    match &c.first {
        First::Connect => canon::encode(&connect_canon(c, v)),
        First::OtherVersion => canon::encode(&connect_canon(c, if c.v5 { 4 } else { 5 })),
        First::BadName(name) => {
            // re-encode with another protocol name: variable header starts right behind the fixed header
            let good = canon::encode(&connect_canon(c, v));
            let mut i = 1;
            while good[i] & 0x80 != 0 {
                i += 1;
            }
            let body = &good[i + 1..];
            // body = 00 04 'M' 'Q' 'T' 'T' level ...
            let mut nb = vec![0, name.len() as u8];
            nb.extend_from_slice(name.as_bytes());
            nb.extend_from_slice(&body[6..]);
            let mut out = vec![0x10];
            let mut x = nb.len();
            loop {
                let mut b = (x % 128) as u8;
                x /= 128;
                if x > 0 {
                    b |= 0x80;
                }
                out.push(b);
                if x == 0 {
                    break;
                }
            }
            out.extend_from_slice(&nb);
            out
        }
        First::BadLevel(l) => {
            let mut good = canon::encode(&connect_canon(c, v));
            let mut i = 1;
            while good[i] & 0x80 != 0 {
                i += 1;
            }
            good[i + 1 + 6] = *l;
            good
        }
        First::OtherPacket(t) => {
            let dir = if canon::is_c2s(*t, v) { Dir::C2S } else { Dir::S2C };
            canon::encode(&canon::random(rng, v, *t, dir, &Sizes::small()))
        }
        First::Truncated(k) => {
            let good = canon::encode(&connect_canon(c, v));
            good[..(*k).min(good.len() - 1)].to_vec()
        }
        First::Garbage(b) => b.clone(),
    }
}

#[derive(Clone, Debug, Default, Serialize)]
pub struct AdmObs {
    pub first_hex: String,
    pub outcome: String,
    pub connack_success: bool,
    pub suback: bool,
    pub in_connection_map: bool,
    pub witness_got_probe: bool,
    /// what changed in the router's own view of its sessions (connection map, saved sessions, wills, subscriptions)
    /// between the first byte and the end of this connection's task; empty = nothing
    pub router_state_change: String,
    /// a live connection with the same client id existed before the attempt ...
    pub victim: bool,
    /// ... and still answered a PINGREQ afterwards
    pub victim_alive: bool,
    pub task: String,
    pub task_panic_site: Option<String>,
}

struct AdmCtx<'a> {
    b: &'a Broker,
    witness: &'a mut Raw,
    publisher: &'a mut Raw,
}

async fn run_adm(cx: &mut AdmCtx<'_>, c: &AdmCase, bytes: &[u8], expect_admission: bool) -> Result<AdmObs, S6Err> {
    let b = cx.b;
    let mut obs = AdmObs {
        first_hex: bytes.iter().take(48).map(|x| format!("{x:02x}")).collect::<String>(),
        ..Default::default()
    };
    let v = if c.v5 { 5 } else { 4 };
    // every second case with a usable client id: somebody is already connected under that id
    let mut victim = if c.n % 2 == 0 && !c.client_id.is_empty() && !c.client_id.contains(['+', '#', '$', '/']) {
        obs.victim = true;
        Some(helper_client(b, if c.n % 4 == 0 { Ver::V4 } else { Ver::V5 }, &c.client_id).await?)
    } else {
        None
    };
    // (cases run one after the other on this broker: whatever changes in the router meanwhile is ours)
    let view = |s: &rumqttd::verif::RouterSnapshot| {
        let v = serde_json::to_value(s).unwrap_or(Value::Null);
        json!({"connection_map": v["connection_map"], "graveyard": v["graveyard"], "wills": v["wills"], "subscription_map": v["subscription_map"], "total_connections": v["total_connections"]})
    };
    let state_before = view(&b.barrier().await?);
    let mut x = b.open(listener_index(c.v5, c.auth));
    x.auto_ack = false;
    let probe_topic = format!("wit/{}", c.n);
    let probe_payload = format!("probe:{}", c.n).into_bytes();
    let mut sub = Canon::empty(v, canon::SUBSCRIBE);
    sub.pkid = 1;
    sub.filters = vec![(format!("probe{}", c.n), 0)];
    let mut publ = Canon::empty(v, canon::PUBLISH);
    publ.topic = probe_topic.clone().into_bytes();
    publ.payload = probe_payload.clone();
    let mut probe = canon::encode(&sub);
    probe.extend_from_slice(&canon::encode(&publ));
    probe.extend_from_slice(&canon::encode(&Canon::empty(v, canon::PINGREQ)));

    // the first packet, possibly in several writes
    let chunks = c.chunks.clamp(1, bytes.len().max(1));
    let step = bytes.len().div_ceil(chunks).max(1);
    for part in bytes.chunks(step) {
        x.write(part).await?;
        tokio::task::yield_now().await;
    }
    let complete_packet = !matches!(c.first, First::Truncated(_) | First::Garbage(_));
    // (nothing may follow an incomplete first packet: further bytes would complete its frame)
    if c.pipelined && complete_packet {
        x.write(&probe).await?;
    }
    if !complete_packet {
        // an incomplete first packet: end of input instead of waiting for the connection timeout
        x.half_close().await;
    }
    // CONNACK or end of stream
    let out = x.connack().await?;
    obs.outcome = out.brief();
    obs.connack_success = out.accepted();
    if obs.connack_success {
        if !c.pipelined && complete_packet {
            x.write(&probe).await?;
        }
        // SUBACK and PINGRESP, or end of stream
        loop {
            match x.next().await? {
                Got::Packet(p) if p.ptype == canon::SUBACK => obs.suback = true,
                Got::Packet(p) if p.ptype == canon::PINGRESP => break,
                Got::Packet(_) => {}
                Got::Closed | Got::Bad(_) => break,
            }
        }
        let snap = b.barrier().await?;
        if !c.client_id.is_empty() {
            obs.in_connection_map = snap.connection_map.iter().any(|(id, _)| *id == c.client_id);
        } else {
            obs.in_connection_map = snap.connection_map.iter().any(|(id, _)| id.starts_with("rumqtt-"));
        }
    } else if expect_admission || matches!(out, ConnOutcome::Ack { .. }) {
        // refused: wait for the broker to end the connection
        x.until_closed().await?;
    } else {
        x.until_closed().await?;
    }
    x.close();
    let end = x.join().await?;
    obs.task = match &end {
        TaskEnd::Returned => "returned".into(),
        TaskEnd::Panicked { location, message } => {
            obs.task_panic_site = Some(location.split(':').next().unwrap_or("?").to_owned());
            format!("panicked at {location}: {message}")
        }
    };
    // did the probe publish reach the witness? (sentinel through the same log)
    let state_after = view(&b.barrier().await?);
    if state_after != state_before {
        let keys = ["connection_map", "graveyard", "wills", "subscription_map", "total_connections"];
        obs.router_state_change = keys.iter().filter(|k| state_before[**k] != state_after[**k]).map(|k| format!("{k}: {} -> {}", state_before[*k], state_after[*k])).collect::<Vec<_>>().join("; ");
    }
    if let Some(v) = victim.as_mut() {
        obs.victim_alive = v.is_open() && v.ping().await.unwrap_or(false);
        v.close();
        v.join().await?;
        b.barrier().await?;
    }
    let s = format!("sentinel:{}", c.n).into_bytes();
    cx.publisher.publish(format!("wit/s{}", c.n).as_bytes(), &s, 0, false, vec![]).await?;
    let before = cx.witness.pubs.len();
    if !cx.witness.until_payload(&s).await? {
        return Err(S6Err::Harness("witness lost its connection".into()));
    }
    obs.witness_got_probe = cx.witness.pubs[before..].iter().any(|p| p.payload == probe_payload);
    Ok(obs)
}

fn adm_record(c: &AdmCase, oracle: &str, why: &str, msg: String) -> Record {
    Record::new("C19", oracle, msg)
        .fact("substrate", "S6")
        .fact("listener", if c.v5 { "v5" } else { "v4" })
        .fact("auth", format!("{:?}", auth_cfg(c.auth)).split(['(', ' ', '{']).next().unwrap_or("").to_owned())
        .fact("first", format!("{:?}", c.first).split(['(', ' ']).next().unwrap_or("").to_owned())
        .fact("reason", why)
}

fn check_adm(c: &AdmCase, obs: &AdmObs, stats: &mut Stats) -> Option<Record> {
    match admissible(c) {
        Verdict::Open => {
            stats.oracle("admission-open");
            stats.op(if obs.connack_success { "open:accepted" } else { "open:refused" });
            None
        }
        Verdict::Inadmissible(why) => {
            stats.oracle("inadmissible-refused");
            if obs.victim {
                stats.corner("inadmissible-connect-under-a-live-client-id");
            }
            stats.op(&format!("inadmissible:{why}"));
            if obs.connack_success {
                return Some(adm_record(c, "inadmissible-accepted", why, format!("first packet is inadmissible ({why}) but got a successful CONNACK")));
            }
            if obs.suback || obs.witness_got_probe || obs.in_connection_map || !obs.router_state_change.is_empty() || (obs.victim && !obs.victim_alive) {
                return Some(
                    adm_record(
                        c,
                        "inadmissible-effect",
                        why,
                        format!(
                            "inadmissible first packet ({why}) reached the routing core: suback={} forwarded={} registered={} router state changed: [{}]{}",
                            obs.suback,
                            obs.witness_got_probe,
                            obs.in_connection_map,
                            obs.router_state_change,
                            if obs.victim && !obs.victim_alive { "; the live connection under that client id was dropped" } else { "" }
                        ),
                    )
                    .fact("suback", obs.suback)
                    .fact("forwarded", obs.witness_got_probe)
                    .fact("router_state_changed", !obs.router_state_change.is_empty())
                    .fact("live_connection_dropped", obs.victim && !obs.victim_alive),
                );
            }
            None
        }
        Verdict::Admissible => {
            stats.oracle("admissible-accepted");
            stats.op("admissible");
            if !obs.connack_success {
                let mut r = adm_record(c, "admissible-refused", "valid", format!("a valid, authenticated CONNECT was refused: {} (task {})", obs.outcome, obs.task))
                    .fact("context", "single");
                if let Some(site) = &obs.task_panic_site {
                    r = r.fact("task", "panicked").fact("panic_site", site.clone());
                }
                return Some(r);
            }
            if !obs.suback || !obs.witness_got_probe || !obs.in_connection_map {
                return Some(adm_record(
                    c,
                    "admissible-no-effect",
                    "valid",
                    format!(
                        "an admitted connection had no session: suback={} forwarded={} registered={}",
                        obs.suback, obs.witness_got_probe, obs.in_connection_map
                    ),
                ));
            }
            None
        }
    }
}

const IDS_OK: &[&str] = &["dev", "a", "A-1_b.c", "é漢", "0", "with space", "x%y", "very-long-client-identifier-0123456789-0123456789"];
const IDS_BAD: &[&str] = &["+", "#", "$", "/", "a/b", "a+b", "#x", "x#", "$SYS", "sport/+/x", "a$", "/x", "x/"];

fn logins() -> Vec<(Option<String>, Option<String>)> {
    let s = |x: &str| Some(x.to_owned());
    vec![
        (None, None),
        (s("alice"), s("wonder")),
        (s("alice"), s("wrong")),
        (s("alice"), s("wonde")),
        (s("alice"), s("wonderx")),
        (s("alice"), None),
        (s("mallory"), s("wonder")),
        (s(""), s("")),
        (s("bob"), s("builder")),
        (s("carol"), s("sing")),
        (s("ALICE"), s("wonder")),
    ]
}

fn base_case(n: u64, v5: bool) -> AdmCase {
    AdmCase {
        n,
        v5,
        auth: 0,
        first: First::Connect,
        client_id: format!("adm{n}"),
        clean: true,
        keep_alive: 30,
        user: None,
        pass: None,
        will: false,
        chunks: 1,
        pipelined: false,
    }
}

/// Directed enumerations (exhaustive small scopes)
fn directed_cases(counter: &mut u64, rng: &mut Rng, shard: usize, shards: usize) -> Vec<AdmCase> {
    let mut out = vec![];
    let next = |counter: &mut u64| {
        *counter += 1;
        *counter
    };
    for v5 in [false, true] {
        // every packet type as first packet
        for t in 2..=(if v5 { 15u8 } else { 14u8 }) {
            let mut c = base_case(next(counter), v5);
            c.first = First::OtherPacket(t);
            out.push(c);
        }
        // version / name / level
        let mut c = base_case(next(counter), v5);
        c.first = First::OtherVersion;
        out.push(c);
        for name in ["MQIsdp", "MQTX", "mqtt", "MQT", ""] {
            let mut c = base_case(next(counter), v5);
            c.first = First::BadName(name.into());
            out.push(c);
        }
        for l in [0u8, 3, 6, 255, if v5 { 4 } else { 5 }] {
            let mut c = base_case(next(counter), v5);
            c.first = First::BadLevel(l);
            out.push(c);
        }
        // authentication matrix
        for auth in 0..AUTHS {
            for (u, p) in logins() {
                let mut c = base_case(next(counter), v5);
                c.auth = auth;
                c.user = u;
                c.pass = p;
                out.push(c);
            }
        }
        // client ids
        for id in IDS_BAD {
            let mut c = base_case(next(counter), v5);
            c.client_id = format!("{id}{}", c.n);
            out.push(c);
            let mut c = base_case(next(counter), v5);
            c.client_id = format!("{}{id}", c.n);
            out.push(c);
        }
        for id in IDS_OK {
            let mut c = base_case(next(counter), v5);
            c.client_id = format!("{id}{}", c.n);
            out.push(c);
        }
        for clean in [true, false] {
            let mut c = base_case(next(counter), v5);
            c.client_id = String::new();
            c.clean = clean;
            out.push(c);
        }
        // keep-alive
        for ka in [0u16, 1, 65535] {
            for auth in [0usize, 1] {
                let mut c = base_case(next(counter), v5);
                c.keep_alive = ka;
                c.auth = auth;
                if auth == 1 {
                    c.user = Some("alice".into());
                    c.pass = Some("wonder".into());
                }
                out.push(c);
            }
        }
        // every proper prefix of one CONNECT
        let mut proto = base_case(0, v5);
        proto.client_id = "trunc".into();
        proto.user = Some("alice".into());
        proto.pass = Some("wonder".into());
        let full = canon::encode(&connect_canon(&proto, if v5 { 5 } else { 4 })).len();
        for k in 0..full {
            let mut c = base_case(next(counter), v5);
            c.client_id = "trunc".into();
            c.user = proto.user.clone();
            c.pass = proto.pass.clone();
            c.first = First::Truncated(k);
            out.push(c);
        }
    }
    let _ = rng;
    // shards split the directed list
    out.into_iter().enumerate().filter(|(i, _)| i % shards == shard % shards).map(|(_, c)| c).collect()
}

fn random_case(n: u64, rng: &mut Rng) -> AdmCase {
    let v5 = rng.chance(1, 2);
    let mut c = base_case(n, v5);
    c.auth = rng.below(AUTHS as u64) as usize;
    let (u, p) = rng.pick(&logins()).clone();
    // mostly right credentials so that the other clauses are reached behind authentication
    if c.auth != 0 && rng.chance(1, 2) {
        c.user = Some("alice".into());
        c.pass = Some("wonder".into());
    } else {
        c.user = u;
        c.pass = p;
    }
    c.client_id = match rng.below(10) {
        0 => String::new(),
        1 | 2 => format!("{}{}", rng.pick(IDS_BAD), n),
        3 => format!("{}{}", n, rng.pick(IDS_BAD)),
        _ => format!("{}{}", rng.pick(IDS_OK), n),
    };
    c.clean = rng.chance(2, 3);
    c.keep_alive = match rng.below(8) {
        0 => 0,
        1 => 1,
        2 => 65535,
        _ => rng.range(2, 600) as u16,
    };
    c.will = rng.chance(1, 4);
    c.chunks = *rng.pick(&[1, 1, 2, 3, 7]);
    c.pipelined = rng.chance(1, 4);
    c.first = match rng.below(12) {
        0 => First::OtherVersion,
        1 => First::BadLevel(*rng.pick(&[0, 3, 6, 7])),
        2 => First::OtherPacket(rng.range(2, if v5 { 15 } else { 14 }) as u8),
        3 => First::Truncated(rng.range(0, 40) as usize),
        4 => {
            let len = rng.range(1, 24) as usize;
            let mut b = canon::gen_bytes(rng, len);
            if rng.chance(1, 2) {
                b[0] = 0x10;
            }
            First::Garbage(b)
        }
        _ => First::Connect,
    };
    c
}

fn adm_shape(c: &AdmCase) -> u64 {
    let id_class = if c.client_id.is_empty() {
        "empty"
    } else if c.client_id.chars().any(|ch| "+$#/".contains(ch)) {
        "meta"
    } else {
        "ok"
    };
    let first = match &c.first {
        First::Truncated(k) => format!("T{k}"),
        First::Garbage(b) => format!("G{}:{:02x}", b.len(), b[0]),
        f => format!("{f:?}"),
    };
    let ka = match c.keep_alive {
        0 => 0,
        1 => 1,
        65535 => 3,
        _ => 2,
    };
    fnv(format!("{}|{}|{first}|{id_class}|{}|{ka}|{:?}|{:?}|{}|{}|{}", c.v5, c.auth, c.clean, c.user, c.pass, c.will, c.chunks.min(3), c.pipelined).as_bytes())
}

fn adm_doc(c: &AdmCase, obs: &AdmObs) -> Value {
    json!({"substrate": "S6", "part": "admission", "case": c, "observed": obs,
           "auth_config": format!("{:?}", auth_cfg(c.auth)), "oracle_says": format!("{:?}", admissible(c))})
}

struct AdmBroker {
    b: Broker,
    witness: Raw,
    publisher: Raw,
}

fn adm_broker(rt: &Rt, tag: u64) -> Result<AdmBroker, S6Err> {
    let b = Broker::start(rt, s6::router_config(64), listeners());
    let (witness, publisher) = rt.block_on(async {
        let mut w = helper_client(&b, Ver::V4, &format!("c19wit{tag}")).await?;
        if w.subscribe("wit/#", 0, None).await?.is_none() {
            return Err(S6Err::Harness("witness got no SUBACK".into()));
        }
        let p = helper_client(&b, Ver::V4, &format!("c19pub{tag}")).await?;
        Ok((w, p))
    })?;
    Ok(AdmBroker { b, witness, publisher })
}

fn run_admission(ctx: &Ctx, rt: &Rt, cases: &[AdmCase], rng: &mut Rng, stats: &mut Stats) {
    let mut tag = cases.first().map(|c| c.n).unwrap_or(0);
    let mut ab: Option<AdmBroker> = None;
    let mut on_broker = 0;
    for c in cases {
        if ab.is_none() || on_broker >= 400 {
            tag += 1;
            match adm_broker(rt, tag) {
                Ok(x) => ab = Some(x),
                Err(e) => {
                    stats.inconclusive.push(format!("S6 admission broker: {e}"));
                    return;
                }
            }
            on_broker = 0;
        }
        on_broker += 1;
        let a = ab.as_mut().unwrap();
        let bytes = first_bytes(c, rng);
        let expect_admission = admissible(c) == Verdict::Admissible;
        let r = {
            let mut cx = AdmCtx {
                b: &a.b,
                witness: &mut a.witness,
                publisher: &mut a.publisher,
            };
            rt.block_on(run_adm(&mut cx, c, &bytes, expect_admission))
        };
        match r {
            Ok(obs) => {
                stats.evaluations += 1;
                stats.shapes.insert(adm_shape(c));
                stats.op(&format!("first:{}", format!("{:?}", c.first).split(['(', ' ']).next().unwrap_or("")));
                if c.chunks > 1 {
                    stats.corner("connect-in-several-writes");
                }
                if c.pipelined {
                    stats.corner("packets-pipelined-behind-connect");
                }
                if let Some(rec) = check_adm(c, &obs, stats) {
                    match judge(ctx, stats, rec, || adm_doc(c, &obs)) {
                        Judged::Known(_) | Judged::Violation => {}
                    }
                    ab = None;
                } else if stats.samples.len() < 2 && c.auth != 0 && c.first == First::Connect {
                    stats.sample(adm_doc(c, &obs));
                }
            }
            Err(S6Err::RouterGone(p)) => {
                let rec = Record::new("C19", "router-panic", format!("router thread ended during admission: {p:?}"))
                    .fact("site", p.as_ref().map(crate::common::panic_site).unwrap_or_default());
                judge(ctx, stats, rec, || json!({"substrate": "S6", "part": "admission", "case": c}));
                ab = None;
            }
            Err(e) => {
                stats.inconclusive.push(format!("S6 admission case {}: {e}", c.n));
                ab = None;
            }
        }
        if stats.violations.len() >= 3 || stats.inconclusive.len() >= 5 {
            break;
        }
    }
}

// ---------------------------------------------------------------- part B: uniqueness and limit

#[derive(Clone, Debug, PartialEq, Eq, Serialize, Deserialize)]
pub enum StormOp {
    /// CONNECT with this client id on the v4 (false) / v5 (true) listener
    Connect { id: String, v5: bool },
    /// several CONNECTs written before any answer is read
    Burst(Vec<(String, bool)>),
    /// close the socket of the live connection of this client id
    Close(String),
    /// DISCONNECT packet, then close
    Disconnect(String),
}

#[derive(Clone, Debug, Serialize, Deserialize)]
pub struct Storm {
    pub n: u64,
    pub max: usize,
    pub ops: Vec<StormOp>,
    /// client ids refused at the limit are used again (reproduces a known defect)
    pub reuse_refused_ids: bool,
}

#[derive(Default)]
struct Live {
    /// model: client id -> connection (None once the model considers it ended)
    conns: Vec<(String, Raw)>,
}

fn storm_record(st: &Storm, oracle: &str, step: usize, msg: String) -> Record {
    Record::new("C19", oracle, msg)
        .fact("substrate", "S6")
        .fact("max_connections", st.max as u64)
        .fact("step", step as u64)
}

/// Ping every connection the model holds live; returns the ids of those that answered and
/// removes the others from the model (reported, not judged: closing a connection is C14's subject)
async fn probe_live(live: &mut Live, notes: &mut Vec<String>) -> Result<Vec<String>, S6Err> {
    let mut answered = vec![];
    let mut keep = vec![];
    for (id, mut r) in live.conns.drain(..) {
        if r.ping().await? {
            answered.push(id.clone());
            keep.push((id, r));
        } else {
            notes.push(format!("connection of '{id}' no longer answers"));
            r.close();
            r.join().await?;
        }
    }
    live.conns = keep;
    Ok(answered)
}

async fn run_storm(b: &Broker, st: &Storm, log: &mut Vec<String>) -> Result<Option<Record>, S6Err> {
    let mut live = Live::default();
    let mut burned: Vec<String> = vec![];
    let mut takeovers = 0u64;
    let mut refused_at_limit = 0u64;
    for (step, op) in st.ops.iter().enumerate() {
        let mut attempts: Vec<(String, bool)> = vec![];
        match op {
            StormOp::Connect { id, v5 } => attempts.push((id.clone(), *v5)),
            StormOp::Burst(v) => attempts = v.clone(),
            StormOp::Close(id) | StormOp::Disconnect(id) => {
                if let Some(pos) = live.conns.iter().position(|(i, _)| i == id) {
                    let (_, mut r) = live.conns.remove(pos);
                    if matches!(op, StormOp::Disconnect(_)) {
                        r.disconnect().await?;
                    }
                    r.close();
                    r.join().await?;
                    b.barrier().await?;
                    log.push(format!("{step}: {op:?}"));
                } else {
                    log.push(format!("{step}: {op:?} (not live, skipped)"));
                }
                continue;
            }
        }
        if !st.reuse_refused_ids {
            attempts.retain(|(id, _)| !burned.contains(id));
        }
        if attempts.is_empty() {
            continue;
        }
        let before = live.conns.len();
        let live_ids: Vec<String> = live.conns.iter().map(|(i, _)| i.clone()).collect();
        let distinct_of = |a: &Vec<(String, bool)>| {
            let mut d: Vec<String> = vec![];
            for (id, _) in a {
                if !d.contains(id) {
                    d.push(id.clone());
                }
            }
            d
        };
        let mut distinct = distinct_of(&attempts);
        let brand_new = distinct.iter().filter(|i| !live_ids.contains(i)).count();
        if !st.reuse_refused_ids {
            // two connection tasks of one client id on one listener race on the listener's will-handler
            // table, and an attempt that loses leaves a dead entry there (known finding): at most one
            // attempt per (client id, listener) in a burst
            let mut once: Vec<(String, bool)> = vec![];
            for (id, v5) in attempts.drain(..) {
                let at_limit = before + brand_new > st.max;
                let dup = once.iter().any(|(i, v)| *i == id && (*v == v5 || at_limit));
                if !dup {
                    once.push((id, v5));
                }
            }
            attempts = once;
            distinct = distinct_of(&attempts);
        }
        let multi: Vec<String> = distinct.iter().filter(|d| attempts.iter().filter(|(i, _)| i == *d).count() > 1).cloned().collect();
        takeovers += (attempts.len() - brand_new) as u64;
        // write every CONNECT first, then read the answers
        let mut opened: Vec<(String, Raw)> = vec![];
        for (id, v5) in &attempts {
            let ver = if *v5 { Ver::V5 } else { Ver::V4 };
            let mut r = b.open(b.listener(ver));
            r.send(&s6::connect(s6::ver_num(ver), id, true, 60)).await?;
            opened.push((id.clone(), r));
        }
        let mut outcomes = vec![];
        for (id, r) in opened.iter_mut() {
            let out = r.connack().await?;
            outcomes.push((id.clone(), out));
        }
        b.barrier().await?;
        let _ = &distinct;
        let mut accepted_now = 0;
        let mut summary = vec![];
        let mut panic_site: Option<String> = None;
        for ((id, mut r), (_, out)) in opened.into_iter().zip(outcomes.iter()) {
            summary.push(format!("{id}:{}", if out.accepted() { "accepted" } else { "refused" }));
            if out.accepted() {
                accepted_now += 1;
                live.conns.push((id, r));
            } else {
                let end = {
                    r.until_closed().await?;
                    r.close();
                    r.join().await?
                };
                // refusal is only justified by the limit
                if let TaskEnd::Panicked { location, .. } = &end {
                    panic_site = Some(location.split(':').next().unwrap_or("?").to_owned());
                }
                // (an attempt overtaken by a newer connection of the same client id in the same burst
                // may be replaced before its CONNACK is written: judged by the post-condition below)
                let room_for_all = before + brand_new <= st.max;
                if room_for_all && !multi.contains(&id) {
                    let mut rec = storm_record(
                        st,
                        "admissible-refused",
                        step,
                        format!(
                            "step {step}: valid CONNECT of '{id}' refused ({}) although there was room: {} live before the step, {} new client id(s), max_connections {} (task {:?})",
                            out.brief(),
                            before,
                            brand_new,
                            st.max,
                            end
                        ),
                    )
                    .fact("context", "storm")
                    .fact("id_refused_before", burned.contains(&id));
                    if let TaskEnd::Panicked { location, .. } = &end {
                        rec = rec.fact("task", "panicked").fact("panic_site", location.split(':').next().unwrap_or("?"));
                    }
                    log.push(format!("{step}: {op:?} -> {summary:?}"));
                    return Ok(Some(rec));
                }
                if !room_for_all {
                    refused_at_limit += 1;
                }
                if !burned.contains(&id) {
                    burned.push(id);
                }
            }
        }
        b.barrier().await?;
        log.push(format!("{step}: {op:?} -> {summary:?}"));
        let _ = accepted_now;
        // who is alive now?
        let mut notes = vec![];
        let answered = probe_live(&mut live, &mut notes).await?;
        for n in notes {
            log.push(format!("{step}:   {n}"));
        }
        if answered.len() > st.max {
            return Ok(Some(
                storm_record(st, "limit-exceeded", step, format!("step {step}: {} connections answer PINGREQ, max_connections = {} ({answered:?})", answered.len(), st.max))
                    .fact("answering", answered.len() as u64),
            ));
        }
        if before + brand_new <= st.max {
            for id in &multi {
                if !answered.contains(id) {
                    let mut rec = storm_record(st, "admissible-refused", step, format!("step {step}: several valid CONNECTs of '{id}' with room for all of them, none of them is live afterwards (panic in a connection task: {panic_site:?})"))
                        .fact("context", "storm-same-id");
                    if let Some(site) = &panic_site {
                        rec = rec.fact("task", "panicked").fact("panic_site", site.clone());
                    }
                    return Ok(Some(rec));
                }
            }
        }
        let mut seen: Vec<&String> = vec![];
        for id in &answered {
            if seen.contains(&id) {
                return Ok(Some(storm_record(st, "duplicate-client-id", step, format!("step {step}: two live connections answer PINGREQ for client id '{id}'"))));
            }
            seen.push(id);
        }
        // a burst of k distinct ids with room for all: every one must be live now
        let snap = b.barrier().await?;
        let mut ids: Vec<&String> = snap.connection_map.iter().map(|(i, _)| i).collect();
        ids.sort();
        let n_ids = ids.len();
        ids.dedup();
        let mut slots: Vec<usize> = snap.connection_map.iter().map(|(_, s)| *s).collect();
        slots.sort();
        let n_slots = slots.len();
        slots.dedup();
        if ids.len() != n_ids || slots.len() != n_slots {
            return Ok(Some(storm_record(st, "duplicate-client-id", step, format!("step {step}: router connection_map is not injective: {:?}", snap.connection_map))));
        }
        if snap.connections.len() > st.max {
            return Ok(Some(
                storm_record(st, "limit-exceeded", step, format!("step {step}: router holds {} connections, max_connections = {}", snap.connections.len(), st.max))
                    .fact("registered", snap.connections.len() as u64),
            ));
        }
        for id in &answered {
            if !snap.connection_map.iter().any(|(i, _)| i == id) {
                return Ok(Some(storm_record(st, "live-not-registered", step, format!("step {step}: '{id}' answers PINGREQ but is not in the router's connection_map"))));
            }
        }
    }
    log.push(format!("takeovers={takeovers} refused_at_limit={refused_at_limit}"));
    // end: close everything
    for (_, mut r) in live.conns.drain(..) {
        r.disconnect().await?;
        r.close();
        r.join().await?;
    }
    b.barrier().await?;
    Ok(None)
}

fn gen_storm(n: u64, rng: &mut Rng, reuse: bool) -> Storm {
    let max = rng.range(1, 3) as usize;
    let len = rng.range(8, 30);
    let mut fresh = 0u64;
    let pool: Vec<String> = (0..(max + 2)).map(|i| format!("s{n}_{}", (b'a' + i as u8) as char)).collect();
    let mut ops = vec![];
    for _ in 0..len {
        let pick_id = |rng: &mut Rng, fresh: &mut u64| -> String {
            if rng.chance(1, 6) {
                *fresh += 1;
                format!("s{n}_f{fresh}")
            } else {
                rng.pick(&pool).clone()
            }
        };
        match rng.weighted(&[10, 4, 3, 3]) {
            0 => ops.push(StormOp::Connect {
                id: pick_id(rng, &mut fresh),
                v5: rng.chance(1, 2),
            }),
            1 => {
                let k = rng.range(2, 5);
                let same = rng.chance(1, 2);
                let first = pick_id(rng, &mut fresh);
                let v: Vec<(String, bool)> = (0..k)
                    .map(|_| (if same { first.clone() } else { pick_id(rng, &mut fresh) }, rng.chance(1, 2)))
                    .collect();
                ops.push(StormOp::Burst(v));
            }
            2 => ops.push(StormOp::Close(rng.pick(&pool).clone())),
            _ => ops.push(StormOp::Disconnect(rng.pick(&pool).clone())),
        }
    }
    Storm {
        n,
        max,
        ops,
        reuse_refused_ids: reuse,
    }
}

fn storm_shape(st: &Storm) -> u64 {
    let s: String = st
        .ops
        .iter()
        .map(|o| match o {
            StormOp::Connect { .. } => "c".to_owned(),
            StormOp::Burst(v) => format!("b{}", v.len()),
            StormOp::Close(_) => "x".to_owned(),
            StormOp::Disconnect(_) => "d".to_owned(),
        })
        .collect();
    fnv(format!("{}|{}|{s}", st.max, st.reuse_refused_ids).as_bytes())
}

fn run_storms(ctx: &Ctx, rt: &Rt, storms: &[Storm], stats: &mut Stats) {
    // one broker per limit, used again by the next storm with that limit as long as the previous one
    // ended cleanly (every connection closed and joined, router empty); client ids are unique per storm
    let mut brokers: Vec<Option<Broker>> = (0..4).map(|_| None).collect();
    let mut uses = [0u32; 4];
    for st in storms {
        let slot = st.max.min(3);
        if uses[slot] >= 200 {
            brokers[slot] = None;
        }
        if brokers[slot].is_none() {
            brokers[slot] = Some(Broker::start(rt, s6::router_config(st.max), vec![ListenerCfg::plain(Ver::V4), ListenerCfg::plain(Ver::V5)]));
            uses[slot] = 0;
        }
        uses[slot] += 1;
        let mut log = vec![];
        let (r, clean) = {
            let b = brokers[slot].as_ref().unwrap();
            let r = rt.block_on(run_storm(b, st, &mut log));
            let clean = matches!(r, Ok(None)) && matches!(rt.block_on(b.barrier()), Ok(s) if s.connections.is_empty() && s.connection_map.is_empty());
            (r, clean)
        };
        if !clean {
            brokers[slot] = None;
        }
        let doc = |log: &Vec<String>| json!({"substrate": "S6", "part": "storm", "storm": st, "log": log});
        match r {
            Ok(None) => {
                stats.evaluations += 1;
                stats.shapes.insert(storm_shape(st));
                stats.opn("storm-steps", st.ops.len() as u64);
                stats.oraclen("uniqueness-and-limit", st.ops.len() as u64);
                stats.corner(&format!("max-connections-{}", st.max));
                if let Some(l) = log.last() {
                    if let Some(t) = l.strip_prefix("takeovers=") {
                        let mut it = t.split(" refused_at_limit=");
                        let tk: u64 = it.next().and_then(|x| x.parse().ok()).unwrap_or(0);
                        let rf: u64 = it.next().and_then(|x| x.parse().ok()).unwrap_or(0);
                        if tk > 0 {
                            *stats.corners.entry("take-over".into()).or_default() += tk;
                        }
                        if rf > 0 {
                            *stats.corners.entry("refused-at-limit".into()).or_default() += rf;
                        }
                    }
                }
                if stats.samples.len() < 3 && st.ops.len() < 14 {
                    stats.sample(doc(&log));
                }
            }
            Ok(Some(rec)) => {
                stats.evaluations += 1;
                judge(ctx, stats, rec, || doc(&log));
            }
            Err(S6Err::RouterGone(p)) => {
                let rec = Record::new("C19", "router-panic", format!("router thread ended during a connect storm: {p:?}"))
                    .fact("site", p.as_ref().map(crate::common::panic_site).unwrap_or_default());
                judge(ctx, stats, rec, || doc(&log));
            }
            Err(e) => stats.inconclusive.push(format!("S6 storm {}: {e}", st.n)),
        }
        if stats.violations.len() >= 3 || stats.inconclusive.len() >= 5 {
            break;
        }
    }
}

/// Directed trigger of the known defect: a client id refused by the router (here: a client id
/// with a metacharacter) connects a second time through the same listener.
fn refused_id_twice(n: u64) -> Vec<AdmCase> {
    let mut a = base_case(n, false);
    a.client_id = format!("twice/{n}");
    let mut b = a.clone();
    b.n = n + 1;
    let mut c = base_case(n + 2, false);
    c.client_id = format!("after{n}");
    vec![a, b, c]
}

// ---------------------------------------------------------------- driver

fn s6_part(ctx: &Ctx) -> Stats {
    let shards = if ctx.quick() { ctx.threads.clamp(1, 8) } else { ctx.threads.max(1) };
    let random_total = ctx.size(24_000, 400_000);
    let trigger_pct = if ctx.quick() { 15 } else { 5 };
    let storms_total = ctx.size(1_600, 12_000);
    sharded(ctx, shards, |shard, seed| {
        let mut stats = Stats::default();
        let mut rng = Rng::new(seed ^ 0xc19);
        let rt = Rt::new(&format!("c19-{shard}"), 3);
        let mut counter: u64 = (shard as u64 + 1) * 10_000_000;
        // part A
        let mut cases = directed_cases(&mut counter, &mut rng, shard, shards);
        for _ in 0..(random_total / shards as u64 + 1) {
            counter += 1;
            cases.push(random_case(counter, &mut rng));
        }
        run_admission(ctx, &rt, &cases, &mut rng, &mut stats);
        // the known trigger, in about 15 % of the shards' runs
        if stats.violations.is_empty() && rng.chance(trigger_pct.max(15), 100) {
            counter += 3;
            let t = refused_id_twice(counter);
            run_admission(ctx, &rt, &t, &mut rng, &mut stats);
            stats.op("trigger:refused-id-twice");
        }
        // part B
        let mut storms = vec![];
        for _ in 0..(storms_total / shards as u64 + 1) {
            counter += 1;
            let reuse = rng.chance(trigger_pct, 100);
            storms.push(gen_storm(counter, &mut rng, reuse));
        }
        if stats.violations.is_empty() {
            run_storms(ctx, &rt, &storms, &mut stats);
        }
        stats
    })
}

fn run(ctx: &Ctx) -> Stats {
    let mut stats = s6_part(ctx);
    stats.exhaustive_scopes.push("S6: every packet type as first packet on both listeners; every proper prefix of one CONNECT; authentication configurations {none, static, callback, both} x 11 logins; 13 metacharacter client ids as prefix and suffix".into());
    if stats.violations.is_empty() {
        let s4 = s4common::run(ctx, &s4parts::c19_plan());
        stats.merge(s4);
    }
    stats
}

fn replay(ctx: &Ctx, doc: &Value) -> Stats {
    if doc["substrate"] != "S6" {
        return s4common::replay(ctx, &s4parts::c19_plan(), doc);
    }
    let mut stats = Stats::default();
    let rt = Rt::new("c19-replay", 3);
    let mut rng = Rng::new(ctx.seed);
    if doc["part"] == "storm" {
        match serde_json::from_value::<Storm>(doc["storm"].clone()) {
            Ok(st) => run_storms(ctx, &rt, &[st], &mut stats),
            Err(e) => stats.inconclusive.push(format!("replay: cannot read storm: {e}")),
        }
    } else {
        match serde_json::from_value::<AdmCase>(doc["case"].clone()) {
            Ok(c) => run_admission(ctx, &rt, &[c], &mut rng, &mut stats),
            Err(e) => stats.inconclusive.push(format!("replay: cannot read case: {e}")),
        }
    }
    stats.shapes.insert(1);
    stats.shapes.insert(2);
    stats
}

pub fn prop() -> Prop {
    Prop {
        id: "C19",
        meta: Meta {
            level: "exploration",
            rule: "S6 part A: first packets (well-formed CONNECT of the listener's version with generated client id / keep-alive / clean flag / login / will, split into 1-7 writes, optionally with packets pipelined behind it; CONNECT of the other version; wrong protocol name or level; every other packet type; every proper prefix of a CONNECT; random bytes) against listeners {v4, v5} x {no auth, static map, callback, both}; distinct = (listener, auth config, kind of first packet, client id class, clean, keep-alive class, login, will, chunking, pipelining). Part B: connect / burst / close / DISCONNECT histories over max_connections+2 recurring client ids against max_connections 1-3; distinct = (limit, sequence of operation kinds with burst sizes). S4: router half (op-kind sequence reaching a named corner state). For an inadmissible first packet the router's view of its sessions (connection map, saved sessions, wills, subscriptions) is compared before and after, and in every second case a connection live under the same client id must still answer a PINGREQ.",
            assumptions: &[
                "connections are in-memory duplex pipes entered through Server::verif_accept; admission (mqtt_connect, handle_auth), RemoteLink::new and the router are the production code",
                "with both a static map and a callback configured the statement does not say which decides: cases where they disagree are executed and counted (admission-open), not judged",
                "an incomplete first packet is followed by end of input instead of waiting for the connection timeout",
                "client ids refused once by the router are not used again on the same listener in ~85 % of the histories (known finding KF-C19-WILLHANDLER)",
            ],
            floors: &[
                ("inadmissible-refused", 150),
                ("admissible-accepted", 80),
                ("uniqueness-and-limit", 100),
                ("take-over", 10),
                ("refused-at-limit", 10),
                ("connect-in-several-writes", 20),
            ],
        },
        run,
        replay: Some(replay),
    }
}
