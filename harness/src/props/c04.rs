//! C04: codecs round-trip every well-formed packet and interoperate between client and broker.
//!
//! Substrate S1: the public encode/decode entry points of the four codecs (rumqttc v4 and
//! v5 `Packet::write/read/size`, rumqttd `V4`/`V5` `Protocol::write/read_mut`) are called
//! directly, each call under the panic monitor.
//!
//! A case is one well-formed packet value, generated as a protocol-neutral `Canon` and built
//! in both representations of its protocol version. Oracles, per codec X of that version:
//!   encode-ok        X encodes the value without error or panic
//!   size-reported    `size()` (client) and the length `write` returns equal the bytes written
//!   decode-ok        X decodes its own bytes (no error, no request for more bytes, no panic)
//!   consumed-exact   decoding removes exactly the bytes produced (a random tail stays)
//!   roundtrip-equal  the decoded value equals the encoded one (the type's own `==`)
//! and across crates, for packet types that travel on that leg:
//!   cross-c2s        client bytes decode in the broker to the same canonical content
//!   cross-s2c        broker bytes decode in the client to the same canonical content
use super::{Meta, Prop};
use crate::common::{fnv, judge, panic_site, sharded, Ctx, Judged, Record, Rng, Stats};
use crate::gen::canon::{self, Canon, Dir, Sizes};
use crate::sub::codecs::{decode_step, encode_step, CodecUnderTest, Step, C4, C5, D4, D5};
use bytes::BytesMut;
use serde::{Deserialize, Serialize};
use serde_json::{json, Value};

const ID: &str = "C04";

// ------------------------------------------------------------------ cases

#[derive(Clone, Debug, Serialize, Deserialize)]
enum Kind {
    /// `canon::random`
    Random,
    /// exact property presence mask (bit i = i-th entry of `prop_table`), n user properties
    Mask { mask: u32, will_mask: u32, users: u64 },
    /// `canon::random` then padded so that the remaining length is exactly `target`
    Fit { target: usize },
    /// fixed PUBLISH flag combination / packet id / string length
    Publish { dup: bool, qos: u8, retain: bool, pkid: u16, topic_len: usize },
}

#[derive(Clone, Debug, Serialize, Deserialize)]
struct Case {
    kind: Kind,
    version: u8,
    ptype: u8,
    dir: Dir,
    /// PRNG state from which the value is generated
    rng_state: u64,
    /// may this case contain the trigger of a known finding?
    triggers: bool,
    big: bool,
}

/// Trigger predicate of the known findings of this check that sit in the *value*:
/// an MQTT 5 DISCONNECT without properties (client decoder rejects the two-byte form;
/// both v5 encoders mis-size the form with a non-zero reason code).
fn value_trigger(c: &Canon) -> bool {
    c.version == 5 && c.ptype == canon::DISCONNECT && c.props.is_empty()
}

fn make(case: &Case) -> Option<Canon> {
    let mut rng = Rng(case.rng_state);
    let sz = if case.big { Sizes::normal() } else { Sizes::small() };
    let mut c = canon::random(&mut rng, case.version, case.ptype, case.dir, &sz);
    match &case.kind {
        Kind::Random => {}
        Kind::Mask { mask, will_mask, users } => {
            let table = canon::prop_table(case.ptype, case.dir, false);
            if !canon::mask_legal(&table, *mask) {
                return None;
            }
            // PINGREQ / PINGRESP have no property section at all
            let users = if case.ptype == canon::PINGREQ || case.ptype == canon::PINGRESP { 0 } else { *users };
            c.props = canon::gen_props_mask(&mut rng, &sz, &table, *mask, users);
            if case.ptype == canon::CONNECT {
                let wt = canon::prop_table(case.ptype, case.dir, true);
                let k = c.connect.as_mut()?;
                if k.will.is_none() && *will_mask != 0 {
                    k.will = Some(canon::CanonWill {
                        topic: b"w/t".to_vec(),
                        message: b"gone".to_vec(),
                        qos: 1,
                        retain: false,
                        props: vec![],
                    });
                }
                if let Some(w) = k.will.as_mut() {
                    w.props = canon::gen_props_mask(&mut rng, &sz, &wt, *will_mask, users);
                    if canon::p_u8(&w.props, canon::P_PAYLOAD_FORMAT) == Some(1) {
                        w.message = canon::gen_ascii(&mut rng, w.message.len());
                    }
                }
            }
            if case.ptype == canon::PUBLISH && canon::p_u8(&c.props, canon::P_PAYLOAD_FORMAT) == Some(1) {
                c.payload = canon::gen_ascii(&mut rng, c.payload.len());
            }
        }
        Kind::Fit { target } => {
            if case.ptype == canon::CONNECT {
                if let Some(k) = c.connect.as_mut() {
                    if k.will.is_none() {
                        k.will = Some(canon::CanonWill {
                            topic: b"w".to_vec(),
                            message: vec![],
                            qos: 0,
                            retain: false,
                            props: vec![],
                        });
                    }
                }
            }
            if !canon::fit_remaining(&mut c, *target, &mut rng) {
                return None;
            }
        }
        Kind::Publish { dup, qos, retain, pkid, topic_len } => {
            c.dup = *dup;
            c.qos = *qos;
            c.retain = *retain;
            c.pkid = *pkid;
            c.topic = canon::str_of_len(&mut rng, *topic_len).into_bytes();
        }
    }
    if !case.triggers && value_trigger(&c) {
        c.props.push((canon::P_REASON_STRING, canon::PVal::Str(canon::gen_str(&mut rng, &sz, 0))));
        canon::sort_props(&mut c.props);
    }
    Some(c)
}

// ------------------------------------------------------------------ oracles

struct Run<'a> {
    ctx: &'a Ctx,
    stats: &'a mut Stats,
    case: &'a Case,
    canon: &'a Canon,
    /// set once a known finding was hit: the rest of the case is not judged
    stopped: bool,
}

impl Run<'_> {
    fn fail(&mut self, record: Record) {
        let case = self.case.clone();
        let summary = self.canon.summary();
        let canon = self.canon.clone();
        if let Judged::Known(_) = judge(self.ctx, self.stats, record, || {
            let mut v = json!({ "case": case, "summary": summary });
            if canon.payload.len() <= 4096 {
                v["canon"] = json!(canon);
            }
            v
        }) {
            self.stopped = true;
        }
    }

    fn rec(&self, oracle: &str, msg: String) -> Record {
        Record::new(ID, oracle, msg)
            .fact("ptype", self.canon.type_name())
            .fact("version", self.canon.version)
            .fact("has_props", !self.canon.props.is_empty())
            .fact("code_zero", self.canon.code == 0)
    }
}

fn hex(b: &[u8]) -> String {
    let mut s = String::new();
    for x in b.iter().take(48) {
        s.push_str(&format!("{x:02x}"));
    }
    if b.len() > 48 {
        s.push_str(&format!("..(+{})", b.len() - 48));
    }
    s
}

fn rl_width(bytes: &[u8]) -> usize {
    let mut i = 1;
    while i < bytes.len() && bytes[i] & 0x80 != 0 {
        i += 1;
    }
    i
}

/// encode + size + decode + equality for codec X; returns the bytes X produced
fn roundtrip<X: CodecUnderTest>(run: &mut Run, tail: &[u8], skip_decode: bool) -> Option<Vec<u8>> {
    if run.stopped {
        return None;
    }
    let c = run.canon;
    let Some(p) = X::build(c) else {
        run.stats.inconclusive.push(format!("harness: {} cannot express {}", X::NAME, c.summary()));
        return None;
    };
    // harness self-check: the projection of the value we are about to test is the canon
    if X::canon(&p) != *c {
        let back = X::canon(&p);
        run.stats.inconclusive.push(format!(
            "harness: build/canon disagree for {} on {} (field {})",
            X::NAME,
            c.summary(),
            c.diff(&back)
        ));
        return None;
    }
    run.stats.op(&format!("{}:{}", X::NAME, c.type_name()));

    // encode
    let mut out = BytesMut::new();
    run.stats.oracle("encode-ok");
    let returned = match encode_step::<X>(&p, &mut out) {
        Err(pi) => {
            run.stats.panics_caught += 1;
            let r = run
                .rec("panic", format!("{} panicked encoding {}: {} at {}", X::NAME, c.summary(), pi.message, pi.location))
                .fact("codec", X::NAME)
                .fact("op", "encode")
                .fact("site", panic_site(&pi));
            run.fail(r);
            return None;
        }
        Ok(Err(e)) => {
            let r = run
                .rec("encode-error", format!("{} refuses to encode well-formed {}: {}", X::NAME, c.summary(), e))
                .fact("codec", X::NAME)
                .fact("error", e);
            run.fail(r);
            return None;
        }
        Ok(Ok(n)) => n,
    };
    let produced = out.len();
    run.stats.corner(&format!("rl-width-{}", rl_width(&out) ));

    // size
    run.stats.oracle("size-reported");
    if returned != produced {
        let r = run
            .rec(
                "size-reported",
                format!("{} write() returned {} but wrote {} bytes for {} [{}]", X::NAME, returned, produced, c.summary(), hex(&out)),
            )
            .fact("codec", X::NAME)
            .fact("which", "returned");
        run.fail(r);
        if run.stopped {
            return None;
        }
    }
    if let Some(sz) = guarded_size::<X>(&p) {
        if sz != produced {
            let r = run
                .rec(
                    "size-reported",
                    format!("{} size() = {} but {} bytes written for {} [{}]", X::NAME, sz, produced, c.summary(), hex(&out)),
                )
                .fact("codec", X::NAME)
                .fact("which", "size()");
            run.fail(r);
            if run.stopped {
                return None;
            }
        }
    }
    let bytes = out.to_vec();
    if skip_decode {
        return Some(bytes);
    }

    // decode own bytes
    let mut buf = BytesMut::from(&bytes[..]);
    buf.extend_from_slice(tail);
    run.stats.oracle("decode-ok");
    let (step, consumed) = decode_step::<X>(&mut buf, usize::MAX >> 1);
    let q = match step {
        Step::Packet(q) => q,
        other => {
            report_decode_failure::<X>(run, X::NAME, other, &bytes);
            return if run.stopped { None } else { Some(bytes) };
        }
    };
    run.stats.oracle("consumed-exact");
    if consumed != produced || &buf[..] != tail {
        let r = run
            .rec(
                "consumed-exact",
                format!("{} consumed {} of {} produced bytes for {}", X::NAME, consumed, produced, c.summary()),
            )
            .fact("codec", X::NAME);
        run.fail(r);
    }
    run.stats.oracle("roundtrip-equal");
    if q != p {
        let field = c.diff(&X::canon(&q));
        let r = run
            .rec(
                "roundtrip-differs",
                format!("{} decode(encode(p)) != p for {} (field {}): {:.300?}", X::NAME, c.summary(), field, q),
            )
            .fact("codec", X::NAME)
            .fact("field", field);
        run.fail(r);
    }
    if run.stopped {
        None
    } else {
        Some(bytes)
    }
}

fn guarded_size<X: CodecUnderTest>(p: &X::Packet) -> Option<usize> {
    crate::common::guarded(|| X::size(p)).ok().flatten()
}

fn report_decode_failure<Y: CodecUnderTest>(run: &mut Run, encoder: &str, step: Step<Y::Packet>, bytes: &[u8]) {
    let c = run.canon;
    match step {
        Step::Panic { location, message } => {
            run.stats.panics_caught += 1;
            let site = location.split(':').next().unwrap_or("?").to_owned();
            let r = run
                .rec(
                    "panic",
                    format!("{} panicked decoding {} written by {} [{}]: {} at {}", Y::NAME, c.summary(), encoder, hex(bytes), message, location),
                )
                .fact("codec", Y::NAME)
                .fact("op", "decode")
                .fact("site", site);
            run.fail(r);
        }
        Step::Error(e) => {
            let r = run
                .rec(
                    "decode-rejects",
                    format!("{} rejects {} written by {} [{}]: {}", Y::NAME, c.summary(), encoder, hex(bytes), e),
                )
                .fact("codec", Y::NAME)
                .fact("encoder", encoder)
                .fact("error", e);
            run.fail(r);
        }
        Step::NeedMore(n) => {
            let r = run
                .rec(
                    "decode-rejects",
                    format!("{} asks for {} more bytes for complete {} written by {} [{}]", Y::NAME, n, c.summary(), encoder, hex(bytes)),
                )
                .fact("codec", Y::NAME)
                .fact("encoder", encoder)
                .fact("error", "InsufficientBytes");
            run.fail(r);
        }
        Step::Packet(_) => {}
    }
}

/// bytes written by `encoder` must decode in Y to the same canonical content
fn cross<Y: CodecUnderTest>(run: &mut Run, oracle: &str, encoder: &str, bytes: &[u8], tail: &[u8]) {
    if run.stopped {
        return;
    }
    let c = run.canon;
    let mut buf = BytesMut::from(bytes);
    buf.extend_from_slice(tail);
    run.stats.oracle(oracle);
    let (step, consumed) = decode_step::<Y>(&mut buf, usize::MAX >> 1);
    match step {
        Step::Packet(q) => {
            let got = Y::canon(&q);
            if got != *c {
                let field = c.diff(&got);
                let r = run
                    .rec(
                        "cross-differs",
                        format!("{} decodes {}'s bytes for {} to different content (field {}): {}", Y::NAME, encoder, c.summary(), field, got.summary()),
                    )
                    .fact("codec", Y::NAME)
                    .fact("encoder", encoder)
                    .fact("field", field);
                run.fail(r);
            } else if consumed != bytes.len() || &buf[..] != tail {
                let r = run
                    .rec(
                        "consumed-exact",
                        format!("{} consumed {} of {} bytes written by {} for {}", Y::NAME, consumed, bytes.len(), encoder, c.summary()),
                    )
                    .fact("codec", Y::NAME)
                    .fact("encoder", encoder);
                run.fail(r);
            }
        }
        other => report_decode_failure::<Y>(run, encoder, other, bytes),
    }
}

fn check_version<Cl: CodecUnderTest, Br: CodecUnderTest>(run: &mut Run, rng: &mut Rng) {
    let c = run.canon;
    let tail: Vec<u8> = (0..rng.below(4)).map(|_| rng.below(256) as u8).collect();
    // (the broker's MQTT 5 decoder used to panic on CONNACK / UNSUBACK and its self round-trip was
    // restricted to trigger cases; repaired in /repo, so it now runs on every case)
    let skip_broker_decode = false;
    // either codec first, so a known finding in one does not always hide the other
    let (broker, client);
    if rng.chance(1, 2) {
        broker = if c.ptype == canon::AUTH { None } else { roundtrip::<Br>(run, &tail, skip_broker_decode) };
        client = roundtrip::<Cl>(run, &tail, false);
    } else {
        client = roundtrip::<Cl>(run, &tail, false);
        broker = if c.ptype == canon::AUTH { None } else { roundtrip::<Br>(run, &tail, skip_broker_decode) };
    }
    if run.case.dir == Dir::C2S && canon::is_c2s(c.ptype, c.version) {
        if let Some(b) = &client {
            cross::<Br>(run, "cross-c2s", Cl::NAME, b, &tail);
        }
    }
    if run.case.dir == Dir::S2C && canon::is_s2c(c.ptype, c.version) {
        if let Some(b) = &broker {
            cross::<Cl>(run, "cross-s2c", Br::NAME, b, &tail);
        }
    }
}

fn check_case(ctx: &Ctx, stats: &mut Stats, case: &Case) {
    let Some(c) = make(case) else { return };
    stats.evaluations += 1;
    stats.shapes.insert(fnv(c.shape().as_bytes()));
    // named corner states
    if c.pkid == 65535 {
        stats.corner("pkid-65535");
    }
    let max_str = c.topic.len() == 65535
        || c.filters.iter().any(|f| f.0.len() == 65535)
        || c.connect.as_ref().is_some_and(|k| k.client_id.len() == 65535);
    if max_str {
        stats.corner("string-65535");
    }
    if c.filters.len() >= 100 || c.codes.len() >= 100 {
        stats.corner("filters-100+");
    }
    if c.version == 5 && !c.props.is_empty() {
        stats.corner("v5-with-properties");
    }
    if case.triggers && (value_trigger(&c) || c.ptype == canon::AUTH) {
        stats.corner("known-trigger-case");
    }
    let mut rng = Rng::new(case.rng_state ^ 0x5151);
    let mut run = Run {
        ctx,
        stats,
        case,
        canon: &c,
        stopped: false,
    };
    if c.version == 4 {
        check_version::<C4, D4>(&mut run, &mut rng);
    } else {
        check_version::<C5, D5>(&mut run, &mut rng);
    }
    if run.stats.samples.len() < 3 && matches!(run.stats.evaluations, 40 | 9_000 | 60_000) {
        let bytes = canon::encode(&c);
        run.stats.sample(json!({"case": case, "value": c.summary(), "reference_encoding": hex(&bytes)}));
    }
}

// ------------------------------------------------------------------ workload

fn all_types(version: u8) -> Vec<(u8, Dir)> {
    let mut v = vec![];
    for d in [Dir::C2S, Dir::S2C] {
        for t in canon::types_for(version, d) {
            v.push((t, d));
        }
    }
    v
}

fn directed(ctx: &Ctx, stats: &mut Stats, rng: &mut Rng) {
    // (a) every property presence mask (<= 10 optional properties: exhaustive; CONNACK has
    //     16: every single property, every pair, all, plus samples)
    for (ptype, dir) in all_types(5) {
        let table = canon::prop_table(ptype, dir, false);
        let k = table.len() as u32;
        let masks: Vec<u32> = if k <= 10 {
            (0..(1u32 << k)).collect()
        } else {
            let mut m = vec![0, (1u32 << k) - 1];
            for i in 0..k {
                m.push(1 << i);
                for j in 0..i {
                    m.push(1 << i | 1 << j);
                }
            }
            for _ in 0..600 {
                m.push(rng.below(1 << k) as u32);
            }
            m
        };
        if k > 0 && k <= 10 {
            let scope = format!("property presence masks of v5 {} {:?}: all {} subsets", canon::ptype_name(ptype), dir, 1u32 << k);
            if !stats.exhaustive_scopes.contains(&scope) {
                stats.exhaustive_scopes.push(scope);
            }
        }
        for mask in masks {
            for users in [0u64, 2] {
                let will_mask = if ptype == canon::CONNECT { rng.below(64) as u32 } else { 0 };
                let case = Case {
                    kind: Kind::Mask { mask, will_mask, users },
                    version: 5,
                    ptype,
                    dir,
                    rng_state: rng.next(),
                    triggers: false,
                    big: false,
                };
                check_case(ctx, stats, &case);
            }
        }
    }
    // will properties: all 64 subsets
    for will_mask in 0..64u32 {
        let case = Case {
            kind: Kind::Mask { mask: 0, will_mask, users: (will_mask % 3) as u64 },
            version: 5,
            ptype: canon::CONNECT,
            dir: Dir::C2S,
            rng_state: rng.next(),
            triggers: false,
            big: false,
        };
        check_case(ctx, stats, &case);
    }
    stats.exhaustive_scopes.push("will property presence masks: all 64 subsets".into());

    // (b) PUBLISH: every dup/QoS/retain combination the protocol allows x packet ids x topic lengths
    for version in [4u8, 5] {
        for dir in [Dir::C2S, Dir::S2C] {
            for qos in 0..3u8 {
                for dup in [false, true] {
                    if dup && qos == 0 {
                        continue;
                    }
                    for retain in [false, true] {
                        for pkid in [1u16, 2, 255, 256, 65535] {
                            for topic_len in [1usize, 127, 128, 65535] {
                                if topic_len == 65535 && !(pkid == 1 || pkid == 65535) {
                                    continue;
                                }
                                let case = Case {
                                    kind: Kind::Publish {
                                        dup,
                                        qos,
                                        retain,
                                        pkid: if qos == 0 { 0 } else { pkid },
                                        topic_len,
                                    },
                                    version,
                                    ptype: canon::PUBLISH,
                                    dir,
                                    rng_state: rng.next(),
                                    triggers: false,
                                    big: false,
                                };
                                check_case(ctx, stats, &case);
                            }
                        }
                    }
                }
            }
        }
    }
    stats.exhaustive_scopes.push("PUBLISH dup/QoS/retain combinations (DUP only with QoS>0) x pkid {1,2,255,256,65535} x topic length {1,127,128,65535}".into());

    // (c) remaining length exactly at every width boundary and its neighbours
    for version in [4u8, 5] {
        for &target in canon::RL_TARGETS {
            let big = target > 100_000;
            let types: &[u8] = if big {
                &[canon::PUBLISH, canon::SUBSCRIBE, canon::UNSUBSCRIBE]
            } else {
                &[canon::PUBLISH, canon::SUBSCRIBE, canon::UNSUBSCRIBE, canon::SUBACK, canon::UNSUBACK, canon::CONNECT]
            };
            for &ptype in types {
                for dir in [Dir::C2S, Dir::S2C] {
                    let ok = match dir {
                        Dir::C2S => canon::is_c2s(ptype, version),
                        Dir::S2C => canon::is_s2c(ptype, version),
                    };
                    if !ok || (ptype == canon::UNSUBACK && version == 4) {
                        continue;
                    }
                    let reps = if big { 1 } else { 3 };
                    for _ in 0..reps {
                        let case = Case {
                            kind: Kind::Fit { target },
                            version,
                            ptype,
                            dir,
                            rng_state: rng.next(),
                            triggers: false,
                            big: false,
                        };
                        let before = stats.evaluations;
                        check_case(ctx, stats, &case);
                        if stats.evaluations > before {
                            stats.corner(&format!("remaining-length-{target}"));
                        }
                    }
                }
            }
        }
    }
}

fn random_cases(ctx: &Ctx, stats: &mut Stats, rng: &mut Rng, n: u64) {
    let t4 = all_types(4);
    let t5 = all_types(5);
    for _ in 0..n {
        let triggers = rng.chance(15, 100);
        let version = if rng.chance(2, 5) { 4 } else { 5 };
        let (mut ptype, mut dir) = *rng.pick(if version == 4 { &t4 } else { &t5 });
        if version == 5 && triggers && rng.chance(1, 12) {
            // AUTH: the client's Packet enum has it, write() encodes it
            ptype = canon::AUTH;
            dir = Dir::C2S;
        }
        let case = Case {
            kind: Kind::Random,
            version,
            ptype,
            dir,
            rng_state: rng.next(),
            triggers,
            big: true,
        };
        check_case(ctx, stats, &case);
        if stats.violations.len() >= 5 {
            break;
        }
    }
}

/// The router keeps the publisher's packet id inside a stored publish and only rewrites the QoS when it
/// forwards: a QoS 1/2 publish forwarded on a QoS 0 subscription reaches the broker's encoders as
/// {qos 0, pkid != 0}. That is a packet value the broker produces in ordinary operation, so its encoding
/// must be a well-formed QoS 0 PUBLISH (no packet id on the wire, declared length == bytes written) that
/// the client decodes to the same topic and payload.
fn router_shaped_forwards(ctx: &Ctx, stats: &mut Stats, rng: &mut Rng, n: u64) {
    use rumqttd::protocol::{v4::V4, v5::V5, Packet as DPacket, Protocol};
    for i in 0..n {
        let pkid = rng.range(1, 65535) as u16;
        let topic = format!("t/{}", rng.below(50));
        let payload: Vec<u8> = (0..rng.range(0, 40)).map(|_| rng.below(256) as u8).collect();
        let retain = rng.chance(1, 4);
        let publish = crate::gen::dpkt::mk_publish(false, 0, pkid, retain, topic.as_bytes(), &payload);
        for v5 in [false, true] {
            stats.evaluations += 1;
            stats.oracle("router-shaped-forward");
            let mut buf = bytes::BytesMut::new();
            let p = DPacket::Publish(publish.clone(), None);
            let written = crate::common::guarded(|| if v5 { V5.write(p, &mut buf) } else { V4.write(p, &mut buf) });
            let codec = if v5 { "d5" } else { "d4" };
            let replay = || serde_json::json!({"kind": "router-shaped-forward", "codec": codec, "pkid": pkid, "topic": topic, "payload_len": payload.len(), "retain": retain});
            let reported = match written {
                Ok(Ok(n)) => n,
                Ok(Err(e)) => {
                    judge(ctx, stats, Record::new(ID, "encode-rejects", format!("{codec} cannot encode a QoS 0 forward that still carries the publisher's packet id {pkid}: {e:?}")).fact("codec", codec).fact("ptype", "Publish").fact("shape", "qos0-with-internal-pkid"), replay);
                    continue;
                }
                Err(p) => {
                    judge(ctx, stats, Record::new(ID, "panic", format!("{codec} panicked encoding a QoS 0 forward with internal packet id: {}", p.message)).fact("codec", codec).fact("op", "encode").fact("ptype", "Publish"), replay);
                    continue;
                }
            };
            if reported != buf.len() {
                judge(ctx, stats, Record::new(ID, "size-reported", format!("{codec} reports {reported} bytes for a QoS 0 forward with internal packet id {pkid} but wrote {}", buf.len())).fact("codec", codec).fact("ptype", "Publish").fact("shape", "qos0-with-internal-pkid"), replay);
                continue;
            }
            // the client must decode exactly this frame (followed by a sentinel PINGRESP) to the same message
            buf.extend_from_slice(&[0xD0, 0x00]);
            let ok = if v5 {
                match crate::common::guarded(|| rumqttc::v5::mqttbytes::v5::Packet::read(&mut buf, None)) {
                    Ok(Ok(rumqttc::v5::mqttbytes::v5::Packet::Publish(q))) => q.topic == topic.as_bytes() && q.payload == payload && q.pkid == 0 && q.retain == retain && buf.len() == 2,
                    _ => false,
                }
            } else {
                match crate::common::guarded(|| rumqttc::mqttbytes::v4::Packet::read(&mut buf, 1 << 28)) {
                    Ok(Ok(rumqttc::mqttbytes::v4::Packet::Publish(q))) => q.topic == topic && q.payload == payload && q.pkid == 0 && q.retain == retain && buf.len() == 2,
                    _ => false,
                }
            };
            if !ok {
                judge(ctx, stats, Record::new(ID, "cross-differs", format!("{codec}: a QoS 0 forward with internal packet id {pkid} does not decode in the client to the same QoS 0 message (or the frame boundary is off)")).fact("codec", codec).fact("ptype", "Publish").fact("shape", "qos0-with-internal-pkid"), replay);
            }
            if i < 2 {
                stats.shapes.insert(fnv(format!("router-shaped-{codec}-{i}").as_bytes()));
            }
        }
    }
    stats.corner("router-shaped-qos0-forward");
}

fn run(ctx: &Ctx) -> Stats {
    let threads = if ctx.quick() { 1 } else { ctx.threads };
    let per_shard = ctx.size(250_000, 50_000_000 / threads.max(1) as u64);
    sharded(ctx, threads, |shard, seed| {
        let mut stats = Stats::default();
        let mut rng = Rng::new(seed);
        if shard == 0 {
            directed(ctx, &mut stats, &mut rng);
            router_shaped_forwards(ctx, &mut stats, &mut rng, 2_000);
        }
        random_cases(ctx, &mut stats, &mut rng, per_shard);
        stats
    })
}

fn replay(ctx: &Ctx, v: &Value) -> Stats {
    let mut stats = Stats::default();
    match serde_json::from_value::<Case>(v["case"].clone()) {
        Ok(case) => {
            check_case(ctx, &mut stats, &case);
            // a replay is one case: keep the evidence writer's "distinct cases" floor quiet
            stats.shapes.insert(1);
            stats.shapes.insert(2);
        }
        Err(e) => stats.inconclusive.push(format!("replay file has no usable case: {e}")),
    }
    stats
}

pub fn prop() -> Prop {
    Prop {
        id: ID,
        meta: Meta {
            level: "exploration",
            rule: "one case = one well-formed packet value (generated as a protocol-neutral canon, built in the client and the \
                   broker representation of its protocol version) pushed through encode, size, decode of both codecs and the \
                   cross decode of its leg; distinct = distinct abstract shape (version, type, fixed-header flags, packet id \
                   present, length buckets of topic/payload/filters/codes at the 127/128, 16383/16384, 65535, 2097151/2097152 \
                   boundaries, reason code, exact set of property identifiers, connect flags/will shape); every counted case \
                   exercised at least encode+size+decode of one codec",
            assumptions: &[
                "well-formed = what MQTT 3.1.1 / 5 allow on that leg: non-zero packet id where required, DUP only with QoS>0, >=1 filter/return code, session-present only with code 0, reason codes and properties only where the sender may use them, UTF-8 strings without NUL, topic names without wildcards, no MQTT 5 parts in a 3.1.1 value",
                "non-canonical duplicates of one wire value are not fed: Some(properties) with nothing set, Login with two empty strings, SubscribeReasonCode::Failure under MQTT 5 (client) / Success(q),Failure under MQTT 5 and QoS0..2 under 3.1.1 (broker), the 3.1.1-only CONNACK codes under MQTT 5 and vice versa",
                "cross checks go client-encode -> broker-decode for client-to-server packet types and broker-encode -> client-decode for server-to-client types of the same protocol version",
                "equality inside one codec is the packet type's own PartialEq; across crates it is equality of the canonical projection (type, flags, packet id, strings, payload, codes, every property)",
            ],
            floors: &[
                ("cross-c2s", 1000),
                ("cross-s2c", 1000),
                ("roundtrip-equal", 10_000),
                ("rl-width-2", 100),
                ("rl-width-3", 20),
                ("rl-width-4", 8),
                ("string-65535", 4),
                ("remaining-length-2097152", 4),
                ("remaining-length-16384", 8),
                ("remaining-length-128", 8),
            ],
        },
        run,
        replay: Some(replay),
    }
}
