//! Shared runner for the properties decided on substrate S4 (real router, stepped)
use crate::common::{judge, sharded, Ctx, Judged, Rng, Stats};
use crate::sub::s4drive::{History, Profile, Triggers};
#[allow(unused_imports)]
use crate::common::Rng as _Rng;
use serde_json::{json, Value};

pub type Directed = fn(&mut History);

pub struct Plan {
    pub profiles: Vec<Profile>,
    /// (name, scenario) – executed on a fresh history built from the first profile
    pub directed: Vec<(&'static str, Directed)>,
    pub quick_histories: u64,
    pub thorough_histories: u64,
    /// rounds of the threaded substrate S5 (quick, thorough) on top of the stepped histories
    pub s5: Option<(u64, u64, crate::sub::s5::Plan)>,
    /// fault enumeration (C08): number of base histories (quick, thorough) for which the end of actor 0's
    /// persistent session is injected before every operation, in each of the four flavours
    pub enumerate_session_end: Option<(u64, u64, Profile)>,
    /// exhaustive small scope (C03): every sequence of at most (quick, thorough) symbols of the abstract
    /// event alphabet `History::symbol` behind a fixed prologue
    pub enumerate_symbols: Option<(u8, u8, Profile)>,
    /// records of these oracles are this check's verdict under its own property (used by C12: a delivery that
    /// disagrees with the reference matcher is the broker's matching / its routing cache giving a wrong answer)
    pub relabel: Option<(&'static str, Vec<&'static str>)>,
}

pub fn s5_default(hostile: bool, group_members: usize) -> crate::sub::s5::Plan {
    crate::sub::s5::Plan {
        publishers: 4,
        subscribers: 5,
        group_members,
        per_publisher: 400,
        hostile,
        topics: vec!["a", "a/b", "a/c", "b"],
        filters: vec!["a/+", "a/#", "#", "a/b", "+"],
    }
}

thread_local! {
    static RELABEL: std::cell::RefCell<Option<(&'static str, Vec<&'static str>)>> = const { std::cell::RefCell::new(None) };
}

fn judge_history(ctx: &Ctx, stats: &mut Stats, h: &History) {
    h.absorb_into(stats);
    let relabel = RELABEL.with(|r| r.borrow().clone());
    if let Some((to, oracles)) = relabel {
        if let Some(r) = h.records.iter().find(|r| oracles.contains(&r.oracle.as_str())) {
            let mut rec = r.clone();
            rec.facts.insert("original_property".into(), rec.property.clone().into());
            rec.property = to.to_owned();
            rec.oracle = format!("routing-{}", rec.oracle);
            let _ = judge(ctx, stats, rec, || h.replay_json());
            return;
        }
    }
    // the first record ends a history; anything after it would be judged on a diverged state
    // (all records of a history come from one step; the one of this check's property is its verdict)
    let mine = h.records.iter().find(|r| r.property == ctx.property).or(h.records.first());
    if let Some(r) = mine {
        if r.property == ctx.property {
            let rec = r.clone();
            match judge(ctx, stats, rec, || h.replay_json()) {
                Judged::Known(_) | Judged::Violation => {}
            }
        } else {
            // another property's oracle fired: not this check's verdict, but the history stops here
            stats.truncated += 1;
            let key = format!("other_property_records.{}.{}", r.property, r.oracle);
            stats.add_extra(&key, 1);
        }
    }
    if stats.samples.len() < 2 && h.records.is_empty() && h.oplog.len() > 8 {
        let mut hist = h.oplog.clone();
        hist.truncate(60);
        stats.sample(json!({"profile": h.profile.name, "case_seed": h.seed, "config": h.config, "history_prefix": hist, "accepted_messages": h.model.log.len(), "router_steps": h.s4.steps}));
    }
}

pub fn run(ctx: &Ctx, plan: &Plan) -> Stats {
    let mut stats = run_stepped(ctx, plan);
    if let Some((q, t, profile)) = &plan.enumerate_session_end {
        let bases = ctx.size(*q, *t);
        let shards = if ctx.quick() { ctx.threads.min(8) } else { ctx.threads };
        let more = sharded(ctx, shards, |shard, seed| {
            let mut st = Stats::default();
            let mut rng = Rng::new(seed ^ 0xe08);
            for b in 0..bases {
                let base_seed = rng.next();
                if (b as usize) % shards != shard {
                    continue;
                }
                // the base history tells how many operations there are
                let mut base = History::new(base_seed, profile, Some(Triggers::default()));
                base.triggered = false;
                base.run_random();
                judge_history(ctx, &mut st, &base);
                let n = base.ops_total;
                for at in 0..n {
                    for flavour in 0..4u8 {
                        let mut h = History::new(base_seed, profile, Some(Triggers::default()));
                        h.triggered = false;
                        h.inject = Some((at, flavour));
                        h.run_random();
                        h.shape.push(flavour);
                        judge_history(ctx, &mut st, &h);
                        st.add_extra("crash_points", 1);
                    }
                }
                st.add_extra("base_histories_enumerated", 1);
                if st.violations.len() >= 3 {
                    break;
                }
            }
            st
        });
        stats.merge(more);
        stats.exhaustive_scopes.push("C08: for every base history, session end injected before every operation x 4 flavours (DISCONNECT, link failure, router-initiated close, take-over)".into());
    }
    if let Some((q, t, profile)) = &plan.enumerate_symbols {
        let max_len = if ctx.quick() { *q } else { *t } as usize;
        let n = History::SYMBOLS as usize;
        // all sequences of length 1..=max_len, numbered in base n
        let mut seqs: Vec<Vec<u8>> = vec![];
        for len in 1..=max_len {
            let total = n.pow(len as u32);
            for code in 0..total {
                let mut c = code;
                let mut v = Vec::with_capacity(len);
                for _ in 0..len {
                    v.push((c % n) as u8);
                    c /= n;
                }
                seqs.push(v);
            }
        }
        let shards = if ctx.quick() { ctx.threads.min(8) } else { ctx.threads };
        let more = sharded(ctx, shards, |shard, _seed| {
            let mut st = Stats::default();
            for (i, seq) in seqs.iter().enumerate() {
                if i % shards != shard {
                    continue;
                }
                let mut h = History::new(ctx.seed, profile, Some(Triggers::all()));
                h.triggered = true;
                h.symbols = seq.clone();
                h.prologue();
                for sym in seq {
                    h.symbol(*sym);
                }
                h.finish();
                judge_history(ctx, &mut st, &h);
                st.add_extra("enumerated_symbol_sequences", 1);
                if st.violations.len() >= 3 {
                    break;
                }
            }
            st
        });
        stats.merge(more);
        stats.exhaustive_scopes.push(format!("C03: every sequence of at most {max_len} symbols over the {n}-symbol abstract event alphabet behind a fixed prologue ({} sequences)", seqs.len()));
    }
    if let Some((q, t, s5plan)) = &plan.s5 {
        // OS-thread interleavings: real Router::spawn() + client threads, offline checker
        // (VERIF_S5_ROUNDS: used by the supplementary ThreadSanitizer pass, tools/tsan_pass.sh)
        let rounds = std::env::var("VERIF_S5_ROUNDS").ok().and_then(|v| v.parse::<u64>().ok()).unwrap_or_else(|| ctx.size(*q, *t));
        crate::sub::s5::run_rounds(ctx, &mut stats, rounds, s5plan);
    }
    stats
}

fn run_stepped(ctx: &Ctx, plan: &Plan) -> Stats {
    let total = ctx.size(plan.quick_histories, plan.thorough_histories);
    let shards = if ctx.quick() { ctx.threads.min(8) } else { ctx.threads };
    sharded(ctx, shards, |shard, seed| {
        RELABEL.with(|r| *r.borrow_mut() = plan.relabel.clone());
        let mut stats = Stats::default();
        let mut rng = Rng::new(seed);
        // directed scenarios first (every shard runs a rotating subset so all are covered)
        for (i, (name, f)) in plan.directed.iter().enumerate() {
            if i % shards != shard % shards.max(1) && shards > 1 {
                continue;
            }
            // (each with several case seeds: the scenarios draw their details from the history's generator)
            for _ in 0..ctx.size(6, 100) {
                let case_seed = rng.next();
                let mut h = History::new(case_seed, &plan.profiles[0], Some(Triggers::default()));
                h.triggered = false;
                h.directed = Some((*name).to_owned());
                h.oplog.push(format!("directed scenario: {name}"));
                f(&mut h);
                h.finish();
                h.shape.push(200 + i as u8);
                judge_history(ctx, &mut stats, &h);
                stats.op(&format!("directed:{name}"));
            }
        }
        let mine = total / shards as u64 + 1;
        for i in 0..mine {
            let profile = &plan.profiles[(i as usize) % plan.profiles.len()];
            let case_seed = rng.next();
            let t0 = std::time::Instant::now();
            let mut h = History::new(case_seed, profile, None);
            h.run_random();
            let dt = t0.elapsed().as_secs_f64();
            if dt > 1.0 {
                stats.add_extra("histories_slower_than_1s", 1);
                if std::env::var("VERIF_SLOW").is_ok() {
                    eprintln!("slow history: {dt:.1}s profile={} case_seed={} steps={} accepted={}", profile.name, case_seed, h.s4.steps, h.model.log.len());
                }
            }
            judge_history(ctx, &mut stats, &h);
            if stats.violations.len() >= 3 {
                break;
            }
        }
        stats
    })
}

pub fn replay(ctx: &Ctx, plan: &Plan, doc: &Value) -> Stats {
    RELABEL.with(|r| *r.borrow_mut() = plan.relabel.clone());
    let mut stats = Stats::default();
    let seed = doc["case_seed"].as_u64().unwrap_or(0);
    let name = doc["profile"].as_str().unwrap_or("");
    let enum_profile = plan.enumerate_session_end.as_ref().map(|x| &x.2);
    let sym_profile = plan.enumerate_symbols.as_ref().map(|x| &x.2);
    let Some(profile) = plan.profiles.iter().chain(enum_profile).chain(sym_profile).find(|p| p.name == name) else {
        stats.inconclusive.push(format!("replay: unknown profile {name}"));
        return stats;
    };
    let forced = doc["forced_trigger_free"].as_bool().unwrap_or(false);
    let mut h = History::new(seed, profile, if forced { Some(Triggers::default()) } else { None });
    if forced {
        h.triggered = false;
    }
    if let Some(d) = doc["directed"].as_str() {
        if let Some((name, f)) = plan.directed.iter().find(|(n, _)| *n == d) {
            let mut h = History::new(seed, &plan.profiles[0], Some(Triggers::default()));
            h.triggered = false;
            h.directed = Some((*name).to_owned());
            h.verbose = true;
            f(&mut h);
            h.finish();
            judge_history(ctx, &mut stats, &h);
            println!("replayed directed scenario {name}: {} operations", h.oplog.len());
            for r in h.records.iter() {
                println!("  => [{}/{}] {}", r.property, r.oracle, r.message);
            }
            stats.shapes.insert(1);
            stats.shapes.insert(2);
            return stats;
        }
    }
    if let Some(syms) = doc["symbols"].as_array() {
        if !syms.is_empty() {
            let enum_profile = plan.enumerate_symbols.as_ref().map(|x| &x.2);
            if let Some(p) = enum_profile {
                let mut h = History::new(seed, p, Some(Triggers::all()));
                h.verbose = true;
                h.prologue();
                for v in syms {
                    h.symbol(v.as_u64().unwrap_or(0) as u8);
                }
                h.finish();
                judge_history(ctx, &mut stats, &h);
                for l in h.oplog.iter() {
                    println!("  {l}");
                }
                for r in h.records.iter() {
                    println!("  => [{}/{}] {}", r.property, r.oracle, r.message);
                }
                return stats;
            }
        }
    }
    if let Some(inj) = doc["inject"].as_array() {
        if inj.len() == 2 {
            h.inject = Some((inj[0].as_u64().unwrap_or(0), inj[1].as_u64().unwrap_or(0) as u8));
        }
    }
    h.verbose = true;
    h.run_random();
    judge_history(ctx, &mut stats, &h);
    println!("replayed history of {} operations:", h.oplog.len());
    for l in h.oplog.iter() {
        println!("  {l}");
    }
    for r in h.records.iter() {
        println!("  => [{}/{}] {}", r.property, r.oracle, r.message);
    }
    if let Some(snap) = h.s4.snapshot() {
        println!("final router snapshot: {}", serde_json::to_string(&snap).unwrap_or_default());
    }
    stats.shapes.insert(1);
    stats.shapes.insert(2);
    stats
}
