//! C12: topic-filter matching and validation follow the MQTT rules in all three copies.
//!
//! Substrate S1: the public functions `matches`, `valid_filter`, `valid_topic`,
//! `has_wildcards` of `rumqttc`, `rumqttc::v5::mqttbytes` and `rumqttd::protocol` are called
//! directly, every call under `guarded` (catch_unwind + panic location).
//!
//! Oracles (names as they appear in records and in the evidence):
//! * `panic`            – a call panicked (facts: function, copy, site, input_class);
//! * `copies-disagree`  – the three copies returned different answers for the same input
//!                        (judged on *every* input, valid or not, empty or not);
//! * `matches-conformance` – on (valid topic, valid filter), both non-empty, the common
//!                        answer differs from M-match (`model::mmatch`);
//! * `valid-filter-conformance`, `valid-topic-conformance`, `has-wildcards-conformance` –
//!                        on a non-empty string the common answer differs from M-match.
//!
//! What is *not* judged: the answer on the empty string and the answer of `matches` outside
//! (valid topic, valid filter) – the statement defines neither; there only no-panic and
//! agreement are demanded. The `DataLog::matches` cache clause is covered by the router
//! checks (S4), not here.
//!
//! Miri smoke (DESIGN.md 2.8, manual: the dependency tree takes ~6 min to build under Miri):
//! `VERIF_THREADS=1 MIRIFLAGS=-Zmiri-disable-isolation cargo +nightly miri run --offline --bin vh -- C12`
//! runs a few thousand calls (`cfg!(miri)` in `plan`); only Miri's own UB report counts there.
//!
//! A case is one (topic, filter) pair or one string; after a known-finding hit the case is
//! not judged further (nothing else is affected: the functions are pure).
use super::{Meta, Prop};
use crate::common::{fnv, guarded, judge, sharded, Ctx, PanicInfo, Record, Rng, Stats};
use crate::model::mmatch as mm;
use serde_json::{json, Value};

const ID: &str = "C12";

/// DESIGN.md section 3 "C12": a, b, '/', '+', '#', '$', a 2-byte and a 3-byte character
const ALPHABET: [char; 8] = ['a', 'b', '/', '+', '#', '$', 'é', '€'];
/// random phase only: adds an upper-case letter for the "case-sensitively" clause and a
/// 4-byte character
const LITERALS: [char; 7] = ['a', 'b', 'A', '$', 'é', '€', '𝄞'];
const RANDOM_ALPHABET: [char; 10] = ['a', 'b', 'A', '/', '+', '#', '$', 'é', '€', '𝄞'];

struct Impl {
    name: &'static str,
    matches: fn(&str, &str) -> bool,
    valid_filter: fn(&str) -> bool,
    valid_topic: fn(&str) -> bool,
    has_wildcards: fn(&str) -> bool,
}

const COPIES: [Impl; 3] = [
    Impl {
        name: "rumqttc-v4",
        matches: rumqttc::matches,
        valid_filter: rumqttc::valid_filter,
        valid_topic: rumqttc::valid_topic,
        has_wildcards: rumqttc::has_wildcards,
    },
    Impl {
        name: "rumqttc-v5",
        matches: rumqttc::v5::mqttbytes::matches,
        valid_filter: rumqttc::v5::mqttbytes::valid_filter,
        valid_topic: rumqttc::v5::mqttbytes::valid_topic,
        has_wildcards: rumqttc::v5::mqttbytes::has_wildcards,
    },
    Impl {
        name: "rumqttd",
        matches: rumqttd::protocol::matches,
        valid_filter: rumqttd::protocol::valid_filter,
        valid_topic: rumqttd::protocol::valid_topic,
        has_wildcards: rumqttd::protocol::has_wildcards,
    },
];

// ---------------------------------------------------------------- counters

const CORNERS: [&str; 9] = [
    "hash-matches-parent",
    "hash-matches-deeper-levels",
    "plus-matches-empty-level",
    "plus-refuses-extra-level",
    "dollar-topic-unmatched",
    "multibyte-first-char-topic",
    "multibyte-inside-topic",
    "empty-level-literal-match",
    "differs-only-in-case",
];

/// Plain counters, flushed into `Stats` once (the per-call `Stats` methods allocate)
#[derive(Default)]
struct Tally {
    calls: u64,
    panics: u64,
    no_panic: u64,
    agree: u64,
    conf_matches: u64,
    conf_matches_true: u64,
    conf_valid_filter: u64,
    conf_valid_topic: u64,
    conf_has_wildcards: u64,
    pairs: u64,
    strings: u64,
    corners: [u64; 9],
}

impl Tally {
    fn flush(&self, st: &mut Stats) {
        st.opn("matches-call", self.pairs * 3);
        st.opn("validation-call", self.strings * 9);
        st.oraclen("panic", self.no_panic);
        st.oraclen("copies-disagree", self.agree);
        st.oraclen("matches-conformance", self.conf_matches);
        st.oraclen("valid-filter-conformance", self.conf_valid_filter);
        st.oraclen("valid-topic-conformance", self.conf_valid_topic);
        st.oraclen("has-wildcards-conformance", self.conf_has_wildcards);
        st.add_extra("matches_conformance_answer_true", self.conf_matches_true);
        st.add_extra("calls_into_code_under_test", self.calls);
        st.panics_caught += self.panics;
        for (i, name) in CORNERS.iter().enumerate() {
            if self.corners[i] > 0 {
                *st.corners.entry((*name).to_owned()).or_default() += self.corners[i];
            }
        }
    }
}

// ---------------------------------------------------------------- one case

fn first_char_multibyte(s: &str) -> bool {
    s.chars().next().map(|c| c.len_utf8() > 1).unwrap_or(false)
}

fn panic_record(function: &str, copy: &str, p: &PanicInfo, input_class: &str, shown: String) -> Record {
    Record::new(
        ID,
        "panic",
        format!("{copy} {function}({shown}) panicked at {}: {}", p.location, p.message),
    )
    .fact("function", function)
    .fact("copy", copy)
    .fact("site", crate::common::panic_site(p))
    .fact("input_class", input_class)
}

/// true: stop the run (enough violations collected)
fn enough(st: &Stats) -> bool {
    st.violations.len() >= 5
}

/// Three guarded calls; None when the case ended (known finding or violation on a panic)
fn call3<T: PartialEq + std::fmt::Debug + Copy>(
    ctx: &Ctx,
    st: &mut Stats,
    ta: &mut Tally,
    function: &str,
    input_class: &str,
    shown: &dyn Fn() -> String,
    replay: &dyn Fn() -> Value,
    f: impl Fn(&Impl) -> T,
) -> Option<T> {
    let mut out: [Option<T>; 3] = [None; 3];
    let mut ended = false;
    for (i, c) in COPIES.iter().enumerate() {
        ta.calls += 1;
        ta.no_panic += 1;
        match guarded(|| f(c)) {
            Ok(v) => out[i] = Some(v),
            Err(p) => {
                ta.panics += 1;
                ended = true;
                let rec = panic_record(function, c.name, &p, input_class, shown());
                // a known finding is looked up per copy: every copy is still called
                let _ = judge(ctx, st, rec, replay);
            }
        }
    }
    if ended {
        return None;
    }
    ta.agree += 1;
    let (a, b, c) = (out[0].unwrap(), out[1].unwrap(), out[2].unwrap());
    if a != b || b != c {
        let rec = Record::new(
            ID,
            "copies-disagree",
            format!(
                "{function}({}) = {a:?} in rumqttc-v4, {b:?} in rumqttc-v5, {c:?} in rumqttd",
                shown()
            ),
        )
        .fact("function", function)
        .fact("rumqttc-v4", format!("{a:?}"))
        .fact("rumqttc-v5", format!("{b:?}"))
        .fact("rumqttd", format!("{c:?}"));
        // nothing sensible to compare with the model; the disagreement is the report
        let _ = judge(ctx, st, rec, replay);
        return None;
    }
    Some(a)
}

fn conformance(
    ctx: &Ctx,
    st: &mut Stats,
    oracle: &str,
    function: &str,
    shown: String,
    got: bool,
    want: bool,
    replay: &dyn Fn() -> Value,
) {
    let rec = Record::new(
        ID,
        oracle,
        format!("{function}({shown}) = {got} in all three copies, the MQTT rules say {want}"),
    )
    .fact("function", function)
    .fact("got", got)
    .fact("want", want);
    let _ = judge(ctx, st, rec, replay);
}

/// matches(topic, filter) in the three copies
fn check_pair(ctx: &Ctx, st: &mut Stats, ta: &mut Tally, topic: &str, filter: &str, in_domain: bool) {
    ta.pairs += 1;
    let class = if first_char_multibyte(topic) {
        ta.corners[5] += 1;
        "topic-first-char-multibyte"
    } else {
        "other"
    };
    let shown = || format!("{topic:?}, {filter:?}");
    let replay = || json!({"kind": "pair", "topic": topic, "filter": filter});
    let Some(got) = call3(ctx, st, ta, "matches", class, &shown, &replay, |c| (c.matches)(topic, filter)) else {
        return;
    };
    if !in_domain {
        return;
    }
    let want = mm::matches(topic, filter);
    ta.conf_matches += 1;
    if want {
        ta.conf_matches_true += 1;
    }
    note_corners(ta, topic, filter, want);
    if got != want {
        conformance(ctx, st, "matches-conformance", "matches", shown(), got, want, &replay);
    }
}

/// the three validation functions on one string
fn check_string(ctx: &Ctx, st: &mut Stats, ta: &mut Tally, s: &str) {
    ta.strings += 1;
    let shown = || format!("{s:?}");
    let replay = || json!({"kind": "string", "s": s});
    let judged = !s.is_empty();
    if let Some(got) = call3(ctx, st, ta, "valid_filter", "any", &shown, &replay, |c| (c.valid_filter)(s)) {
        if judged {
            ta.conf_valid_filter += 1;
            let want = mm::valid_filter(s);
            if got != want {
                conformance(ctx, st, "valid-filter-conformance", "valid_filter", shown(), got, want, &replay);
            }
        }
    }
    if let Some(got) = call3(ctx, st, ta, "valid_topic", "any", &shown, &replay, |c| (c.valid_topic)(s)) {
        if judged {
            ta.conf_valid_topic += 1;
            let want = mm::valid_topic(s);
            if got != want {
                conformance(ctx, st, "valid-topic-conformance", "valid_topic", shown(), got, want, &replay);
            }
        }
    }
    if let Some(got) = call3(ctx, st, ta, "has_wildcards", "any", &shown, &replay, |c| (c.has_wildcards)(s)) {
        if judged {
            ta.conf_has_wildcards += 1;
            let want = mm::has_wildcards(s);
            if got != want {
                conformance(ctx, st, "has-wildcards-conformance", "has_wildcards", shown(), got, want, &replay);
            }
        }
    }
}

/// Named situations of the statement, recognised on (valid topic, valid filter) pairs from
/// the strings alone (never from the code under test)
fn note_corners(ta: &mut Tally, topic: &str, filter: &str, want: bool) {
    let t: Vec<&str> = topic.split('/').collect();
    let f: Vec<&str> = filter.split('/').collect();
    if topic.starts_with('$') {
        // would match if the '$' rule did not exist
        if mm::matches(&topic[1..], filter.strip_prefix('$').unwrap_or(filter)) || filter == "#" {
            ta.corners[4] += 1;
        }
        return;
    }
    if want && f.last() == Some(&"#") {
        if t.len() == f.len() - 1 {
            ta.corners[0] += 1;
        } else if t.len() > f.len() {
            ta.corners[1] += 1;
        }
    }
    if want && f.iter().zip(t.iter()).any(|(fl, tl)| *fl == "+" && tl.is_empty()) {
        ta.corners[2] += 1;
    }
    if !want && f.last() == Some(&"+") && t.len() > f.len() && mm::matches(&t[..f.len()].join("/"), filter) {
        ta.corners[3] += 1;
    }
    if !first_char_multibyte(topic) && !topic.is_ascii() {
        ta.corners[6] += 1;
    }
    if want && f.iter().zip(t.iter()).any(|(fl, tl)| fl.is_empty() && tl.is_empty()) {
        ta.corners[7] += 1;
    }
    if !want && topic != filter && topic.eq_ignore_ascii_case(filter) {
        ta.corners[8] += 1;
    }
}

// ---------------------------------------------------------------- shapes

/// Level classes of a string: the structure the MQTT rules look at, letters abstracted
fn level_classes(s: &str) -> String {
    let mut out = String::new();
    for (i, level) in s.split('/').enumerate() {
        if i > 0 {
            out.push('/');
        }
        out.push(match level {
            "" => 'e',
            "+" => '+',
            "#" => '#',
            l if l.contains('+') || l.contains('#') => 'w',
            l if l.starts_with('$') => '$',
            l if first_char_multibyte(l) => 'm',
            l if !l.is_ascii() => 'n',
            _ => 'l',
        });
    }
    out
}

fn shape(topic: &str, filter: &str, want: bool) -> u64 {
    fnv(format!("{}|{}|{}", level_classes(topic), level_classes(filter), want).as_bytes())
}

// ---------------------------------------------------------------- enumeration

struct Entry {
    s: String,
    topic_ok: bool,
    filter_ok: bool,
}

/// every string of at most `max` symbols over `ALPHABET`, shortest first (the empty one too)
fn all_strings(max: usize) -> Vec<Entry> {
    let mut out = vec![String::new()];
    let mut from = 0;
    for _ in 0..max {
        let to = out.len();
        for i in from..to {
            for c in ALPHABET {
                let mut s = out[i].clone();
                s.push(c);
                out.push(s);
            }
        }
        from = to;
    }
    out.into_iter()
        .map(|s| Entry {
            topic_ok: mm::valid_topic(&s),
            filter_ok: mm::valid_filter(&s),
            s,
        })
        .collect()
}

fn count_strings(max: usize) -> u64 {
    (0..=max as u32).map(|k| 8u64.pow(k)).sum()
}

// ---------------------------------------------------------------- random strings

fn random_level(rng: &mut Rng) -> String {
    if rng.chance(1, 8) {
        return String::new();
    }
    let n = rng.range(1, 4);
    (0..n).map(|_| *rng.pick(&LITERALS)).collect()
}

fn random_topic(rng: &mut Rng, allow_trigger: bool) -> String {
    let levels = *rng.pick(&[1u64, 1, 2, 2, 3, 3, 4, 5, 8, 12]);
    let mut t: Vec<String> = (0..levels).map(|_| random_level(rng)).collect();
    if !allow_trigger {
        while first_char_multibyte(&t[0]) {
            t[0] = random_level(rng);
        }
    } else if rng.chance(1, 2) {
        t[0] = format!("{}{}", rng.pick(&['é', '€', '𝄞']), t[0]);
    }
    let s = t.join("/");
    if s.is_empty() {
        "a".to_owned()
    } else {
        s
    }
}

/// a filter built from the topic's own levels, so that matches are frequent
fn filter_for(rng: &mut Rng, topic: &str) -> String {
    let t: Vec<&str> = topic.split('/').collect();
    let mut f: Vec<String> = Vec::new();
    for level in &t {
        match rng.below(20) {
            0..=10 => f.push((*level).to_owned()),
            11..=15 => f.push("+".to_owned()),
            16 => f.push(random_level(rng)),
            17 => f.push(level.to_uppercase()),
            18 => {
                f.push("#".to_owned());
                break;
            }
            _ => break,
        }
    }
    match rng.below(10) {
        0 | 1 => f.push("#".to_owned()),
        2 => f.push("+".to_owned()),
        3 => f.push(random_level(rng)),
        _ => {}
    }
    if f.is_empty() {
        f.push("#".to_owned());
    }
    let s = f.join("/");
    if s.is_empty() {
        "+".to_owned()
    } else {
        s
    }
}

/// one edit with a symbol of the full alphabet (may leave the valid shapes)
fn mutate(rng: &mut Rng, s: &str, allow_trigger: bool) -> String {
    let mut cs: Vec<char> = s.chars().collect();
    let sym = *rng.pick(&RANDOM_ALPHABET);
    match rng.below(3) {
        0 => {
            let at = rng.below(cs.len() as u64 + 1) as usize;
            cs.insert(at, sym);
        }
        1 if !cs.is_empty() => {
            let at = rng.below(cs.len() as u64) as usize;
            cs.remove(at);
        }
        _ if !cs.is_empty() => {
            let at = rng.below(cs.len() as u64) as usize;
            cs[at] = sym;
        }
        _ => cs.push(sym),
    }
    let out: String = cs.into_iter().collect();
    if !allow_trigger && first_char_multibyte(&out) {
        return s.to_owned();
    }
    out
}

fn random_case(rng: &mut Rng) -> (String, String, bool) {
    // ~15 % of the cases may contain the trigger of the known multi-byte first character
    // panic of matches(); the rest is trigger-free by construction
    let allow_trigger = rng.chance(15, 100);
    let mut topic = random_topic(rng, allow_trigger);
    let mut filter = if rng.chance(4, 5) {
        filter_for(rng, &topic)
    } else {
        let other = random_topic(rng, true);
        filter_for(rng, &other)
    };
    if rng.chance(1, 4) {
        if rng.chance(1, 2) {
            topic = mutate(rng, &topic, allow_trigger);
        } else {
            filter = mutate(rng, &filter, true);
        }
    }
    // up to 40 symbols
    let cut = |s: String| s.chars().take(40).collect::<String>();
    (cut(topic), cut(filter), allow_trigger)
}

// ---------------------------------------------------------------- the run

struct Plan {
    /// every (topic, filter) pair of strings of at most this many symbols
    pairs_max: usize,
    /// every (valid topic, valid filter) pair of at most this many symbols
    valid_pairs_max: usize,
    /// the validation functions on every string of at most this many symbols
    strings_max: usize,
    random: u64,
}

/// the `index`-th string of exactly `len` symbols (base-8 digits, most significant first)
fn nth_string(len: usize, mut index: u64) -> String {
    let mut cs = ['a'; 16];
    for k in (0..len).rev() {
        cs[k] = ALPHABET[(index % 8) as usize];
        index /= 8;
    }
    cs[..len].iter().collect()
}

fn work(ctx: &Ctx, plan: &Plan, strings: &[Entry], shard: usize, shards: usize, seed: u64) -> Stats {
    let mut st = Stats::default();
    let mut ta = Tally::default();

    // (1) validation functions, exhaustive
    'strings: for len in 0..=plan.strings_max {
        for index in 0..8u64.pow(len as u32) {
            if index as usize % shards != shard {
                continue;
            }
            st.evaluations += 1;
            check_string(ctx, &mut st, &mut ta, &nth_string(len, index));
            if enough(&st) {
                break 'strings;
            }
        }
    }

    // (2) all pairs, exhaustive
    let n_pairs = count_strings(plan.pairs_max) as usize;
    'pairs: for (i, t) in strings[..n_pairs].iter().enumerate() {
        if i % shards != shard {
            continue;
        }
        for f in &strings[..n_pairs] {
            st.evaluations += 1;
            let in_domain = t.topic_ok && f.filter_ok;
            check_pair(ctx, &mut st, &mut ta, &t.s, &f.s, in_domain);
            if in_domain {
                st.shapes.insert(shape(&t.s, &f.s, mm::matches(&t.s, &f.s)));
            }
        }
        if enough(&st) {
            break 'pairs;
        }
    }

    // (3) conformance scope: longer (valid topic, valid filter) pairs, exhaustive
    let n_valid = count_strings(plan.valid_pairs_max) as usize;
    let topics: Vec<&Entry> = strings[..n_valid].iter().filter(|e| e.topic_ok).collect();
    let filters: Vec<&Entry> = strings[..n_valid].iter().filter(|e| e.filter_ok).collect();
    'valid: for (i, t) in topics.iter().enumerate() {
        if i % shards != shard {
            continue;
        }
        for f in &filters {
            // pairs of at most pairs_max symbols each were done in (2)
            if t.s.chars().count() <= plan.pairs_max && f.s.chars().count() <= plan.pairs_max {
                continue;
            }
            st.evaluations += 1;
            check_pair(ctx, &mut st, &mut ta, &t.s, &f.s, true);
        }
        if enough(&st) {
            break 'valid;
        }
    }
    if shard == 0 {
        st.add_extra("valid_topics_in_conformance_scope", topics.len() as u64);
        st.add_extra("valid_filters_in_conformance_scope", filters.len() as u64);
    }

    // (4) random, longer strings
    let mut rng = Rng::new(seed ^ 0xc12);
    let mut with_trigger = 0u64;
    for n in 0..plan.random / shards as u64 {
        let (topic, filter, trig) = random_case(&mut rng);
        with_trigger += trig as u64;
        st.evaluations += 1;
        let in_domain = mm::valid_topic(&topic) && mm::valid_filter(&filter);
        check_pair(ctx, &mut st, &mut ta, &topic, &filter, in_domain);
        check_string(ctx, &mut st, &mut ta, &topic);
        check_string(ctx, &mut st, &mut ta, &filter);
        if in_domain {
            st.shapes.insert(shape(&topic, &filter, mm::matches(&topic, &filter)));
        }
        if shard == 0 && n < 1 {
            st.sample(sample(&topic, &filter));
        }
        if enough(&st) {
            break;
        }
    }
    st.add_extra("random_cases_allowing_known_trigger", with_trigger);
    ta.flush(&mut st);
    st
}

/// a case written out with what the monitors observed
fn sample(topic: &str, filter: &str) -> Value {
    let obs = |r: Result<bool, PanicInfo>| match r {
        Ok(v) => json!(v),
        Err(p) => json!(format!("panic at {}", p.location)),
    };
    let mut m = serde_json::Map::new();
    for c in COPIES.iter() {
        m.insert(
            c.name.to_owned(),
            json!({
                "matches": obs(guarded(|| (c.matches)(topic, filter))),
                "valid_topic(topic)": obs(guarded(|| (c.valid_topic)(topic))),
                "valid_filter(filter)": obs(guarded(|| (c.valid_filter)(filter))),
                "has_wildcards(filter)": obs(guarded(|| (c.has_wildcards)(filter))),
            }),
        );
    }
    let in_domain = mm::valid_topic(topic) && mm::valid_filter(filter);
    json!({
        "topic": topic,
        "filter": filter,
        "observed": m,
        "model": {
            "valid_topic(topic)": mm::valid_topic(topic),
            "valid_filter(filter)": mm::valid_filter(filter),
            "matches": if in_domain { json!(mm::matches(topic, filter)) } else { json!("not defined (outside valid topic x valid filter)") },
        }
    })
}

fn plan(ctx: &Ctx) -> Plan {
    if cfg!(miri) {
        // Miri smoke (DESIGN.md 2.8): a few hundred calls, judged by Miri's own UB reports
        return Plan {
            pairs_max: 1,
            valid_pairs_max: 2,
            strings_max: 2,
            random: 40,
        };
    }
    if ctx.quick() {
        Plan {
            pairs_max: 3,
            valid_pairs_max: 4,
            strings_max: 5,
            random: ctx.size(400_000, 0),
        }
    } else {
        Plan {
            pairs_max: 4,
            valid_pairs_max: 6,
            strings_max: 7,
            random: ctx.size(0, 10_000_000),
        }
    }
}

fn routing_plan() -> super::s4common::Plan {
    use crate::sub::s4drive::{base_profile, Stepping};
    let mut p = base_profile("c12-routing");
    p.topics = vec!["a", "a/b", "a/b/c", "b", "é/x", "a//b", "/a", "€", "A/b", "$x/y"];
    p.filters = vec!["a/#", "a/+", "+/b", "#", "+", "a/b", "é/#", "é/+", "a//+", "/+", "+/+", "a/b/#", "a/+/c", "A/+", "€"];
    p.w.subscribe = 16;
    p.w.unsubscribe = 6;
    p.w.publish = 30;
    p.burst_pm = 0;
    p.persistent_pm = 0;
    p.hostile = false;
    p.ops = (30, 120);
    p.trigger_pm = 0;
    let mut single = p.clone();
    single.name = "c12-routing-single";
    single.stepping = Stepping::Single;
    super::s4common::Plan {
        profiles: vec![p, single],
        directed: vec![],
        quick_histories: 300,
        thorough_histories: 120_000,
        s5: None,
        enumerate_session_end: None,
        enumerate_symbols: None,
        relabel: Some(("C12", vec!["gap", "undelivered", "no-matching-subscription", "spurious", "before-subscription", "duplicate", "after-unsubscribe"])),
    }
}

fn run(ctx: &Ctx) -> Stats {
    let plan = plan(ctx);
    let threads = ctx.threads.max(1);
    let strings = all_strings(plan.pairs_max.max(plan.valid_pairs_max));
    let mut st = sharded(ctx, threads, |shard, seed| work(ctx, &plan, &strings, shard, threads, seed));
    // every shard stops after 5 violations; keep 5 in total
    st.violations.truncate(5);
    // the broker's copy is also consulted through the router's routing cache (DataLog::matches /
    // publish_filters): seeded subscribe/publish histories over the same alphabet against the real router,
    // any delivery that disagrees with the reference matcher is this property's violation
    st.merge(super::s4common::run(ctx, &routing_plan()));
    st.sample(sample("$a/b", "+/b"));
    st.sample(sample("é/a", "+/a"));
    if st.violations.is_empty() {
        st.exhaustive_scopes.push(format!(
            "matches(): every (topic, filter) pair of strings of <= {} symbols over {{a b / + # $ é €}} ({} strings each, empty string included), all three copies: no-panic + agreement, conformance on the valid pairs",
            plan.pairs_max,
            count_strings(plan.pairs_max)
        ));
        st.exhaustive_scopes.push(format!(
            "matches(): every (valid topic, valid filter) pair of <= {} symbols over the same alphabet, all three copies: no-panic + agreement + conformance",
            plan.valid_pairs_max
        ));
        st.exhaustive_scopes.push(format!(
            "valid_filter / valid_topic / has_wildcards: every string of <= {} symbols over the same alphabet ({} strings), all three copies",
            plan.strings_max,
            count_strings(plan.strings_max)
        ));
    }
    st
}

fn replay(ctx: &Ctx, case: &Value) -> Stats {
    let mut st = Stats::default();
    let mut ta = Tally::default();
    st.evaluations = 1;
    match case["kind"].as_str() {
        Some("pair") => {
            let topic = case["topic"].as_str().unwrap_or("");
            let filter = case["filter"].as_str().unwrap_or("");
            let in_domain = mm::valid_topic(topic) && mm::valid_filter(filter);
            check_pair(ctx, &mut st, &mut ta, topic, filter, in_domain);
            st.sample(sample(topic, filter));
        }
        Some("string") => {
            let s = case["s"].as_str().unwrap_or("");
            check_string(ctx, &mut st, &mut ta, s);
            st.sample(json!({"string": s}));
        }
        _ => st.inconclusive.push("replay file has no C12 case".into()),
    }
    ta.flush(&mut st);
    // a single replayed case cannot reach the coverage floors; say so instead of passing
    if st.violations.is_empty() {
        st.inconclusive.push("replayed case did not reproduce a violation".into());
    }
    st
}

pub fn prop() -> Prop {
    Prop {
        id: ID,
        meta: Meta {
            level: "exploration",
            rule: "a case is one (topic, filter) pair given to matches() of all three copies, or one string given to the three validation functions of all three copies. distinct_nontrivial counts distinct (level classes of the topic, level classes of the filter, M-match answer) triples among the pairs judged for conformance in the all-pairs scope and the random phase, where a level class is one of empty, '+', '#', literal, '$'-first literal, multi-byte-first literal, literal with an inner multi-byte character; letters are abstracted, pairs outside (valid topic, valid filter) are not counted",
            assumptions: &[
                "the answer on the empty string and the answer of matches() outside (valid topic, valid filter) are not defined by the statement: only no-panic and agreement of the copies are demanded there",
                "has_wildcards(s) is read as: s contains '+' or '#'",
                "the DataLog::matches cache clause is exercised by the router checks, not here",
            ],
            floors: &[
                ("matches-conformance", 100_000),
                ("copies-disagree", 300_000),
                ("valid-filter-conformance", 30_000),
                ("hash-matches-parent", 100),
                ("hash-matches-deeper-levels", 100),
                ("plus-matches-empty-level", 100),
                ("plus-refuses-extra-level", 100),
                ("dollar-topic-unmatched", 100),
                ("multibyte-first-char-topic", 100),
                ("multibyte-inside-topic", 100),
                ("empty-level-literal-match", 100),
                ("differs-only-in-case", 10),
            ],
        },
        run,
        replay: Some(replay),
    }
}
