//! C18, real-time supplement: keep-alive under *saturated* inbound traffic.
//!
//! Under the paused clock of S3 time only advances when every task is blocked, so a keep-alive
//! timer that is starved by a busy connection cannot be observed there (the deadline never passes
//! while the client is busy). This scenario therefore runs in real time: an in-memory transport
//! that always has QoS 0 publishes to read and answers every PINGREQ, keep-alive 1 s, the real
//! event loop polled for 4 s. The verdict is deliberately load-tolerant: three pings are due; the
//! oracle only demands that at least ONE was sent (a starved timer sends none at all).
use crate::common::{Ctx, Record, Stats};
use serde_json::json;
use std::sync::atomic::{AtomicU64, Ordering};
use std::sync::{Arc, Mutex};
use std::time::{Duration, Instant};

static ADDR: AtomicU64 = AtomicU64::new(0);

/// A transport that is *always* readable: the read side yields CONNACK, then whole QoS 0 publishes for
/// ever (PINGRESPs in between, on frame boundaries); the write side records every PINGREQ. It never
/// returns Pending, so something is ready at every entry of the event loop's select.
struct Flood {
    v5: bool,
    connack_sent: bool,
    owed: u64,
    pings: Arc<Mutex<Vec<Duration>>>,
    start: Instant,
    frames: Arc<AtomicU64>,
    pos: usize,
}

impl tokio::io::AsyncRead for Flood {
    fn poll_read(mut self: std::pin::Pin<&mut Self>, _cx: &mut std::task::Context<'_>, buf: &mut tokio::io::ReadBuf<'_>) -> std::task::Poll<std::io::Result<()>> {
        if !self.connack_sent {
            self.connack_sent = true;
            buf.put_slice(if self.v5 { &[0x20, 0x03, 0x00, 0x00, 0x00] } else { &[0x20, 0x02, 0x00, 0x00] });
            return std::task::Poll::Ready(Ok(()));
        }
        while self.pos == 0 && self.owed > 0 && buf.remaining() >= 2 {
            self.owed -= 1;
            buf.put_slice(&[0xD0, 0x00]);
        }
        let frame: &[u8] = if self.v5 { &[0x30, 0x05, 0x00, 0x01, b't', 0x00, b'x'] } else { &[0x30, 0x04, 0x00, 0x01, b't', b'x'] };
        let mut written = 0;
        while buf.remaining() > 0 && written < 256 {
            let take = (frame.len() - self.pos).min(buf.remaining());
            let pos = self.pos;
            buf.put_slice(&frame[pos..pos + take]);
            self.pos = (pos + take) % frame.len();
            written += take;
            if self.pos == 0 {
                self.frames.fetch_add(1, Ordering::Relaxed);
                if self.owed > 0 {
                    break;
                }
            }
        }
        std::task::Poll::Ready(Ok(()))
    }
}

impl tokio::io::AsyncWrite for Flood {
    fn poll_write(mut self: std::pin::Pin<&mut Self>, _cx: &mut std::task::Context<'_>, data: &[u8]) -> std::task::Poll<std::io::Result<usize>> {
        let mut i = 0;
        while i + 1 < data.len() {
            if data[i] == 0xC0 && data[i + 1] == 0x00 {
                self.owed += 1;
                let at = self.start.elapsed();
                self.pings.lock().unwrap().push(at);
                i += 2;
            } else if data[i] >> 4 == 1 {
                i += 2 + data[i + 1] as usize; // the CONNECT frame (remaining length < 128 here)
            } else {
                i += 1;
            }
        }
        std::task::Poll::Ready(Ok(data.len()))
    }
    fn poll_flush(self: std::pin::Pin<&mut Self>, _cx: &mut std::task::Context<'_>) -> std::task::Poll<std::io::Result<()>> {
        std::task::Poll::Ready(Ok(()))
    }
    fn poll_shutdown(self: std::pin::Pin<&mut Self>, _cx: &mut std::task::Context<'_>) -> std::task::Poll<std::io::Result<()>> {
        std::task::Poll::Ready(Ok(()))
    }
}

fn one(v5: bool, long: bool, stats: &mut Stats) -> Option<Record> {
    let addr = format!("verif-c18rt-{}", ADDR.fetch_add(1, Ordering::SeqCst));
    let pings = Arc::new(Mutex::new(vec![]));
    let frames = Arc::new(AtomicU64::new(0));
    let (p2, f2) = (pings.clone(), frames.clone());
    let connector: rumqttc::verif::Connector = Arc::new(move || {
        let (p, f) = (p2.clone(), f2.clone());
        Box::pin(async move {
            let s: rumqttc::verif::Stream = Box::new(Flood {
                v5,
                connack_sent: false,
                owed: 0,
                pings: p,
                start: Instant::now(),
                frames: f,
                pos: 0,
            });
            Ok(s)
        })
    });
    rumqttc::verif::register(&addr, connector);
    let rt = tokio::runtime::Builder::new_current_thread().enable_time().build().unwrap();
    let observe = Duration::from_millis(4000);
    let (events, errors) = rt.block_on(async {
        let t0 = Instant::now();
        let (mut events, mut errors) = (0u64, vec![]);
        let mut announced = 0u64;
        if v5 {
            let mut o = rumqttc::v5::MqttOptions::new("verif", &addr, 1883);
            o.set_keep_alive(Duration::from_secs(5)); // the v5 options reject < 5 s; the server keep alive lowers it
            let _ = &mut o;
            let (_c, mut el) = rumqttc::v5::AsyncClient::new(o, 10);
            // v5 cannot be configured below 5 s: the quick tier only checks that polling the flood neither
            // errors nor stalls, the thorough tier observes 6.5 s (one PINGREQ is due)
            let mut n = 0u64;
            while t0.elapsed() < Duration::from_millis(if long { 6500 } else { 1500 }) {
                n += 1;
                if n % 64 == 0 {
                    tokio::task::yield_now().await;
                }
                match tokio::time::timeout(Duration::from_millis(500), el.poll()).await {
                    Ok(Ok(_)) => events += 1,
                    Ok(Err(e)) => {
                        errors.push(format!("{e:?}"));
                        break;
                    }
                    Err(_) => break,
                }
            }
        } else {
            let mut o = rumqttc::MqttOptions::new("verif", &addr, 1883);
            o.set_keep_alive(Duration::from_secs(1));
            let (_c, mut el) = rumqttc::AsyncClient::new(o, 10);
            let mut n = 0u64;
            while t0.elapsed() < observe {
                n += 1;
                if n % 64 == 0 {
                    // the harness (not the client) hands control back to the runtime so that it turns its timer wheel
                    tokio::task::yield_now().await;
                }
                match tokio::time::timeout(Duration::from_millis(500), el.poll()).await {
                    Ok(Ok(ev)) => {
                        if matches!(ev, rumqttc::Event::Outgoing(rumqttc::Outgoing::PingReq)) {
                            announced += 1;
                        }
                        events += 1
                    }
                    Ok(Err(e)) => {
                        errors.push(format!("{e:?}"));
                        break;
                    }
                    Err(_) => break,
                }
            }
        }
        if std::env::var("VERIF_DEBUG_MODEL").is_ok() {
            eprintln!("c18rt: announced pings {announced}");
        }
        (events, errors)
    });
    rumqttc::verif::unregister(&addr);
    let pings = pings.lock().unwrap().clone();
    stats.evaluations += 1;
    stats.opn("rt-incoming-events", events);
    stats.opn("rt-pingreqs-observed", pings.len() as u64);
    stats.oracle("ping-under-saturation");
    stats.corner("saturated-inbound-traffic");
    stats.shapes.insert(crate::common::fnv(if v5 { b"c18rt-v5" } else { b"c18rt-v4" }));
    if stats.samples.len() < 3 {
        stats.sample(json!({"substrate": "real-time flood", "version": if v5 {"v5"} else {"v4"}, "keep_alive_s": if v5 {5} else {1}, "incoming_events": events, "pingreqs_at_ms": pings.iter().map(|d| d.as_millis() as u64).collect::<Vec<_>>(), "errors": errors}));
    }
    if let Some(e) = errors.first() {
        return Some(
            Record::new("C18", "error-under-saturation", format!("poll() failed with {e} while the broker floods QoS 0 publishes and answers every ping"))
                .fact("version", if v5 { "v5" } else { "v4" }),
        );
    }
    if (!v5 || long) && pings.is_empty() && events > 1000 {
        return Some(
            Record::new(
                "C18",
                "no-ping-under-saturation",
                format!(
                    "keep-alive {} s, {events} incoming publishes surfaced in {} s of saturated inbound traffic, but not a single PINGREQ was sent",
                    if v5 { 5 } else { 1 },
                    if v5 { 6.5 } else { 4.0 }
                ),
            )
            .fact("version", if v5 { "v5" } else { "v4" }),
        );
    }
    None
}

pub fn run(ctx: &Ctx, stats: &mut Stats) {
    for v5 in [false, true] {
        if let Some(rec) = one(v5, !ctx.quick(), stats) {
            crate::common::judge(ctx, stats, rec, || json!({"substrate": "real-time flood", "version": if v5 {"v5"} else {"v4"}, "note": "real-time scenario: re-run the check to re-execute it"}));
        }
    }
}
