//! C18, real-time supplement: keep-alive under *saturated* inbound traffic.
//!
//! Under the paused clock of S3 time only advances when every task is blocked, so a keep-alive
//! timer that is starved by a busy connection cannot be observed there (the deadline never passes
//! while the client is busy). This scenario therefore runs in real time: an in-memory transport
//! that always has QoS 0 publishes to read and answers every PINGREQ, keep-alive 1 s, the real
//! event loop polled for 4 s. The verdict is deliberately load-tolerant: three pings are due; the
//! oracle only demands that at least ONE was sent (a starved timer sends none at all).
use crate::common::{Ctx, Record, Stats};
use serde_json::json;
use std::sync::atomic::{AtomicU64, Ordering};
use std::sync::{Arc, Mutex};
use std::time::{Duration, Instant};

static ADDR: AtomicU64 = AtomicU64::new(0);

/// Broker side of the in-memory pipe: CONNACK, then an endless flood of QoS 0 publishes; every PINGREQ
/// read from the client is answered and its arrival time recorded.
async fn flood_broker(mut pipe: tokio::io::DuplexStream, v5: bool, pings: Arc<Mutex<Vec<Duration>>>, frames: Arc<AtomicU64>) {
    use tokio::io::{AsyncReadExt, AsyncWriteExt};
    let start = Instant::now();
    let mut inbuf = vec![0u8; 4096];
    // wait for the CONNECT
    if pipe.read(&mut inbuf).await.unwrap_or(0) == 0 {
        return;
    }
    let connack: &[u8] = if v5 { &[0x20, 0x03, 0x00, 0x00, 0x00] } else { &[0x20, 0x02, 0x00, 0x00] };
    if pipe.write_all(connack).await.is_err() {
        return;
    }
    let frame: &[u8] = if v5 { &[0x30, 0x05, 0x00, 0x01, b't', 0x00, b'x'] } else { &[0x30, 0x04, 0x00, 0x01, b't', b'x'] };
    let chunk: Vec<u8> = frame.iter().copied().cycle().take(frame.len() * 256).collect();
    let (mut rd, mut wr) = tokio::io::split(pipe);
    let owed = Arc::new(AtomicU64::new(0));
    let owed_r = owed.clone();
    // reader: every PINGREQ (C0 00) is recorded and owed a PINGRESP
    tokio::spawn(async move {
        loop {
            let n = match rd.read(&mut inbuf).await {
                Ok(0) | Err(_) => return,
                Ok(n) => n,
            };
            let mut i = 0;
            while i + 1 < n {
                if inbuf[i] == 0xC0 && inbuf[i + 1] == 0x00 {
                    pings.lock().unwrap().push(start.elapsed());
                    owed_r.fetch_add(1, Ordering::SeqCst);
                }
                i += 2;
            }
        }
    });
    // writer: whole chunks of publishes, PINGRESPs in between (always on a frame boundary)
    loop {
        while owed.load(Ordering::SeqCst) > 0 {
            owed.fetch_sub(1, Ordering::SeqCst);
            if wr.write_all(&[0xD0, 0x00]).await.is_err() {
                return;
            }
        }
        if wr.write_all(&chunk).await.is_err() {
            return;
        }
        frames.fetch_add(256, Ordering::Relaxed);
    }
}

fn one(v5: bool, stats: &mut Stats) -> Option<Record> {
    let addr = format!("verif-c18rt-{}", ADDR.fetch_add(1, Ordering::SeqCst));
    let pings = Arc::new(Mutex::new(vec![]));
    let frames = Arc::new(AtomicU64::new(0));
    let (p2, f2) = (pings.clone(), frames.clone());
    let connector: rumqttc::verif::Connector = Arc::new(move || {
        let (p, f) = (p2.clone(), f2.clone());
        Box::pin(async move {
            let (client, broker) = tokio::io::duplex(16 * 1024);
            tokio::spawn(flood_broker(broker, v5, p, f));
            let s: rumqttc::verif::Stream = Box::new(client);
            Ok(s)
        })
    });
    rumqttc::verif::register(&addr, connector);
    let rt = tokio::runtime::Builder::new_current_thread().enable_time().build().unwrap();
    let observe = Duration::from_millis(4000);
    let (events, errors) = rt.block_on(async {
        let t0 = Instant::now();
        let (mut events, mut errors) = (0u64, vec![]);
        let mut announced = 0u64;
        if v5 {
            let mut o = rumqttc::v5::MqttOptions::new("verif", &addr, 1883);
            o.set_keep_alive(Duration::from_secs(5)); // the v5 options reject < 5 s; the server keep alive lowers it
            let _ = &mut o;
            let (_c, mut el) = rumqttc::v5::AsyncClient::new(o, 10);
            // v5 cannot be configured below 5 s: observe for one interval more than 5 s would take too long,
            // so the v5 run only checks that polling the flood neither errors nor stalls
            while t0.elapsed() < Duration::from_millis(1500) {
                match tokio::time::timeout(Duration::from_millis(500), el.poll()).await {
                    Ok(Ok(_)) => events += 1,
                    Ok(Err(e)) => {
                        errors.push(format!("{e:?}"));
                        break;
                    }
                    Err(_) => break,
                }
            }
        } else {
            let mut o = rumqttc::MqttOptions::new("verif", &addr, 1883);
            o.set_keep_alive(Duration::from_secs(1));
            let (_c, mut el) = rumqttc::AsyncClient::new(o, 10);
            while t0.elapsed() < observe {
                match tokio::time::timeout(Duration::from_millis(500), el.poll()).await {
                    Ok(Ok(ev)) => {
                        if matches!(ev, rumqttc::Event::Outgoing(rumqttc::Outgoing::PingReq)) {
                            announced += 1;
                        }
                        events += 1
                    }
                    Ok(Err(e)) => {
                        errors.push(format!("{e:?}"));
                        break;
                    }
                    Err(_) => break,
                }
            }
        }
        if std::env::var("VERIF_DEBUG_MODEL").is_ok() {
            eprintln!("c18rt: announced pings {announced}");
        }
        (events, errors)
    });
    rumqttc::verif::unregister(&addr);
    let pings = pings.lock().unwrap().clone();
    stats.evaluations += 1;
    stats.opn("rt-incoming-events", events);
    stats.opn("rt-pingreqs-observed", pings.len() as u64);
    stats.oracle("ping-under-saturation");
    stats.corner("saturated-inbound-traffic");
    stats.shapes.insert(crate::common::fnv(if v5 { b"c18rt-v5" } else { b"c18rt-v4" }));
    if stats.samples.len() < 3 {
        stats.sample(json!({"substrate": "real-time flood", "version": if v5 {"v5"} else {"v4"}, "keep_alive_s": if v5 {5} else {1}, "incoming_events": events, "pingreqs_at_ms": pings.iter().map(|d| d.as_millis() as u64).collect::<Vec<_>>(), "errors": errors}));
    }
    if let Some(e) = errors.first() {
        return Some(
            Record::new("C18", "error-under-saturation", format!("poll() failed with {e} while the broker floods QoS 0 publishes and answers every ping"))
                .fact("version", if v5 { "v5" } else { "v4" }),
        );
    }
    if !v5 && pings.is_empty() && events > 1000 {
        return Some(
            Record::new("C18", "no-ping-under-saturation", format!("keep-alive 1 s, {events} incoming publishes surfaced in 4 s of saturated inbound traffic, but not a single PINGREQ was sent (3 were due)"))
                .fact("version", "v4"),
        );
    }
    None
}

pub fn run(ctx: &Ctx, stats: &mut Stats) {
    for v5 in [false, true] {
        if let Some(rec) = one(v5, stats) {
            crate::common::judge(ctx, stats, rec, || json!({"substrate": "real-time flood", "version": if v5 {"v5"} else {"v4"}, "note": "real-time scenario: re-run the check to re-execute it"}));
        }
    }
}
