//! C07: client packet ids unique, inflight window bounded, flow control resumes, a collision
//! is only pending while its id is genuinely held.
//!
//! State-machine half (substrate S2). "Unacknowledged" = from first write until PUBACK, or
//! PUBCOMP for QoS 2 (DESIGN.md section 4, binding reading). The request gate of
//! `EventLoop::select` (`inflight < limit && collision.is_none()`, bypassed by `pending`) is
//! applied by the S2 driver exactly as the event loop applies it; what is judged here is
//! whether the state machine's side of that gate (`inflight()`, `collision`) agrees with the
//! wire-side shadow M-client keeps, after every call.
//!
//! The event-loop half ("request channel not consumed while the window is full or a collision
//! is pending; resumes within one poll round after an ack") plugs in through `s3_half()`.
use super::{Meta, Prop};
use crate::common::{panic_site, Ctx, Record, Stats};
use crate::gen::cwork::{self, Step, View};
use crate::model::mclient::InClass;
use crate::sub::s2::{Outcome, Pk, Via};
use serde_json::Value;

pub const ID: &str = "C07";

pub fn oracles(v: &View, stats: &mut Stats) -> Vec<Record> {
    let mut out = vec![];
    let reads_state = matches!(
        v.step,
        Step::Call { .. } | Step::Failed | Step::Reconnected { .. } | Step::ReplayDone
    );
    if !reads_state {
        return out;
    }

    if let Step::Call { call, cls, delta, .. } = &v.step {
        // panics on the request side (allocator arithmetic) belong to this property
        if let (Outcome::Panic(p), Via::Request | Via::Replay | Via::Ping) = (&call.outcome, call.via) {
            out.push(
                v.tag(Record::new(
                    ID,
                    "panic",
                    format!("{} panicked at {}: {}", call.input.show(), p.location, p.message),
                ))
                .fact("site", panic_site(p)),
            );
            return out;
        }

        // (1) ids on the wire: non-zero, no larger than the limit
        if let Outcome::Ok(Some(p)) = &call.outcome {
            let carries_id = match p {
                Pk::Publish { qos, .. } => *qos > 0,
                Pk::Subscribe { .. } | Pk::Unsubscribe { .. } => true,
                _ => false,
            };
            if carries_id {
                stats.oracle("C07/pkid-in-range");
                // a retransmission keeps its original id (C02 demands that), so it is bounded
                // by the configured limit; a new packet by the limit in force
                let is_retransmission = call.via == Via::Replay;
                let bound = if is_retransmission { v.limit_cfg } else { v.limit_eff };
                if p.pkid() == 0 || p.pkid() > bound {
                    out.push(
                        v.tag(Record::new(
                            ID,
                            "pkid-out-of-range",
                            format!(
                                "{} written with packet id {} (limit in force {}, configured {})",
                                p.show(),
                                p.pkid(),
                                v.limit_eff,
                                v.limit_cfg
                            ),
                        ))
                        .fact("packet", p.kind())
                        .fact("zero", p.pkid() == 0)
                        .fact("limit_lowered_by_connack", v.limit_lowered)
                        .fact("lowered_to_or_below_last_id", v.lowered_to_or_below_last_id),
                    );
                }
            }
        }

        // (2) no two simultaneously unacknowledged publishes share an id
        if matches!(&call.outcome, Outcome::Ok(Some(Pk::Publish { qos, .. })) if *qos > 0) {
            stats.oracle("C07/pkid-unique-among-unacknowledged");
            if let Some((holder, phase)) = &delta.pkid_conflict {
                out.push(
                    v.tag(Record::new(
                        ID,
                        "pkid-reused",
                        format!(
                            "{} written while publish '{}' still holds that id ({}: unacknowledged until {})",
                            call.outcome.show(),
                            holder,
                            phase.name(),
                            if phase.name() == "released" { "PUBCOMP" } else { "PUBACK/PUBREC" }
                        ),
                    ))
                    .fact("holder_phase", phase.name()),
                );
            }
        }

        // (3) a parked publish keeps the id it was announced with
        if delta.parked_pkid_changed {
            out.push(v.tag(Record::new(
                ID,
                "parked-pkid-changed",
                format!("a parked publish was written under another id than announced: {}", call.show()),
            )));
        }

        // (4) an acknowledgement that frees a slot must be accepted
        if call.via == Via::Read && matches!(cls, InClass::AckFinal(_) | InClass::AckRec(_)) {
            stats.oracle("C07/solicited-ack-accepted");
            if !call.outcome.is_ok() {
                out.push(
                    v.tag(Record::new(
                        ID,
                        "solicited-ack-rejected",
                        format!("{} answers a publish written on this connection but was rejected: {}", call.input.show(), call.show()),
                    ))
                    .fact("packet", call.input.kind()),
                );
            }
        }
    }

    // (5) window: never more than `limit` written and unacknowledged
    stats.oracle("C07/window-within-limit");
    let window = v.model.window();
    if window > v.limit_eff as usize {
        out.push(
            v.tag(Record::new(
                ID,
                "window-exceeded",
                format!("{} publishes are written and unacknowledged, limit in force is {} (after {})", window, v.limit_eff, v.step_show()),
            ))
            .fact("limit_lowered_by_connack", v.limit_lowered)
            // the excess consists of carried-over publishes (counted from the CONNACK on, replayed whatever the
            // window says) unless this very step wrote a *new* request's publish beyond the limit
            .fact(
                "exceeded_by_replayed_publish",
                !matches!(&v.step, Step::Call { call, .. } if call.via == Via::Request && matches!(&call.outcome, Outcome::Ok(Some(Pk::Publish { qos, .. })) if *qos > 0)),
            ),
        );
    }

    // (6) a collision is pending only while its id is genuinely held, so it can be resolved
    stats.oracle("C07/collision-id-held");
    if let Some(c) = &v.collision {
        let id = c.pkid();
        let model_holds = v.model.holder(id).is_some();
        let state_holds = match v.after {
            Some(a) => {
                a.held.pubs.iter().any(|p| p.pkid() == id)
                    || a.held.rels.contains(&id)
                    || v.pending
                        .iter()
                        .any(|p| matches!(p, Pk::Publish { .. } | Pk::PubRel { .. }) && p.pkid() == id)
            }
            None => true,
        };
        if !model_holds || !state_holds {
            out.push(
                v.tag(Record::new(
                    ID,
                    "collision-id-not-held",
                    format!(
                        "collision = {} is pending but no unacknowledged publish holds id {} (wire-side shadow: {}, state/pending: {}) after {}: it can never be resolved",
                        c.show(),
                        id,
                        model_holds,
                        state_holds,
                        v.step_show()
                    ),
                ))
                .fact("held_on_wire", model_holds)
                .fact("held_in_state", state_holds),
            );
        }
    }

    // (7) the two halves of the gate agree with the wire-side shadow. While `pending` is being
    // replayed the state counts what has been written on this connection so far.
    if v.connected {
        stats.oracle("C07/collision-matches-parked");
        // a publish that was parked when the connection was lost travels in `pending` until it
        // is replayed (and parked again if its id is still held)
        let parked = v
            .model
            .parked()
            .map(|l| l.pid.clone())
            .filter(|pid| !v.pending.iter().any(|p| matches!(p, Pk::Publish { payload, .. } if payload == pid)));
        let coll = v.collision.as_ref().map(|p| match p {
            Pk::Publish { payload, .. } => payload.clone(),
            _ => String::new(),
        });
        if parked != coll {
            out.push(v.tag(Record::new(
                ID,
                "collision-mismatch",
                format!(
                    "state.collision holds {:?} but the publish announced as waiting for an ack is {:?} (after {})",
                    coll,
                    parked,
                    v.step_show()
                ),
            )));
        }
        stats.oracle("C07/inflight-equals-window");
        let on_conn = v.model.window_on(v.conn);
        if v.inflight as usize != on_conn {
            out.push(
                v.tag(Record::new(
                    ID,
                    "inflight-mismatch",
                    format!(
                        "inflight() = {} but {} publishes are written on this connection and unacknowledged (after {}): the gate {}",
                        v.inflight,
                        on_conn,
                        v.step_show(),
                        if (v.inflight as usize) > on_conn {
                            "stays closed although the window has room"
                        } else {
                            "opens although the window is fuller than counted"
                        }
                    ),
                ))
                .fact("direction", if (v.inflight as usize) > on_conn { "leak" } else { "short" }),
            );
        }
        // resumes as soon as an acknowledgement frees the window / no request while it is full
        if v.pending.is_empty() {
            stats.oracle("C07/gate-agrees-with-window");
            let should_open = window < v.limit_eff as usize && parked.is_none();
            if v.gate_open != should_open {
                out.push(v.tag(Record::new(
                    ID,
                    "gate-disagrees",
                    format!(
                        "request gate is {} but window = {}/{} and parked = {:?} (after {})",
                        if v.gate_open { "open" } else { "closed" },
                        window,
                        v.limit_eff,
                        parked,
                        v.step_show()
                    ),
                )));
            }
        }
    }
    out
}

// ------------------------------------------------------------------ event-loop half (S3)

mod el {
    //! Real `EventLoop::poll()` with more user requests waiting in the request channel than the
    //! window admits, against a scripted broker that acknowledges late / out of order. Judged
    //! on what `poll()` returns and on the public bookkeeping right after each return:
    //!  * a `poll()` entered with the window full or a collision pending (and nothing queued,
    //!    nothing carried over) must not come back with a user request;
    //!  * a `poll()` entered with room in the window and a request waiting must not block;
    //!  * when the connection goes idle with room in the window no request is left waiting;
    //!  * wire-side: ids in range, unique among unacknowledged publishes, window within limit.
    use super::ID;
    use crate::common::{fnv, judge, Ctx, Judged, Record, Rng, Stats};
    use crate::gen::cs3::{self, Case, Cls, ConnSpec, UOp, UStep, R, W};
    use crate::sub::s3::{Dir, Kind, RunLog, Ver};
    use serde_json::{json, Value};
    use std::collections::BTreeMap;

    fn is_request_outcome(k: Kind) -> bool {
        matches!(
            k,
            Kind::Publish | Kind::Subscribe | Kind::Unsubscribe | Kind::Disconnect | Kind::AwaitAck | Kind::PubAck | Kind::PubRec
        )
    }

    /// limit in force on connection 0 (v5: receive_max negotiated down)
    fn limit_of(case: &Case) -> u16 {
        match (case.ver(), case.conns.first().and_then(|c| c.receive_max)) {
            (Ver::V5, Some(rm)) => rm.min(case.inflight),
            _ => case.inflight,
        }
    }

    pub fn verdicts(case: &Case, log: &RunLog, stats: &mut Stats) -> Vec<Record> {
        let mut out = vec![];
        let ver = case.ver().name();
        let limit = limit_of(case);
        let rec = |oracle: &str, msg: String| Record::new(ID, oracle, msg).fact("version", ver).fact("substrate", "S3");
        if let Some(p) = &log.panic {
            out.push(
                rec("panic", format!("poll() panicked at {}: {}", p.location, p.message))
                    .fact("site", crate::common::panic_site(p))
                    .fact("after", "poll"),
            );
            return out;
        }
        // the scenarios of this half use one connection and transports that never fail; anything
        // else is not what the oracles below were written for
        if log.conns.len() != 1 || log.polls.iter().any(|p| p.err().is_some()) {
            stats.add_extra("s3_runs_not_judged_connection_ended", 1);
            return out;
        }

        // requests issued by the user between polls (never timed in these scenarios)
        let issued_before = |i: usize| log.user.iter().filter(|u| u.ok && u.polls_before <= i).count();
        let mut taken = 0usize;
        for i in 1..log.polls.len() {
            let (prev, cur) = (&log.polls[i - 1], &log.polls[i]);
            let ran_select = prev.snap.queued_events_len == 0;
            if !ran_select {
                continue;
            }
            let first_is_request = cur.ev().map(|e| !e.incoming && is_request_outcome(e.pk.kind)).unwrap_or(false);
            let gate_closed = prev.snap.inflight >= limit || prev.snap.collision.is_some();
            let waiting = issued_before(i) > taken;
            if prev.snap.pending_len == 0 {
                if gate_closed {
                    stats.oracle("C07/s3/no-request-while-gate-closed");
                    if prev.snap.collision.is_some() {
                        stats.corner("s3-poll-entered-with-collision");
                    } else {
                        stats.corner("s3-poll-entered-with-window-full");
                    }
                    if first_is_request {
                        out.push(
                            rec(
                                "request-taken-while-gate-closed",
                                format!(
                                    "poll #{i} was entered with inflight = {}/{} and collision = {:?}, nothing queued, nothing pending, and returned {}",
                                    prev.snap.inflight,
                                    limit,
                                    prev.snap.collision,
                                    cur.brief()
                                ),
                            )
                            .fact("collision", prev.snap.collision.is_some()),
                        );
                        return out;
                    }
                } else if waiting {
                    stats.oracle("C07/s3/request-taken-when-window-has-room");
                    if i >= 2 && (log.polls[i - 2].snap.inflight >= limit || log.polls[i - 2].snap.collision.is_some()) {
                        stats.corner("s3-resumed-after-ack");
                    }
                    if cur.at > cur.called {
                        out.push(rec(
                            "gate-open-request-not-taken",
                            format!(
                                "poll #{i} was entered at {} ms with inflight = {}/{}, no collision and {} request(s) waiting in the channel, yet it blocked until {} ms and returned {}",
                                cur.called,
                                prev.snap.inflight,
                                limit,
                                issued_before(i) - taken,
                                cur.at,
                                cur.brief()
                            ),
                        ));
                        return out;
                    }
                }
            }
            if first_is_request {
                taken += 1;
            }
        }
        // the CONNACK poll (index 0) can never take a request; nothing to count there

        // idle with room in the window: every request has been taken
        if log.stopped_by == "stop-condition" {
            stats.oracle("C07/s3/no-request-left-when-idle");
            let last = log.polls.last().unwrap();
            let issued = log.user.iter().filter(|u| u.ok).count();
            if last.snap.inflight < limit && last.snap.collision.is_none() && taken < issued {
                out.push(rec(
                    "requests-left-in-channel",
                    format!(
                        "the connection went idle with inflight = {}/{} and no collision, but only {taken} of {issued} user requests were taken from the channel",
                        last.snap.inflight, limit
                    ),
                ));
                return out;
            }
        }

        // wire-side shadow, in the order the client produced its events
        let prod = cs3::produced(log);
        let mut unacked: BTreeMap<u16, &'static str> = BTreeMap::new(); // pkid -> phase
        for (_, e) in &prod.events {
            match (e.incoming, e.pk.kind) {
                (false, Kind::Publish) if e.pk.pkid != 0 => {
                    stats.oracle("C07/s3/pkid-unique-among-unacknowledged");
                    if let Some(phase) = unacked.get(&e.pk.pkid) {
                        out.push(
                            rec(
                                "pkid-reused",
                                format!("Outgoing(Publish({})) while a publish with that id is still unacknowledged ({phase})", e.pk.pkid),
                            )
                            .fact("holder_phase", *phase),
                        );
                        return out;
                    }
                    unacked.insert(e.pk.pkid, "sent");
                    stats.oracle("C07/s3/window-within-limit");
                    if unacked.len() > limit as usize {
                        out.push(
                            rec(
                                "window-exceeded",
                                format!("{} publishes written and unacknowledged, limit in force {}", unacked.len(), limit),
                            )
                            .fact("limit_lowered_by_connack", limit < case.inflight)
                            // (first connection of the event loop: nothing is replayed on it)
                            .fact("exceeded_by_replayed_publish", false),
                        );
                        return out;
                    }
                }
                (true, Kind::PubAck) | (true, Kind::PubComp) => {
                    unacked.remove(&e.pk.pkid);
                }
                (true, Kind::PubRec) => {
                    if e.pk.code >= 0x80 {
                        unacked.remove(&e.pk.pkid);
                    } else if let Some(p) = unacked.get_mut(&e.pk.pkid) {
                        *p = "released";
                    }
                }
                _ => {}
            }
        }
        for w in log.wire_of(0, Dir::C2B) {
            let carries = match w.pk.kind {
                Kind::Publish => w.pk.qos > 0,
                Kind::Subscribe | Kind::Unsubscribe => true,
                _ => false,
            };
            if carries {
                stats.oracle("C07/s3/pkid-in-range");
                if w.pk.pkid == 0 || w.pk.pkid > limit {
                    out.push(
                        rec(
                            "pkid-out-of-range",
                            format!("{} on the wire, limit in force {}", w.pk.brief(), limit),
                        )
                        .fact("packet", format!("{:?}", w.pk.kind))
                        .fact("zero", w.pk.pkid == 0)
                        .fact("limit_lowered_by_connack", limit < case.inflight)
                        // (first connection of the event loop: no id has been handed out before its CONNACK)
                        .fact("lowered_to_or_below_last_id", false),
                    );
                    return out;
                }
            }
        }
        out
    }

    pub fn gen_case(rng: &mut Rng, ver: Ver, n: u64, allow_reuse_trigger: bool) -> Case {
        let limit = *rng.pick(&[1u16, 2, 3, 5]);
        let extra = rng.range(2, 6) as u16;
        let shape = rng.below(3);
        let mut conn = ConnSpec::normal(false);
        // QoS 2 with a late PUBCOMP lets the id be re-issued before the flow is complete (F12):
        // only in the histories that carry that trigger
        let max_qos = if allow_reuse_trigger { 3 } else { 2 };
        match shape {
            // every acknowledgement late: the window stays full between acknowledgements
            0 => {
                let d = *rng.pick(&[10u64, 30, 70]);
                conn = conn
                    .rule(Cls::Q1, vec![], R::Delay(d))
                    .rule(Cls::Q2, vec![], R::Delay(d))
                    .rule(Cls::PubRel, vec![], R::Delay(d / 2));
            }
            // the first id is acknowledged last: wrap-around collision
            1 => {
                conn = conn.rule(Cls::Q1, vec![R::Delay(200)], R::Delay(5)).rule(Cls::Q2, vec![R::Delay(200)], R::Delay(5));
            }
            // acknowledgements in reverse order, in windows
            _ => {
                let w = rng.range(2, 3) as usize;
                conn = conn.rule(Cls::Q1, vec![], R::Reorder(w));
            }
        }
        let (inflight, receive_max) = if ver == Ver::V5 && rng.chance(1, 2) {
            (10, Some(limit))
        } else {
            (limit, None)
        };
        conn.receive_max = receive_max;
        let mut steps = vec![];
        for i in 0..(limit + extra) {
            let qos = if shape == 2 { 1 } else { rng.range(1, max_qos - 1) as u8 };
            steps.push(UStep {
                when: W::AfterConnAck(0),
                op: UOp::Pub {
                    qos,
                    payload: format!("w{n}-{i}"),
                },
            });
            if rng.chance(1, 8) {
                steps.push(UStep {
                    when: W::AfterConnAck(0),
                    op: UOp::Sub { filter: "a/#".into() },
                });
            }
            if rng.chance(1, 10) {
                steps.push(UStep {
                    when: W::AfterConnAck(0),
                    op: UOp::Pub {
                        qos: 0,
                        payload: format!("z{n}-{i}"),
                    },
                });
            }
        }
        Case {
            name: format!("c07-{}-{n}", ["late-acks", "first-id-last", "reverse-acks"][shape as usize]),
            ver: ver.name().into(),
            inflight,
            manual: false,
            steps,
            conns: vec![conn],
        }
    }

    pub fn directed(ver: Ver) -> Vec<Case> {
        let v = ver.name().to_owned();
        let pubs = |n: usize, qos: u8| -> Vec<UStep> {
            (0..n)
                .map(|i| UStep {
                    when: W::AfterConnAck(0),
                    op: UOp::Pub {
                        qos,
                        payload: format!("d{i}"),
                    },
                })
                .collect()
        };
        let mut cases = vec![
            // limit 1, five publishes, each acknowledged 30 ms late
            Case {
                name: "s3-limit-1-late-acks".into(),
                ver: v.clone(),
                inflight: 1,
                manual: false,
                steps: pubs(5, 1),
                conns: vec![ConnSpec::normal(false).rule(Cls::Q1, vec![], R::Delay(30))],
            },
            // limit 2: id 1 acknowledged after 200 ms, everything else at once -> collision on id 1
            Case {
                name: "s3-collision-then-release".into(),
                ver: v.clone(),
                inflight: 2,
                manual: false,
                steps: pubs(5, 1),
                conns: vec![ConnSpec::normal(false).rule(Cls::Q1, vec![R::Delay(200)], R::Delay(5))],
            },
            // limit 3, QoS 2 flows with late PUBREC and PUBCOMP
            Case {
                name: "s3-qos2-late".into(),
                ver: v.clone(),
                inflight: 3,
                manual: false,
                steps: pubs(3, 2),
                conns: vec![ConnSpec::normal(false)
                    .rule(Cls::Q2, vec![], R::Delay(20))
                    .rule(Cls::PubRel, vec![], R::Delay(20))],
            },
        ];
        if ver == Ver::V5 {
            cases.push(Case {
                name: "s3-receive-max-2-of-10".into(),
                ver: v,
                inflight: 10,
                manual: false,
                steps: pubs(6, 1),
                conns: vec![ConnSpec {
                    receive_max: Some(2),
                    ..ConnSpec::normal(false).rule(Cls::Q1, vec![], R::Delay(30))
                }],
            });
        }
        cases
    }

    pub fn run_case(ctx: &Ctx, stats: &mut Stats, case: &Case) {
        let log = cs3::run(case);
        stats.evaluations += 1;
        stats.op("s3-history");
        cs3::census(stats, &log);
        if let Some(e) = &log.harness_error {
            stats.inconclusive.push(format!("S3 harness: {e} (case {})", case.name));
            return;
        }
        if log.polls.iter().any(|p| p.is(false, Kind::AwaitAck)) {
            stats.corner("s3-collision-parked");
        }
        let shape: Vec<String> = log.polls.iter().map(|p| p.brief().split(' ').skip(2).collect::<Vec<_>>().join(" ")).collect();
        stats.shapes.insert(fnv(format!("{}|{}|{}", case.ver, case.inflight, shape.join(",")).as_bytes()));
        let recs = verdicts(case, &log, stats);
        if stats.evaluations % 53 == 7 {
            stats.sample(json!({"kind": "S3", "case": case, "observed": log.brief(80)}));
        }
        for r in recs {
            let replay = || json!({"substrate": "S3", "case": case, "observed": log.brief(300)});
            match judge(ctx, stats, r, replay) {
                Judged::Known(_) | Judged::Violation => return,
            }
        }
    }

    pub fn run(ctx: &Ctx, stats: &mut Stats, seed: u64, n: u64, with_directed: bool) {
        let mut rng = Rng::new(seed ^ 0x5307);
        if with_directed {
            for ver in [Ver::V4, Ver::V5] {
                for case in directed(ver) {
                    run_case(ctx, stats, &case);
                    stats.add_extra("s3_directed_scenarios", 1);
                }
            }
        }
        for i in 0..n {
            let ver = if rng.chance(1, 2) { Ver::V4 } else { Ver::V5 };
            let trigger = rng.chance(15, 100);
            let case = gen_case(&mut rng, ver, seed.wrapping_mul(100_000) + i, trigger);
            run_case(ctx, stats, &case);
            if stats.violations.len() >= 5 {
                break;
            }
        }
    }

    pub fn replay(ctx: &Ctx, doc: &Value) -> Stats {
        let mut stats = Stats::default();
        match serde_json::from_value::<Case>(doc["case"].clone()) {
            Ok(case) => run_case(ctx, &mut stats, &case),
            Err(e) => stats.inconclusive.push(format!("replay file does not hold an S3 case: {e}")),
        }
        stats.shapes.insert(1);
        stats.shapes.insert(2);
        stats
    }
}

fn run(ctx: &Ctx) -> Stats {
    let mut stats = cwork::run_family(ctx, ID, cwork::PROFILE_C07, 15_000, 3_000_000);
    // event-loop half
    if ctx.quick() {
        el::run(ctx, &mut stats, ctx.seed, ctx.size(1200, 0), true);
    } else {
        let per = ctx.size(0, 300_000) / ctx.threads.max(1) as u64 + 1;
        let s3 = crate::common::sharded(ctx, ctx.threads, |shard, seed| {
            let mut st = Stats::default();
            el::run(ctx, &mut st, seed, per, shard == 0);
            st
        });
        stats.merge(s3);
    }
    stats
}

fn replay(ctx: &Ctx, doc: &Value) -> Stats {
    if doc["substrate"] == "S3" {
        return el::replay(ctx, doc);
    }
    cwork::replay_family(ctx, ID, doc)
}

pub fn prop() -> Prop {
    Prop {
        id: ID,
        meta: Meta {
            level: "exploration",
            rule: "Two halves. S3 (real EventLoop::poll, v4 and v5, one connection, transports that never fail): more \
                   user requests waiting in the request channel than the window admits (limit 1/2/3/5, v5 also as \
                   receive_max of an upper limit of 10) against a broker that acknowledges late, first-id-last \
                   (wrap-around collision) or in reverse windows; judged per poll() return on the public bookkeeping \
                   at entry and on what the poll returned. S2 (real MqttState driven directly): a case is one history of 20-160 ops against the real v4 or v5 MqttState with inflight limit from \
                   {1,2,3,5,10,100,65535} (v5: receive_max negotiated down at CONNACK and changed between connections), \
                   ack orders FIFO/LIFO/random/skip-one with duplicates, wrong kinds and unsolicited ids, plus 12 (3.1.1) / 22 \
                   (MQTT 5) directed scenarios and a 65535-publish wrap-around per version. Distinct = hash of (version, limit, manual, \
                   op-kind sequence incl. packet kinds per batch), counted only if a named corner state was reached.",
            assumptions: &[
                "unacknowledged = from first write until PUBACK, or PUBCOMP for QoS 2 (DESIGN.md section 4)",
                "limit for new packets = limit in force (v5: min(receive_max, configured)); a retransmission keeps its original id and is bounded by the configured limit",
                "subscribe/unsubscribe ids share the allocator but only publishes are subject to the uniqueness clause, as the statement says",
                "the S2 driver offers a new request to the state machine only when inflight < limit && collision.is_none() && pending is empty, as EventLoop::select does; whether select really does is what the S3 half observes",
                "S3 'resumes as soon as an acknowledgement frees the window' = a poll() entered with room in the window, nothing queued, nothing pending and a request waiting in the channel returns without virtual time passing; and no request is left waiting when the connection goes idle with room in the window",
            ],
            floors: &[
                ("pkid-wrapped", 10000),
                ("collision-parked", 1000),
                ("collision-released-by-puback", 1000),
                ("collision-released-by-pubcomp", 10),
                ("window-full", 20000),
                ("gate-blocked-request", 700),
                ("resumed-after-ack", 150),
                ("ack-freed-full-window", 8000),
                ("collision-across-clean", 300),
                ("pkid-wrapped-at-65535", 2),
                ("C07/pkid-unique-among-unacknowledged", 50000),
                ("C07/inflight-equals-window", 500000),
                ("s3-poll-entered-with-window-full", 1000),
                ("s3-poll-entered-with-collision", 300),
                ("s3-resumed-after-ack", 300),
                ("s3-collision-parked", 100),
                ("C07/s3/no-request-while-gate-closed", 1500),
                ("C07/s3/request-taken-when-window-has-room", 3000),
            ],
        },
        run,
        replay: Some(replay),
    }
}
