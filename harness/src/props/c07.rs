//! C07: client packet ids unique, inflight window bounded, flow control resumes, a collision
//! is only pending while its id is genuinely held.
//!
//! State-machine half (substrate S2). "Unacknowledged" = from first write until PUBACK, or
//! PUBCOMP for QoS 2 (DESIGN.md section 4, binding reading). The request gate of
//! `EventLoop::select` (`inflight < limit && collision.is_none()`, bypassed by `pending`) is
//! applied by the S2 driver exactly as the event loop applies it; what is judged here is
//! whether the state machine's side of that gate (`inflight()`, `collision`) agrees with the
//! wire-side shadow M-client keeps, after every call.
//!
//! The event-loop half ("request channel not consumed while the window is full or a collision
//! is pending; resumes within one poll round after an ack") plugs in through `s3_half()`.
use super::{Meta, Prop};
use crate::common::{panic_site, Ctx, Record, Stats};
use crate::gen::cwork::{self, Step, View};
use crate::model::mclient::InClass;
use crate::sub::s2::{Outcome, Pk, Via};
use serde_json::Value;

pub const ID: &str = "C07";

pub fn oracles(v: &View, stats: &mut Stats) -> Vec<Record> {
    let mut out = vec![];
    let reads_state = matches!(
        v.step,
        Step::Call { .. } | Step::Failed | Step::Reconnected { .. } | Step::ReplayDone
    );
    if !reads_state {
        return out;
    }

    if let Step::Call { call, cls, delta, .. } = &v.step {
        // panics on the request side (allocator arithmetic) belong to this property
        if let (Outcome::Panic(p), Via::Request | Via::Replay | Via::Ping) = (&call.outcome, call.via) {
            out.push(
                v.tag(Record::new(
                    ID,
                    "panic",
                    format!("{} panicked at {}: {}", call.input.show(), p.location, p.message),
                ))
                .fact("site", panic_site(p)),
            );
            return out;
        }

        // (1) ids on the wire: non-zero, no larger than the limit
        if let Outcome::Ok(Some(p)) = &call.outcome {
            let carries_id = match p {
                Pk::Publish { qos, .. } => *qos > 0,
                Pk::Subscribe { .. } | Pk::Unsubscribe { .. } => true,
                _ => false,
            };
            if carries_id {
                stats.oracle("C07/pkid-in-range");
                // a retransmission keeps its original id (C02 demands that), so it is bounded
                // by the configured limit; a new packet by the limit in force
                let is_retransmission = call.via == Via::Replay;
                let bound = if is_retransmission { v.limit_cfg } else { v.limit_eff };
                if p.pkid() == 0 || p.pkid() > bound {
                    out.push(
                        v.tag(Record::new(
                            ID,
                            "pkid-out-of-range",
                            format!(
                                "{} written with packet id {} (limit in force {}, configured {})",
                                p.show(),
                                p.pkid(),
                                v.limit_eff,
                                v.limit_cfg
                            ),
                        ))
                        .fact("packet", p.kind())
                        .fact("zero", p.pkid() == 0)
                        .fact("limit_lowered_by_connack", v.limit_eff < v.limit_cfg),
                    );
                }
            }
        }

        // (2) no two simultaneously unacknowledged publishes share an id
        if matches!(&call.outcome, Outcome::Ok(Some(Pk::Publish { qos, .. })) if *qos > 0) {
            stats.oracle("C07/pkid-unique-among-unacknowledged");
            if let Some((holder, phase)) = &delta.pkid_conflict {
                out.push(
                    v.tag(Record::new(
                        ID,
                        "pkid-reused",
                        format!(
                            "{} written while publish '{}' still holds that id ({}: unacknowledged until {})",
                            call.outcome.show(),
                            holder,
                            phase.name(),
                            if phase.name() == "released" { "PUBCOMP" } else { "PUBACK/PUBREC" }
                        ),
                    ))
                    .fact("holder_phase", phase.name()),
                );
            }
        }

        // (3) a parked publish keeps the id it was announced with
        if delta.parked_pkid_changed {
            out.push(v.tag(Record::new(
                ID,
                "parked-pkid-changed",
                format!("a parked publish was written under another id than announced: {}", call.show()),
            )));
        }

        // (4) an acknowledgement that frees a slot must be accepted
        if call.via == Via::Read && matches!(cls, InClass::AckFinal(_) | InClass::AckRec(_)) {
            stats.oracle("C07/solicited-ack-accepted");
            if !call.outcome.is_ok() {
                out.push(
                    v.tag(Record::new(
                        ID,
                        "solicited-ack-rejected",
                        format!("{} answers a publish written on this connection but was rejected: {}", call.input.show(), call.show()),
                    ))
                    .fact("packet", call.input.kind()),
                );
            }
        }
    }

    // (5) window: never more than `limit` written and unacknowledged
    stats.oracle("C07/window-within-limit");
    let window = v.model.window();
    if window > v.limit_eff as usize {
        out.push(
            v.tag(Record::new(
                ID,
                "window-exceeded",
                format!("{} publishes are written and unacknowledged, limit in force is {} (after {})", window, v.limit_eff, v.step_show()),
            ))
            .fact("limit_lowered_by_connack", v.limit_eff < v.limit_cfg),
        );
    }

    // (6) a collision is pending only while its id is genuinely held, so it can be resolved
    stats.oracle("C07/collision-id-held");
    if let Some(c) = &v.collision {
        let id = c.pkid();
        let model_holds = v.model.holder(id).is_some();
        let state_holds = match v.after {
            Some(a) => {
                a.held.pubs.iter().any(|p| p.pkid() == id)
                    || a.held.rels.contains(&id)
                    || v.pending
                        .iter()
                        .any(|p| matches!(p, Pk::Publish { .. } | Pk::PubRel { .. }) && p.pkid() == id)
            }
            None => true,
        };
        if !model_holds || !state_holds {
            out.push(
                v.tag(Record::new(
                    ID,
                    "collision-id-not-held",
                    format!(
                        "collision = {} is pending but no unacknowledged publish holds id {} (wire-side shadow: {}, state/pending: {}) after {}: it can never be resolved",
                        c.show(),
                        id,
                        model_holds,
                        state_holds,
                        v.step_show()
                    ),
                ))
                .fact("held_on_wire", model_holds)
                .fact("held_in_state", state_holds),
            );
        }
    }

    // (7) the two halves of the gate agree with the wire-side shadow. While `pending` is being
    // replayed the state counts what has been written on this connection so far.
    if v.connected {
        stats.oracle("C07/collision-matches-parked");
        // a publish that was parked when the connection was lost travels in `pending` until it
        // is replayed (and parked again if its id is still held)
        let parked = v
            .model
            .parked()
            .map(|l| l.pid.clone())
            .filter(|pid| !v.pending.iter().any(|p| matches!(p, Pk::Publish { payload, .. } if payload == pid)));
        let coll = v.collision.as_ref().map(|p| match p {
            Pk::Publish { payload, .. } => payload.clone(),
            _ => String::new(),
        });
        if parked != coll {
            out.push(v.tag(Record::new(
                ID,
                "collision-mismatch",
                format!(
                    "state.collision holds {:?} but the publish announced as waiting for an ack is {:?} (after {})",
                    coll,
                    parked,
                    v.step_show()
                ),
            )));
        }
        stats.oracle("C07/inflight-equals-window");
        let on_conn = v.model.window_on(v.conn);
        if v.inflight as usize != on_conn {
            out.push(
                v.tag(Record::new(
                    ID,
                    "inflight-mismatch",
                    format!(
                        "inflight() = {} but {} publishes are written on this connection and unacknowledged (after {}): the gate {}",
                        v.inflight,
                        on_conn,
                        v.step_show(),
                        if (v.inflight as usize) > on_conn {
                            "stays closed although the window has room"
                        } else {
                            "opens although the window is fuller than counted"
                        }
                    ),
                ))
                .fact("direction", if (v.inflight as usize) > on_conn { "leak" } else { "short" }),
            );
        }
        // resumes as soon as an acknowledgement frees the window / no request while it is full
        if v.pending.is_empty() {
            stats.oracle("C07/gate-agrees-with-window");
            let should_open = window < v.limit_eff as usize && parked.is_none();
            if v.gate_open != should_open {
                out.push(v.tag(Record::new(
                    ID,
                    "gate-disagrees",
                    format!(
                        "request gate is {} but window = {}/{} and parked = {:?} (after {})",
                        if v.gate_open { "open" } else { "closed" },
                        window,
                        v.limit_eff,
                        parked,
                        v.step_show()
                    ),
                )));
            }
        }
    }
    out
}

/// Event-loop half: absent until `src/sub/s3.rs` exists.
pub fn s3_half(_ctx: &Ctx, _stats: &mut Stats) {}

fn run(ctx: &Ctx) -> Stats {
    let mut stats = cwork::run_family(ctx, ID, cwork::PROFILE_C07, 15_000, 3_000_000);
    s3_half(ctx, &mut stats);
    stats
}

fn replay(ctx: &Ctx, doc: &Value) -> Stats {
    cwork::replay_family(ctx, ID, doc)
}

pub fn prop() -> Prop {
    Prop {
        id: ID,
        meta: Meta {
            level: "exploration",
            rule: "S2 half only (state machine; the event-loop half on the real request channel is not built yet). \
                   A case is one history of 20-160 ops against the real v4 or v5 MqttState with inflight limit from \
                   {1,2,3,5,10,100,65535} (v5: receive_max negotiated down at CONNACK and changed between connections), \
                   ack orders FIFO/LIFO/random/skip-one with duplicates, wrong kinds and unsolicited ids, plus 12 (3.1.1) / 22 \
                   (MQTT 5) directed scenarios and a 65535-publish wrap-around per version. Distinct = hash of (version, limit, manual, \
                   op-kind sequence incl. packet kinds per batch), counted only if a named corner state was reached.",
            assumptions: &[
                "unacknowledged = from first write until PUBACK, or PUBCOMP for QoS 2 (DESIGN.md section 4)",
                "limit for new packets = limit in force (v5: min(receive_max, configured)); a retransmission keeps its original id and is bounded by the configured limit",
                "subscribe/unsubscribe ids share the allocator but only publishes are subject to the uniqueness clause, as the statement says",
                "the S2 driver offers a new request to the state machine only when inflight < limit && collision.is_none() && pending is empty, as EventLoop::select does",
            ],
            floors: &[
                ("pkid-wrapped", 10000),
                ("collision-parked", 1000),
                ("collision-released-by-puback", 1000),
                ("collision-released-by-pubcomp", 10),
                ("window-full", 20000),
                ("gate-blocked-request", 700),
                ("resumed-after-ack", 150),
                ("ack-freed-full-window", 8000),
                ("collision-across-clean", 300),
                ("pkid-wrapped-at-65535", 2),
                ("C07/pkid-unique-among-unacknowledged", 50000),
                ("C07/inflight-equals-window", 500000),
            ],
        },
        run,
        replay: Some(replay),
    }
}
