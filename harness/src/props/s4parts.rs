//! Router halves (substrate S4) of properties whose deciding substrate is the full stack (S6):
//! the S6 checks merge the statistics of these plans into their own.
use super::s4common::Plan;
use crate::sub::s4drive::{base_profile, Stepping};

/// C16, router half: wills are registered at connect, dropped by a DISCONNECT packet and published by
/// `Event::PublishWill` exactly once; PublishWill events are injected in every order relative to
/// link drops, DISCONNECT packets and router-initiated closes (no take-overs: outside the claim).
pub fn c16_plan() -> Plan {
    let mut p = base_profile("c16-wills");
    p.will_pm = 700;
    p.w.will_ev = 10;
    p.w.link_drop = 8;
    p.w.disconnect_pkt = 8;
    p.w.takeover = 0;
    p.w.connect = 12;
    p.w.subscribe = 12;
    p.hostile = true;
    p.w.bad = 3;
    p.persistent_pm = 150;
    p.burst_pm = 0;
    p.ops = (20, 100);
    let mut single = p.clone();
    single.name = "c16-wills-single";
    single.stepping = Stepping::Single;
    // a full broker refuses connects: a refused CONNECT's will must leave no trace
    let mut full = p.clone();
    full.name = "c16-wills-broker-full";
    full.max_connections = 2;
    full.clients = (3, 5);
    full.w.connect = 20;
    full.w.link_drop = 12;
    Plan {
        profiles: vec![p, single, full],
        directed: vec![],
        quick_histories: 400,
        thorough_histories: 160_000,
        s5: None,
        enumerate_session_end: None,
        enumerate_symbols: None,
        relabel: None,
    }
}

/// C19, router half: at most one live connection per client id and never more than
/// `max_connections`, under connect / disconnect / take-over storms against small limits.
pub fn c19_plan() -> Plan {
    let mut p = base_profile("c19-limits");
    p.max_connections = 2;
    p.clients = (3, 6);
    p.w.connect = 30;
    p.w.takeover = 15;
    p.w.link_drop = 10;
    p.w.disconnect_pkt = 8;
    p.w.publish = 10;
    p.burst_pm = 0;
    p.bad_id_pm = 200;
    p.ops = (20, 120);
    let mut three = p.clone();
    three.name = "c19-limits-3";
    three.max_connections = 3;
    three.stepping = Stepping::Single;
    let mut one = p.clone();
    one.name = "c19-limits-1";
    one.max_connections = 1;
    Plan {
        profiles: vec![p, three, one],
        directed: vec![],
        quick_histories: 400,
        thorough_histories: 160_000,
        s5: None,
        enumerate_session_end: None,
        enumerate_symbols: None,
        relabel: None,
    }
}
