//! C05: the four decoders are total, bounded and chunking-independent on arbitrary bytes.
//!
//! Substrate S1. Decoders under test: rumqttc `mqttbytes::v4::Packet::read`, rumqttc
//! `v5::mqttbytes::v5::Packet::read`, rumqttd `V4::read_mut`, rumqttd `V5::read_mut`, each
//! called directly under the panic monitor, plus the real framing layers on top of them:
//! `tokio_util::codec::Framed` with the public rumqttc `Codec`s and rumqttd's
//! `Network::read` / `readv`, over an in-memory reader that hands out chosen chunks.
//!
//! Oracle for one decode call on input `b` with maximum `m`: an independent fixed-header
//! parser (MQTT section 2: type byte, remaining length as a 1-4 byte variable byte integer)
//! says whether `b` declares a frame, how long it is and whether it is complete. Then
//!   * never a panic;
//!   * a packet only if the declared frame is complete and its remaining length <= m;
//!   * "need more bytes" only while the declared frame is incomplete (or the header is);
//!   * four length bytes with continuation bits: an error, nothing else;
//!   * bytes consumed <= declared frame length (0 when no frame is declared).
//! An *error* is always acceptable (the statement allows a malformed-packet error for any
//! input; which inputs are malformed is not this property's business).
//! Chunking: the packet sequence (up to and including the first decoder error) obtained by
//! decoding the whole stream in one buffer must also come out when the same bytes arrive in
//! any chunking, through a growing buffer, through Framed, and through Network.
use super::{Meta, Prop};
use crate::common::{fnv, judge, sharded, Ctx, Judged, Record, Rng, Stats};
use crate::gen::canon::{self, Dir, Sizes};
use crate::sub::codecs::{decode_step, parse_header, runtime, split, CodecUnderTest, End, Hdr, Seq, Step, C4, C5, D4, D5};
use bytes::BytesMut;
use serde_json::{json, Value};

const ID: &str = "C05";
const CODECS: [&str; 4] = ["c4", "c5", "d4", "d5"];
const MAXES: [usize; 7] = [0, 1, 2, 127, 128, 10 * 1024, 256 * 1024 * 1024];

macro_rules! with_codec {
    ($name:expr, $X:ident => $body:expr) => {
        match $name {
            "c4" => {
                type $X = C4;
                $body
            }
            "c5" => {
                type $X = C5;
                $body
            }
            "d4" => {
                type $X = D4;
                $body
            }
            _ => {
                type $X = D5;
                $body
            }
        }
    };
}

// ------------------------------------------------------------------ inputs

/// prefix followed by `fill_len` copies of `fill` (keeps replays of 2 MiB inputs small)
#[derive(Clone, Debug)]
struct Input {
    prefix: Vec<u8>,
    fill: u8,
    fill_len: usize,
}

impl Input {
    fn plain(b: Vec<u8>) -> Input {
        Input {
            prefix: b,
            fill: 0,
            fill_len: 0,
        }
    }
    fn bytes(&self) -> Vec<u8> {
        let mut v = self.prefix.clone();
        v.resize(self.prefix.len() + self.fill_len, self.fill);
        v
    }
    fn json(&self) -> Value {
        json!({"prefix": hex_full(&self.prefix), "fill": self.fill, "fill_len": self.fill_len})
    }
    fn from_json(v: &Value) -> Option<Input> {
        Some(Input {
            prefix: unhex(v["prefix"].as_str()?)?,
            fill: v["fill"].as_u64()? as u8,
            fill_len: v["fill_len"].as_u64()? as usize,
        })
    }
}

fn hex_full(b: &[u8]) -> String {
    b.iter().map(|x| format!("{x:02x}")).collect()
}
fn hex(b: &[u8]) -> String {
    if b.len() <= 40 {
        hex_full(b)
    } else {
        format!("{}..(+{})", hex_full(&b[..40]), b.len() - 40)
    }
}
fn unhex(s: &str) -> Option<Vec<u8>> {
    if s.len() % 2 != 0 {
        return None;
    }
    (0..s.len() / 2).map(|i| u8::from_str_radix(&s[2 * i..2 * i + 2], 16).ok()).collect()
}

// ------------------------------------------------------------------ single decode call

/// verdict of the header oracle on one decode step; `None` = fine
struct Verdict {
    oracle: &'static str,
    message: String,
}

fn judge_step<P>(b: &[u8], max: usize, step: &Step<P>, consumed: usize) -> (Option<Verdict>, String) {
    let hdr = parse_header(b);
    let class = step.class();
    let (sig, verdict) = match hdr {
        Hdr::Incomplete => {
            let v = match step {
                Step::Packet(_) => Some(Verdict {
                    oracle: "packet-from-incomplete-frame",
                    message: "packet although not even the fixed header is complete".into(),
                }),
                _ if consumed > 0 => Some(Verdict {
                    oracle: "consumed-beyond-frame",
                    message: format!("{consumed} bytes consumed although no frame is declared yet"),
                }),
                _ => None,
            };
            ("hdr-incomplete".to_string(), v)
        }
        Hdr::BadLength => {
            let v = match step {
                Step::Error(_) if consumed == 0 => None,
                Step::Error(_) => Some(Verdict {
                    oracle: "consumed-beyond-frame",
                    message: format!("{consumed} bytes consumed on a malformed remaining length"),
                }),
                _ => Some(Verdict {
                    oracle: "bad-length-not-rejected",
                    message: format!("remaining length with a fifth byte answered with {class}"),
                }),
            };
            ("bad-length".to_string(), v)
        }
        Hdr::Frame { header_len, remaining } => {
            let total = header_len + remaining;
            let complete = b.len() >= total;
            let over = remaining > max;
            let v = if consumed > total {
                Some(Verdict {
                    oracle: "consumed-beyond-frame",
                    message: format!("{consumed} bytes consumed, declared frame has {total}"),
                })
            } else {
                match step {
                    Step::Packet(_) if over => Some(Verdict {
                        oracle: "accepted-over-max",
                        message: format!("frame with remaining length {remaining} accepted, maximum is {max}"),
                    }),
                    Step::Packet(_) if !complete => Some(Verdict {
                        oracle: "packet-from-incomplete-frame",
                        message: format!("packet from {} of {} declared bytes", b.len(), total),
                    }),
                    Step::NeedMore(n) if complete => Some(Verdict {
                        oracle: "needmore-on-complete-frame",
                        message: format!(
                            "asks for {n} more bytes although the declared frame ({total} bytes) is complete; consumed {consumed}"
                        ),
                    }),
                    _ => None,
                }
            };
            (
                format!("frame:w{}:{}:{}", header_len - 1, if complete { "complete" } else { "partial" }, if over { "over" } else { "within" }),
                v,
            )
        }
    };
    (verdict, format!("{sig}:{class}"))
}

fn frame_total(b: &[u8]) -> Option<usize> {
    match parse_header(b) {
        Hdr::Frame { header_len, remaining } => Some(header_len + remaining),
        _ => None,
    }
}

fn record_for<X: CodecUnderTest, P>(b: &[u8], step: &Step<P>, consumed: usize, v: &Verdict, max: usize) -> Record {
    let ptype = canon::ptype_name(b.first().map(|x| x >> 4).unwrap_or(0));
    let mut r = Record::new(
        ID,
        v.oracle,
        format!("{} on [{}] max {}: {}", X::NAME, hex(b), max, v.message),
    )
    .fact("codec", X::NAME)
    .fact("ptype", ptype)
    .fact("consumed_frame", Some(consumed) == frame_total(b));
    if let Step::Panic { .. } = step {
        r = r.fact("op", "decode");
    }
    r
}

fn panic_record<X: CodecUnderTest>(b: &[u8], location: &str, message: &str, max: usize) -> Record {
    let ptype = canon::ptype_name(b.first().map(|x| x >> 4).unwrap_or(0));
    Record::new(
        ID,
        "panic",
        format!("{} panicked on [{}] max {}: {} at {}", X::NAME, hex(b), max, message, location),
    )
    .fact("codec", X::NAME)
    .fact("op", "decode")
    .fact("ptype", ptype)
    .fact("site", location.split(':').next().unwrap_or("?"))
}

/// One guarded decode call on `input`, judged. Returns false when a failure was recorded.
fn direct<X: CodecUnderTest>(ctx: &Ctx, stats: &mut Stats, input: &Input, max: usize, scope: &str) -> bool {
    let b = input.bytes();
    let mut buf = BytesMut::from(&b[..]);
    let (step, consumed) = decode_step::<X>(&mut buf, max);
    stats.evaluations += 1;
    stats.op(&format!("{scope}:{}", X::NAME));
    stats.oracle("header-oracle");
    let replay = || json!({"kind": "direct", "codec": X::NAME, "max": max, "input": input.json()});
    if let Step::Panic { location, message } = &step {
        stats.panics_caught += 1;
        judge(ctx, stats, panic_record::<X>(&b, location, message, max), replay);
        return false;
    }
    let (verdict, sig) = judge_step(&b, max, &step, consumed);
    stats.shapes.insert(fnv(format!("{}:{}:{}", X::NAME, b.first().map(|x| x >> 4).unwrap_or(16), sig).as_bytes()));
    stats.corner(&sig);
    if stats.samples.len() < 2 && matches!(stats.evaluations, 400_003 | 1_000_001) {
        stats.sample(json!({"codec": X::NAME, "max": max, "input": hex(&b), "outcome": sig, "consumed": consumed}));
    }
    match verdict {
        None => true,
        Some(v) => {
            judge(ctx, stats, record_for::<X, _>(&b, &step, consumed, &v, max), replay);
            false
        }
    }
}

fn direct_all(ctx: &Ctx, stats: &mut Stats, input: &Input, max: usize, scope: &str) {
    for name in CODECS {
        with_codec!(name, X => { direct::<X>(ctx, stats, input, max, scope); });
    }
}

// ------------------------------------------------------------------ streams / chunking

/// Reference: decode the whole stream from one buffer, judging every step with the header
/// oracle. `Err(())` = a failure (known or new) was recorded, the stream is not judged further.
fn reference<X: CodecUnderTest>(ctx: &Ctx, stats: &mut Stats, stream: &[u8], max: usize, replay: &dyn Fn() -> Value) -> Result<Seq<X::Packet>, ()> {
    let mut buf = BytesMut::from(stream);
    let mut seq = Seq::new();
    loop {
        let before = buf.to_vec();
        let (step, consumed) = decode_step::<X>(&mut buf, max);
        stats.oracle("header-oracle");
        if let Step::Panic { location, message } = &step {
            stats.panics_caught += 1;
            judge(ctx, stats, panic_record::<X>(&before, location, message, max), replay);
            return Err(());
        }
        let (verdict, _) = judge_step(&before, max, &step, consumed);
        if let Some(v) = verdict {
            judge(ctx, stats, record_for::<X, _>(&before, &step, consumed, &v, max), replay);
            return Err(());
        }
        match step {
            Step::Packet(p) => seq.packets.push(p),
            Step::NeedMore(_) => return Ok(seq),
            Step::Error(e) => {
                seq.end = End::Error(e);
                return Ok(seq);
            }
            Step::Panic { .. } => unreachable!(),
        }
        if consumed == 0 {
            // a packet from zero bytes would loop forever
            seq.end = End::Runaway;
            return Ok(seq);
        }
    }
}

/// the same stream through a buffer that grows chunk by chunk (what Framed/Network do)
fn growing<X: CodecUnderTest>(chunks: &[Vec<u8>], max: usize) -> Seq<X::Packet> {
    let mut buf = BytesMut::new();
    let mut seq = Seq::new();
    for c in chunks {
        buf.extend_from_slice(c);
        loop {
            let (step, consumed) = decode_step::<X>(&mut buf, max);
            match step {
                Step::Packet(p) => {
                    seq.packets.push(p);
                    if consumed == 0 {
                        seq.end = End::Runaway;
                        return seq;
                    }
                }
                Step::NeedMore(_) => break,
                Step::Error(e) => {
                    seq.end = End::Error(e);
                    return seq;
                }
                Step::Panic { location, message } => {
                    seq.end = End::Panic(format!("{location} {message}"));
                    return seq;
                }
            }
        }
    }
    seq
}

fn describe<P: std::fmt::Debug>(s: &Seq<P>) -> String {
    let last = s.packets.last().map(|p| format!("{:.120?}", p)).unwrap_or_default();
    format!("{} packets, end {:?}, last {}", s.packets.len(), s.end, last)
}

struct StreamCase {
    codec: &'static str,
    max: usize,
    stream: Vec<u8>,
    seed: u64,
}

fn stream_case<X: CodecUnderTest>(ctx: &Ctx, stats: &mut Stats, rt: &tokio::runtime::Runtime, case: &StreamCase) {
    let stream = &case.stream;
    let max = case.max;
    stats.evaluations += 1;
    stats.op(&format!("stream:{}", X::NAME));
    let base_replay = || json!({"kind": "stream", "codec": X::NAME, "max": max, "stream": hex_full(stream), "seed": case.seed});
    let Ok(want) = reference::<X>(ctx, stats, stream, max, &base_replay) else { return };
    if want.packets.len() >= 2 {
        stats.corner("stream-multi-packet");
    }
    match &want.end {
        End::Error(_) => stats.corner("stream-ends-in-error"),
        End::Eof if frame_total(stream).is_some() && want.packets.iter().len() > 0 => stats.corner("stream-ends-clean-or-partial"),
        _ => {}
    }
    stats.shapes.insert(fnv(
        format!("stream:{}:{}:{:?}:{}", X::NAME, want.packets.len().min(6), std::mem::discriminant(&want.end), max.min(200_000)).as_bytes(),
    ));
    let mut rng = Rng::new(case.seed);
    let mut hows: Vec<u8> = vec![0, 2, 2];
    if stream.len() <= 6000 {
        hows.push(1);
    }
    for how in hows {
        let chunks = split(stream, how, &mut rng);
        let sizes: Vec<usize> = chunks.iter().map(|c| c.len()).collect();
        let how_name = match how {
            0 => "whole",
            1 => "byte-by-byte",
            _ => "random",
        };
        stats.corner(&format!("chunking-{how_name}"));
        let mut layers: Vec<(&str, Seq<X::Packet>)> = vec![("growing-buffer", growing::<X>(&chunks, max))];
        if X::CLIENT {
            layers.push(("framed", X::transport(rt, chunks.clone(), max, 0)));
        } else {
            layers.push(("network-read", X::transport(rt, chunks.clone(), max, 0)));
            layers.push(("network-readv", X::transport(rt, chunks.clone(), max, 1)));
        }
        for (layer, got) in layers {
            stats.oracle(&format!("chunking-{layer}"));
            if got != want {
                let r = Record::new(
                    ID,
                    "chunking-differs",
                    format!(
                        "{} via {} ({} chunking of {} bytes, max {}): got {}; one-buffer decode gives {}",
                        X::NAME,
                        layer,
                        how_name,
                        stream.len(),
                        max,
                        describe(&got),
                        describe(&want)
                    ),
                )
                .fact("codec", X::NAME)
                .fact("layer", layer)
                .fact("chunking", how_name)
                .fact("got_end", format!("{:?}", std::mem::discriminant(&got.end)))
                .fact("fewer_packets", got.packets.len() < want.packets.len());
                let sizes = sizes.clone();
                let j = judge(ctx, stats, r, || {
                    let mut v = base_replay();
                    v["chunks"] = json!(sizes);
                    v["layer"] = json!(layer);
                    v
                });
                if let Judged::Known(_) = j {
                    return;
                }
                return;
            }
        }
    }
    if stats.samples.len() < 3 && want.packets.len() >= 3 {
        stats.sample(json!({"codec": X::NAME, "max": max, "stream": hex(stream), "one_buffer_decode": describe(&want),
            "checked": "growing buffer + real framing layer, whole / random x2 / byte-by-byte"}));
    }
}

// ------------------------------------------------------------------ workload pieces

fn varint(mut x: usize) -> Vec<u8> {
    let mut out = vec![];
    loop {
        let mut b = (x % 128) as u8;
        x /= 128;
        if x > 0 {
            b |= 0x80;
        }
        out.push(b);
        if x == 0 {
            return out;
        }
    }
}

/// all byte strings of length <= 2
fn exhaustive_short(ctx: &Ctx, stats: &mut Stats) {
    for max in [0usize, 1, 1 << 28] {
        direct_all(ctx, stats, &Input::plain(vec![]), max, "short");
        for a in 0..=255u8 {
            direct_all(ctx, stats, &Input::plain(vec![a]), max, "short");
            for b in 0..=255u8 {
                direct_all(ctx, stats, &Input::plain(vec![a, b]), max, "short");
            }
        }
    }
    stats.exhaustive_scopes.push("all byte strings of length 0..=2 x 4 decoders x max {0, 1, 2^28}".into());
}

/// every first byte x remaining-length prefixes at the width boundaries x body variants
fn exhaustive_headers(ctx: &Ctx, stats: &mut Stats, rng: &mut Rng) {
    // (length bytes, declared remaining length if well-formed)
    let mut prefixes: Vec<(Vec<u8>, Option<usize>)> = vec![];
    for rl in [0usize, 1, 2, 3, 4, 5, 127, 128, 129, 16383, 16384, 16385, 2_097_151, 2_097_152, 2_097_153, 268_435_455] {
        prefixes.push((varint(rl), Some(rl)));
    }
    // non-minimal but legal encodings
    prefixes.push((vec![0x80, 0x00], Some(0)));
    prefixes.push((vec![0x82, 0x80, 0x00], Some(2)));
    prefixes.push((vec![0x84, 0x80, 0x80, 0x00], Some(4)));
    // unterminated (header incomplete) and over-long (malformed)
    for p in [vec![0x80], vec![0xff, 0xff], vec![0x80, 0x80, 0x80]] {
        prefixes.push((p, None));
    }
    for p in [vec![0x80, 0x80, 0x80, 0x80], vec![0xff, 0xff, 0xff, 0xff, 0x7f], vec![0x80, 0x80, 0x80, 0x80, 0x00, 0x00]] {
        prefixes.push((p, None));
    }
    for first in 0..=255u8 {
        for (lenbytes, rl) in &prefixes {
            let mut head = vec![first];
            head.extend_from_slice(lenbytes);
            let big = rl.is_some_and(|r| r > 20_000);
            // large bodies only for one first byte per type nibble (flags as the type wants them)
            let canonical_first = matches!(first & 0x0f, 0) && !matches!(first >> 4, 6 | 8 | 10) || matches!((first >> 4, first & 0x0f), (6, 2) | (8, 2) | (10, 2));
            let mut inputs: Vec<Input> = vec![Input::plain(head.clone())];
            match rl {
                Some(r) if *r <= 20_000 => {
                    let r = *r;
                    // exact random body, exact zero body, short by one, one extra byte
                    let body: Vec<u8> = (0..r).map(|_| rng.below(256) as u8).collect();
                    let mut exact = head.clone();
                    exact.extend_from_slice(&body);
                    inputs.push(Input::plain(exact.clone()));
                    inputs.push(Input { prefix: head.clone(), fill: 0, fill_len: r });
                    if r > 0 {
                        inputs.push(Input::plain(exact[..exact.len() - 1].to_vec()));
                    }
                    let mut extra = exact;
                    extra.push(rng.below(256) as u8);
                    inputs.push(Input::plain(extra));
                }
                Some(r) if *r <= 3_000_000 && canonical_first => {
                    let fill = rng.below(256) as u8;
                    inputs.push(Input { prefix: head.clone(), fill, fill_len: *r });
                    inputs.push(Input { prefix: head.clone(), fill, fill_len: *r - 1 });
                }
                Some(_) => {
                    inputs.push(Input { prefix: head.clone(), fill: 7, fill_len: 300 });
                }
                None => {
                    let mut more = head.clone();
                    more.extend((0..5).map(|_| rng.below(256) as u8));
                    inputs.push(Input::plain(more));
                }
            }
            let maxes: &[usize] = if big { &[10 * 1024, 256 * 1024 * 1024] } else { &MAXES };
            for input in &inputs {
                for &max in maxes {
                    direct_all(ctx, stats, input, max, "header");
                }
            }
        }
    }
    stats.exhaustive_scopes.push(
        "all 256 first bytes x 25 remaining-length prefixes (every width boundary +-1, non-minimal, unterminated, over-long) x \
         {header only, exact random body, exact zero body, short by one, one extra byte} x max {0,1,2,127,128,10 KiB,256 MiB} x 4 decoders \
         (bodies above 20 000 bytes: the 16 first bytes with the type's mandatory flags, exact and short by one, max {10 KiB, 256 MiB})"
            .into(),
    );
}

/// a valid frame (reference encoder, spec-legal value) for protocol `version`
fn valid_frame(rng: &mut Rng, version: u8, sz: &Sizes) -> Vec<u8> {
    let dir = if rng.chance(1, 2) { Dir::C2S } else { Dir::S2C };
    let types = canon::types_for(version, dir);
    let t = *rng.pick(&types);
    canon::encode(&canon::random(rng, version, t, dir, sz))
}

fn mutate(rng: &mut Rng, b: &mut Vec<u8>) {
    if b.is_empty() {
        b.push(rng.below(256) as u8);
        return;
    }
    let i = rng.below(b.len() as u64) as usize;
    match rng.below(7) {
        0 => b[i] ^= 1 << rng.below(8),
        1 => b[i] = rng.below(256) as u8,
        2 => b.insert(i, rng.below(256) as u8),
        3 => {
            b.remove(i);
        }
        4 => b.truncate(i),
        5 => {
            // edit the length field
            if b.len() > 1 {
                b[1] = match rng.below(4) {
                    0 => b[1].wrapping_add(1),
                    1 => b[1].wrapping_sub(1),
                    2 => b[1] | 0x80,
                    _ => rng.below(256) as u8,
                };
            }
        }
        _ => {
            // edit an inner length (a 16-bit string length or a property length)
            let j = (2 + rng.below(8) as usize).min(b.len() - 1);
            b[j] = *rng.pick(&[0u8, 1, 0x7f, 0x80, 0xff]);
        }
    }
}

fn pick_max(rng: &mut Rng) -> usize {
    if rng.chance(2, 3) {
        *rng.pick(&[10 * 1024usize, 256 * 1024 * 1024, 1 << 20])
    } else {
        *rng.pick(&MAXES)
    }
}

fn mutation_cases(ctx: &Ctx, stats: &mut Stats, rng: &mut Rng, n: u64) {
    let sz = Sizes::small();
    for _ in 0..n {
        let version = if rng.chance(1, 2) { 4 } else { 5 };
        let mut b = valid_frame(rng, version, &sz);
        for _ in 0..rng.range(1, 4) {
            mutate(rng, &mut b);
        }
        let max = pick_max(rng);
        let input = Input::plain(b);
        // the frame's own protocol version on both sides, and sometimes the other one too
        if rng.chance(1, 4) {
            direct_all(ctx, stats, &input, max, "mutation");
        } else if version == 4 {
            direct::<C4>(ctx, stats, &input, max, "mutation");
            direct::<D4>(ctx, stats, &input, max, "mutation");
        } else {
            direct::<C5>(ctx, stats, &input, max, "mutation");
            direct::<D5>(ctx, stats, &input, max, "mutation");
        }
        if stats.violations.len() >= 5 {
            return;
        }
    }
}

fn random_cases(ctx: &Ctx, stats: &mut Stats, rng: &mut Rng, n: u64) {
    for _ in 0..n {
        let len = if rng.chance(1, 10) { rng.range(0, 600) } else { rng.range(0, 40) } as usize;
        let mut b: Vec<u8> = (0..len).map(|_| rng.below(256) as u8).collect();
        // bias the length byte towards frames that are complete
        if b.len() > 2 && rng.chance(2, 3) {
            b[1] = (b.len() - 2) as u8 & 0x7f;
        }
        direct_all(ctx, stats, &Input::plain(b), pick_max(rng), "random");
        if stats.violations.len() >= 5 {
            return;
        }
    }
}

/// Is a complete frame of this type a trigger of a known finding for this codec?
/// F2: the broker's v5 decoder panics on CONNACK / UNSUBACK with a non-empty body.
fn f2_trigger(codec: &str, frame: &[u8]) -> bool {
    codec == "d5" && matches!(frame.first().map(|b| b >> 4), Some(2) | Some(11)) && frame.get(1) != Some(&0)
}

fn stream_cases(ctx: &Ctx, stats: &mut Stats, rng: &mut Rng, n: u64) {
    let rt = runtime();
    let small = Sizes::small();
    for i in 0..n {
        let codec = CODECS[(i % 4) as usize];
        let version = if codec.ends_with('4') { 4 } else { 5 };
        let triggers = rng.chance(15, 100);
        let frames = rng.range(1, 8);
        let mut stream = vec![];
        for _ in 0..frames {
            let mut f = valid_frame(rng, version, &small);
            if rng.chance(1, 40) {
                // a frame larger than the framing layers' initial buffers (8-10 KiB)
                let mut c = canon::random(rng, version, canon::PUBLISH, Dir::C2S, &small);
                let l = rng.range(9_000, 40_000) as usize;
                c.payload = canon::gen_bytes(rng, l);
                if canon::p_u8(&c.props, canon::P_PAYLOAD_FORMAT) == Some(1) {
                    c.payload = canon::gen_ascii(rng, l);
                }
                f = canon::encode(&c);
            }
            if !triggers && f2_trigger(codec, &f) {
                continue;
            }
            stream.extend_from_slice(&f);
        }
        // how the stream ends: clean, inside a frame, or with a damaged frame
        match rng.below(4) {
            0 => {}
            1 => {
                let f = valid_frame(rng, version, &small);
                if triggers || !f2_trigger(codec, &f) {
                    let cut = rng.below(f.len() as u64) as usize;
                    stream.extend_from_slice(&f[..cut]);
                }
            }
            _ => {
                let mut f = valid_frame(rng, version, &small);
                for _ in 0..rng.range(1, 3) {
                    mutate(rng, &mut f);
                }
                if triggers || !f2_trigger(codec, &f) {
                    stream.extend_from_slice(&f);
                    let g = valid_frame(rng, version, &small);
                    if triggers || !f2_trigger(codec, &g) {
                        stream.extend_from_slice(&g);
                    }
                }
            }
        }
        let max = if rng.chance(3, 4) { 256 * 1024 * 1024 } else { *rng.pick(&[2usize, 127, 128, 10 * 1024]) };
        let case = StreamCase {
            codec,
            max,
            stream,
            seed: rng.next(),
        };
        with_codec!(codec, X => stream_case::<X>(ctx, stats, &rt, &case));
        if stats.violations.len() >= 5 {
            return;
        }
    }
}

// ------------------------------------------------------------------ entry points

fn run(ctx: &Ctx) -> Stats {
    // quick: the same total workload, spread over a few threads so that it stays short on a loaded machine
    let threads = if ctx.quick() { ctx.threads.min(6) } else { ctx.threads };
    let t = threads.max(1) as u64;
    let n_mut = ctx.size(120_000 / t, 72_000_000 / t);
    let n_rand = ctx.size(40_000 / t, 18_000_000 / t);
    let n_stream = ctx.size(4_000 / t, 1_200_000 / t);
    sharded(ctx, threads, |shard, seed| {
        let mut stats = Stats::default();
        let mut rng = Rng::new(seed);
        if shard == 0 {
            exhaustive_short(ctx, &mut stats);
            exhaustive_headers(ctx, &mut stats, &mut rng);
        }
        mutation_cases(ctx, &mut stats, &mut rng, n_mut);
        random_cases(ctx, &mut stats, &mut rng, n_rand);
        stream_cases(ctx, &mut stats, &mut rng, n_stream);
        stats
    })
}

fn replay(ctx: &Ctx, v: &Value) -> Stats {
    let mut stats = Stats::default();
    stats.shapes.insert(1);
    stats.shapes.insert(2);
    let codec = v["codec"].as_str().unwrap_or("");
    let Some(codec) = CODECS.iter().find(|c| **c == codec).copied() else {
        stats.inconclusive.push("replay: unknown codec".into());
        return stats;
    };
    let max = v["max"].as_u64().unwrap_or(0) as usize;
    match v["kind"].as_str() {
        Some("direct") => match Input::from_json(&v["input"]) {
            Some(input) => {
                with_codec!(codec, X => { direct::<X>(ctx, &mut stats, &input, max, "replay"); });
            }
            None => stats.inconclusive.push("replay: bad input".into()),
        },
        Some("stream") => match v["stream"].as_str().and_then(unhex) {
            Some(stream) => {
                let rt = runtime();
                let case = StreamCase {
                    codec,
                    max,
                    stream,
                    seed: v["seed"].as_u64().unwrap_or(1),
                };
                with_codec!(codec, X => stream_case::<X>(ctx, &mut stats, &rt, &case));
            }
            None => stats.inconclusive.push("replay: bad stream".into()),
        },
        _ => stats.inconclusive.push("replay: unknown kind".into()),
    }
    stats
}

pub fn prop() -> Prop {
    Prop {
        id: ID,
        meta: Meta {
            level: "exploration",
            rule: "one case = one decode call of one decoder on one byte string with one maximum size (scopes: all strings of \
                   length <=2; every first byte x remaining-length prefix x body variant; mutated valid frames; random strings), \
                   or one stream of concatenated frames pushed through every chunking and framing layer of one decoder; distinct \
                   = distinct (decoder, packet-type nibble, header-oracle class [header incomplete / bad length / frame with \
                   length width 1-4, complete or partial, within or over the maximum], outcome class [packet / need-more / \
                   error]) for decode calls and distinct (decoder, packets decoded (capped), kind of end, maximum) for streams",
            assumptions: &[
                "the maximum is compared with the remaining length the header declares, as all four decoders document; accepting a frame whose total length exceeds the maximum by its header bytes is not reported",
                "an error is accepted for any input (which inputs are malformed is outside this statement); only panics, packets from incomplete or over-long frames, requests for more bytes on a complete frame, over-consumption and chunking differences are failures",
                "the sequence compared across chunkings is the list of packets up to and including the first decoder error; an end of input inside a frame is reported by the I/O layer, not by the decoder, and is not part of the sequence",
                "Framed/Network are driven to end of input over an in-memory reader that returns one chunk per read and never returns Pending",
            ],
            floors: &[
                ("header-oracle", 500_000),
                ("chunking-growing-buffer", 4_000),
                ("chunking-framed", 2_000),
                ("chunking-network-read", 2_000),
                ("chunking-network-readv", 2_000),
                ("chunking-byte-by-byte", 1_000),
                ("stream-multi-packet", 500),
                ("stream-ends-in-error", 200),
                ("frame:w4:complete:within:error", 50),
                ("frame:w3:complete:within:packet", 20),
                ("frame:w1:complete:over:error", 1_000),
                ("bad-length:error", 1_000),
                ("hdr-incomplete:need-more", 1_000),
            ],
        },
        run,
        replay: Some(replay),
    }
}
