//! One module per property: workload + oracle + evidence
use crate::common::{Ctx, Stats};

pub mod c01;
pub mod s4common;
pub mod s4parts;
pub mod c02;
pub mod c03;
pub mod c04;
pub mod c05;
pub mod c06;
pub mod c07;
pub mod c08;
pub mod c09;
pub mod c10;
pub mod c11;
pub mod c12;
pub mod c13;
pub mod c14;
pub mod c15;
pub mod c16;
pub mod c17;
pub mod c18;
pub mod c18_rt;
pub mod c19;
pub mod c20;

pub struct Meta {
    /// evidence level: "exploration" | "fault_enumeration"
    pub level: &'static str,
    /// how cases are generated and what makes one distinct / non-trivial
    pub rule: &'static str,
    pub assumptions: &'static [&'static str],
    /// (corner-state or oracle name, minimum count) – a run below a floor is inconclusive
    pub floors: &'static [(&'static str, u64)],
}

pub type RunFn = fn(&Ctx) -> Stats;
/// Re-execute / re-judge the case stored under "replay" in a replay file
pub type ReplayFn = fn(&Ctx, &serde_json::Value) -> Stats;

pub struct Prop {
    pub id: &'static str,
    pub meta: Meta,
    pub run: RunFn,
    pub replay: Option<ReplayFn>,
}

pub fn all() -> Vec<Prop> {
    vec![
        c01::prop(),
        c02::prop(),
        c03::prop(),
        c04::prop(),
        c05::prop(),
        c06::prop(),
        c07::prop(),
        c08::prop(),
        c09::prop(),
        c10::prop(),
        c11::prop(),
        c12::prop(),
        c13::prop(),
        c14::prop(),
        c15::prop(),
        c16::prop(),
        c17::prop(),
        c18::prop(),
        c19::prop(),
        c20::prop(),
    ]
}
