//! rumqttc MQTT 3.1.1 packet values (`rumqttc::mqttbytes::v4::Packet`):
//! `build` (canon -> packet), `canon` (packet -> canon), `random` (well-formed packet).
use super::canon::{self, Canon, CanonConnect, CanonWill, Dir, Sizes};
use crate::common::Rng;
use bytes::Bytes;
use rumqttc::mqttbytes::v4::*;
use rumqttc::mqttbytes::{Protocol, QoS};

pub fn qos(n: u8) -> QoS {
    match n {
        0 => QoS::AtMostOnce,
        1 => QoS::AtLeastOnce,
        _ => QoS::ExactlyOnce,
    }
}

/// CONNACK return codes, MQTT 3.1.1 table 3.1
const CONNACK: &[(ConnectReturnCode, u8)] = &[
    (ConnectReturnCode::Success, 0),
    (ConnectReturnCode::RefusedProtocolVersion, 1),
    (ConnectReturnCode::BadClientId, 2),
    (ConnectReturnCode::ServiceUnavailable, 3),
    (ConnectReturnCode::BadUserNamePassword, 4),
    (ConnectReturnCode::NotAuthorized, 5),
];

fn suback_code(c: SubscribeReasonCode) -> u8 {
    match c {
        SubscribeReasonCode::Success(q) => q as u8,
        SubscribeReasonCode::Failure => 0x80,
    }
}

fn utf8(b: &[u8]) -> String {
    String::from_utf8(b.to_vec()).expect("generator produces UTF-8 topics")
}

/// Build the rumqttc v4 value for a version-4 canon. `None` if the canon cannot be
/// expressed (wrong version, AUTH, unknown code).
pub fn build(c: &Canon) -> Option<Packet> {
    if c.version != 4 || !c.props.is_empty() {
        return None;
    }
    Some(match c.ptype {
        canon::CONNECT => {
            let k = c.connect.as_ref()?;
            let login = match (&k.username, &k.password) {
                (None, None) => None,
                (u, p) => Some(Login {
                    username: u.clone().unwrap_or_default(),
                    password: p.clone().unwrap_or_default(),
                }),
            };
            Packet::Connect(Connect {
                protocol: Protocol::V4,
                keep_alive: k.keep_alive,
                client_id: k.client_id.clone(),
                clean_session: k.clean,
                last_will: k.will.as_ref().map(|w| LastWill {
                    topic: utf8(&w.topic),
                    message: Bytes::from(w.message.clone()),
                    qos: qos(w.qos),
                    retain: w.retain,
                }),
                login,
            })
        }
        canon::CONNACK => Packet::ConnAck(ConnAck {
            session_present: c.session_present,
            code: CONNACK.iter().find(|(_, n)| *n == c.code)?.0,
        }),
        canon::PUBLISH => Packet::Publish(Publish {
            dup: c.dup,
            qos: qos(c.qos),
            retain: c.retain,
            topic: utf8(&c.topic),
            pkid: c.pkid,
            payload: Bytes::from(c.payload.clone()),
        }),
        canon::PUBACK => Packet::PubAck(PubAck { pkid: c.pkid }),
        canon::PUBREC => Packet::PubRec(PubRec { pkid: c.pkid }),
        canon::PUBREL => Packet::PubRel(PubRel { pkid: c.pkid }),
        canon::PUBCOMP => Packet::PubComp(PubComp { pkid: c.pkid }),
        canon::SUBSCRIBE => Packet::Subscribe(Subscribe {
            pkid: c.pkid,
            filters: c
                .filters
                .iter()
                .map(|(f, o)| SubscribeFilter {
                    path: f.clone(),
                    qos: qos(o & 3),
                })
                .collect(),
        }),
        canon::SUBACK => Packet::SubAck(SubAck {
            pkid: c.pkid,
            return_codes: c
                .codes
                .iter()
                .map(|n| match n {
                    0..=2 => Some(SubscribeReasonCode::Success(qos(*n))),
                    0x80 => Some(SubscribeReasonCode::Failure),
                    _ => None,
                })
                .collect::<Option<Vec<_>>>()?,
        }),
        canon::UNSUBSCRIBE => Packet::Unsubscribe(Unsubscribe {
            pkid: c.pkid,
            topics: c.filters.iter().map(|(f, _)| f.clone()).collect(),
        }),
        canon::UNSUBACK => Packet::UnsubAck(UnsubAck { pkid: c.pkid }),
        canon::PINGREQ => Packet::PingReq,
        canon::PINGRESP => Packet::PingResp,
        canon::DISCONNECT => Packet::Disconnect,
        _ => return None,
    })
}

/// Canonical content of a rumqttc v4 packet
pub fn canon(p: &Packet) -> Canon {
    let mut c = Canon::empty(4, 0);
    match p {
        Packet::Connect(k) => {
            c.ptype = canon::CONNECT;
            // a 3.1.1 CONNECT carries protocol level 4; level 5 shows up as version 5
            c.version = match k.protocol {
                Protocol::V4 => 4,
                Protocol::V5 => 5,
            };
            let (username, password) = match &k.login {
                None => (None, None),
                Some(l) => (
                    (!l.username.is_empty()).then(|| l.username.clone()),
                    (!l.password.is_empty()).then(|| l.password.clone()),
                ),
            };
            c.connect = Some(CanonConnect {
                keep_alive: k.keep_alive,
                clean: k.clean_session,
                client_id: k.client_id.clone(),
                will: k.last_will.as_ref().map(|w| CanonWill {
                    topic: w.topic.as_bytes().to_vec(),
                    message: w.message.to_vec(),
                    qos: w.qos as u8,
                    retain: w.retain,
                    props: vec![],
                }),
                username,
                password,
            });
        }
        Packet::ConnAck(a) => {
            c.ptype = canon::CONNACK;
            c.session_present = a.session_present;
            c.code = CONNACK.iter().find(|(v, _)| *v == a.code).map(|x| x.1).unwrap_or(255);
        }
        Packet::Publish(x) => {
            c.ptype = canon::PUBLISH;
            c.dup = x.dup;
            c.qos = x.qos as u8;
            c.retain = x.retain;
            c.pkid = x.pkid;
            c.topic = x.topic.as_bytes().to_vec();
            c.payload = x.payload.to_vec();
        }
        Packet::PubAck(x) => {
            c.ptype = canon::PUBACK;
            c.pkid = x.pkid;
        }
        Packet::PubRec(x) => {
            c.ptype = canon::PUBREC;
            c.pkid = x.pkid;
        }
        Packet::PubRel(x) => {
            c.ptype = canon::PUBREL;
            c.pkid = x.pkid;
        }
        Packet::PubComp(x) => {
            c.ptype = canon::PUBCOMP;
            c.pkid = x.pkid;
        }
        Packet::Subscribe(s) => {
            c.ptype = canon::SUBSCRIBE;
            c.pkid = s.pkid;
            c.filters = s.filters.iter().map(|f| (f.path.clone(), f.qos as u8)).collect();
        }
        Packet::SubAck(s) => {
            c.ptype = canon::SUBACK;
            c.pkid = s.pkid;
            c.codes = s.return_codes.iter().map(|r| suback_code(*r)).collect();
        }
        Packet::Unsubscribe(u) => {
            c.ptype = canon::UNSUBSCRIBE;
            c.pkid = u.pkid;
            c.filters = u.topics.iter().map(|f| (f.clone(), 0)).collect();
        }
        Packet::UnsubAck(u) => {
            c.ptype = canon::UNSUBACK;
            c.pkid = u.pkid;
        }
        Packet::PingReq => c.ptype = canon::PINGREQ,
        Packet::PingResp => c.ptype = canon::PINGRESP,
        Packet::Disconnect => c.ptype = canon::DISCONNECT,
    }
    c
}

/// random well-formed packet of the given type
pub fn random(rng: &mut Rng, ptype: u8, dir: Dir, sz: &Sizes) -> Packet {
    build(&canon::random(rng, 4, ptype, dir, sz)).expect("v4 canon is expressible")
}
