//! Event-loop scenarios (substrate S3) shared by the event-loop halves of C02 / C07 / C10:
//! a serialisable case description (so a violation can be replayed), its translation into an
//! `s3::Scenario`, and the one observation all three halves need – the event stream *as the
//! state machine produced it*, reconstructed from the `poll()` returns and the queue that is
//! still waiting in `state.events` after each return.
use crate::sub::s3::{self, *};
use serde::{Deserialize, Serialize};

/// reply rule of the scripted broker (serialisable mirror of `s3::Reply`)
#[derive(Clone, Debug, PartialEq, Eq, Serialize, Deserialize)]
pub enum R {
    Normal,
    Drop,
    Delay(u64),
    Duplicate,
    WrongKind,
    Unsolicited(u16),
    Reason(u8),
    Reorder(usize),
}

impl R {
    fn reply(&self) -> Reply {
        match self {
            R::Normal => Reply::Normal,
            R::Drop => Reply::Drop,
            R::Delay(d) => Reply::Delay(*d),
            R::Duplicate => Reply::Duplicate,
            R::WrongKind => Reply::WrongKind,
            R::Unsolicited(id) => Reply::UnsolicitedId(*id),
            R::Reason(c) => Reply::Reason(*c),
            R::Reorder(n) => Reply::Reorder(*n),
        }
    }
}

#[derive(Clone, Copy, Debug, PartialEq, Eq, Serialize, Deserialize)]
pub enum Cls {
    Q1,
    Q2,
    PubRel,
    Sub,
    Unsub,
    Ping,
    PubRec,
}

impl Cls {
    fn on(self) -> On {
        match self {
            Cls::Q1 => On::PublishQ1,
            Cls::Q2 => On::PublishQ2,
            Cls::PubRel => On::PubRel,
            Cls::Sub => On::Subscribe,
            Cls::Unsub => On::Unsubscribe,
            Cls::Ping => On::PingReq,
            Cls::PubRec => On::PubRec,
        }
    }
}

#[derive(Clone, Debug, PartialEq, Eq, Serialize, Deserialize)]
pub struct Rule {
    pub on: Cls,
    /// the i-th packet of the class gets `first[i]`, later ones `rest`
    pub first: Vec<R>,
    pub rest: R,
}

/// a frame the broker sends on its own initiative
#[derive(Clone, Debug, PartialEq, Eq, Serialize, Deserialize)]
pub enum F {
    Publish { qos: u8, pkid: u16, topic: String, payload: String },
    PubAck(u16),
    PubRec(u16),
    PubRel(u16),
    PubComp(u16),
    SubAck(u16),
    UnsubAck(u16),
    PingResp,
    /// a packet only a client sends
    PingReq,
}

impl F {
    fn frame(&self, ver: Ver) -> Frame {
        match self {
            F::Publish {
                qos,
                pkid,
                topic,
                payload,
            } => wire::publish(*qos, *pkid, topic, payload, false, false),
            F::PubAck(id) => wire::ack(Kind::PubAck, *id, 0),
            F::PubRec(id) => wire::ack(Kind::PubRec, *id, 0),
            F::PubRel(id) => wire::ack(Kind::PubRel, *id, 0),
            F::PubComp(id) => wire::ack(Kind::PubComp, *id, 0),
            F::SubAck(id) => wire::suback(ver, *id, &[1]),
            F::UnsubAck(id) => wire::unsuback(ver, *id, 1),
            F::PingResp => wire::pingresp(),
            F::PingReq => wire::pingreq(),
        }
    }
    pub fn kind(&self) -> Kind {
        match self {
            F::Publish { .. } => Kind::Publish,
            F::PubAck(_) => Kind::PubAck,
            F::PubRec(_) => Kind::PubRec,
            F::PubRel(_) => Kind::PubRel,
            F::PubComp(_) => Kind::PubComp,
            F::SubAck(_) => Kind::SubAck,
            F::UnsubAck(_) => Kind::UnsubAck,
            F::PingResp => Kind::PingResp,
            F::PingReq => Kind::PingReq,
        }
    }
}

#[derive(Clone, Debug, PartialEq, Eq, Serialize, Deserialize)]
pub struct BurstSpec {
    /// virtual ms after the connection was accepted; all frames go out in one write
    pub at_ms: u64,
    pub frames: Vec<F>,
}

#[derive(Clone, Debug, PartialEq, Eq, Serialize, Deserialize)]
pub enum FaultSpec {
    C2b(u64),
    B2cEof(u64),
    B2cReset(u64),
}

#[derive(Clone, Debug, PartialEq, Eq, Serialize, Deserialize)]
pub struct ConnSpec {
    pub session_present: bool,
    /// v5: receive_max in the CONNACK
    pub receive_max: Option<u16>,
    pub rules: Vec<Rule>,
    pub bursts: Vec<BurstSpec>,
    pub fault: Option<FaultSpec>,
    /// the broker closes the pipe this long after accepting it
    pub close_at_ms: Option<u64>,
    /// the broker answers the CONNECT with this refusing return / reason code (no session, nothing else happens)
    #[serde(default)]
    pub refuse_code: Option<u8>,
}

impl ConnSpec {
    pub fn normal(session_present: bool) -> ConnSpec {
        ConnSpec {
            session_present,
            receive_max: None,
            rules: vec![],
            bursts: vec![],
            fault: None,
            close_at_ms: None,
            refuse_code: None,
        }
    }
    pub fn rule(mut self, on: Cls, first: Vec<R>, rest: R) -> ConnSpec {
        self.rules.retain(|r| r.on != on);
        self.rules.push(Rule { on, first, rest });
        self
    }
}

#[derive(Clone, Debug, PartialEq, Eq, Serialize, Deserialize)]
pub enum UOp {
    Pub { qos: u8, payload: String },
    Sub { filter: String },
    Unsub { filter: String },
    /// manual acknowledgement (manual_acks mode)
    Ack { qos: u8, pkid: u16 },
}

#[derive(Clone, Debug, PartialEq, Eq, Serialize, Deserialize)]
pub enum W {
    AfterConnAck(usize),
    AfterConnEnd(usize),
    AtMs(u64),
    /// after the n-th (0-based) incoming publish event of connection c was returned by poll()
    AfterPublishIn { conn: usize, nth: usize },
}

#[derive(Clone, Debug, PartialEq, Eq, Serialize, Deserialize)]
pub struct UStep {
    pub when: W,
    pub op: UOp,
}

#[derive(Clone, Debug, PartialEq, Eq, Serialize, Deserialize)]
pub struct Case {
    pub name: String,
    pub ver: String,
    pub inflight: u16,
    pub manual: bool,
    pub steps: Vec<UStep>,
    /// one per connection attempt; the last repeats
    pub conns: Vec<ConnSpec>,
}

impl Case {
    pub fn ver(&self) -> Ver {
        if self.ver == "v5" {
            Ver::V5
        } else {
            Ver::V4
        }
    }
    pub fn publishes(&self) -> Vec<(u8, String)> {
        self.steps
            .iter()
            .filter_map(|s| match &s.op {
                UOp::Pub { qos, payload } => Some((*qos, payload.clone())),
                _ => None,
            })
            .collect()
    }
}

pub const TOPIC: &str = "t";

pub fn build(case: &Case) -> Scenario {
    let ver = case.ver();
    let mut scn = Scenario::new(ver);
    scn.opts.keep_alive_s = 5;
    scn.opts.clean_session = false;
    scn.opts.inflight = case.inflight;
    scn.opts.manual_acks = case.manual;
    scn.opts.channel_cap = 1024;
    // a third of the cases pause between two replayed requests (MqttOptions::set_pending_throttle), so that
    // broker traffic arrives while the next pending request is being taken; derived from the case itself so
    // that a stored case replays identically
    scn.opts.pending_throttle_us = match crate::common::fnv(format!("{}/{}/{}", case.name, case.inflight, case.steps.len()).as_bytes()) % 6 {
        0 => 300,
        1 => 400_000,
        _ => 0,
    };
    if scn.opts.pending_throttle_us >= 100_000 {
        // "idle" is recognised by the first keep-alive ping: it must not come while the pending queue is still being
        // replayed at 0.4 s per request
        scn.opts.keep_alive_s = 60;
    }
    scn.snap = SnapLevel::Full;
    scn.conns.clear();
    for c in &case.conns {
        let mut p = ConnPolicy::normal(c.session_present);
        if let (Ver::V5, Some(rm)) = (ver, c.receive_max) {
            p.connack = ConnAckRule::Send {
                session_present: c.session_present,
                code: 0,
                delay_ms: 0,
                props: Some(rumqttd::protocol::ConnAckProperties {
                    session_expiry_interval: None,
                    receive_max: Some(rm),
                    max_qos: None,
                    retain_available: None,
                    max_packet_size: None,
                    assigned_client_identifier: None,
                    topic_alias_max: None,
                    reason_string: None,
                    user_properties: vec![],
                    wildcard_subscription_available: None,
                    subscription_identifiers_available: None,
                    shared_subscription_available: None,
                    server_keep_alive: None,
                    response_information: None,
                    server_reference: None,
                    authentication_method: None,
                    authentication_data: None,
                }),
            };
        }
        if let Some(code) = c.refuse_code {
            p.connack = ConnAckRule::Send {
                session_present: false,
                code,
                delay_ms: 0,
                props: None,
            };
        }
        for r in &c.rules {
            p.rules.insert(
                r.on.on(),
                RuleSeq {
                    first: r.first.iter().map(|x| x.reply()).collect(),
                    rest: r.rest.reply(),
                },
            );
        }
        for b in &c.bursts {
            p.unsolicited.push(Burst {
                at_ms: b.at_ms,
                frames: b.frames.iter().map(|f| f.frame(ver)).collect(),
            });
        }
        p.close_at_ms = c.close_at_ms;
        let fault = match &c.fault {
            Some(FaultSpec::C2b(k)) => Fault::c2b(*k),
            Some(FaultSpec::B2cEof(k)) => Fault::b2c(*k, EndKind::Eof),
            Some(FaultSpec::B2cReset(k)) => Fault::b2c(*k, EndKind::Reset),
            None => Fault::NONE,
        };
        if c.fault.is_some() && p.close_at_ms.is_none() {
            // a byte fault that never fires must not keep the connection up for ever
            p.close_at_ms = Some(1000);
        }
        scn.conns.push(ConnPlan { policy: p, fault });
    }
    for s in &case.steps {
        let act = match &s.op {
            UOp::Pub { qos, payload } => Act::publish(*qos, TOPIC, payload),
            UOp::Sub { filter } => Act::Subscribe {
                filter: filter.clone(),
                qos: 1,
            },
            UOp::Unsub { filter } => Act::Unsubscribe { filter: filter.clone() },
            UOp::Ack { qos, pkid } => Act::Ack { qos: *qos, pkid: *pkid },
        };
        let when = match &s.when {
            W::AfterConnAck(c) => When::AfterConnAck(*c),
            W::AfterConnEnd(c) => When::AfterConnEnd(*c),
            W::AtMs(t) => When::AtMs(*t),
            W::AfterPublishIn { conn, nth } => When::AfterEvent {
                conn: *conn,
                incoming: true,
                kind: Kind::Publish,
                nth: *nth,
            },
        };
        scn.user.push(UserStep { when, act });
    }
    // idle = the first keep-alive ping of a connection (5 virtual seconds without writes)
    for i in 0..case.conns.len() + 8 {
        scn.stop.when.push(When::AfterEvent {
            conn: i,
            incoming: false,
            kind: Kind::PingReq,
            nth: 0,
        });
    }
    scn.horizon_ms = if scn.opts.keep_alive_s > 5 { 400_000 } else { 60_000 };
    scn.stop.max_polls = 20_000;
    scn
}

/// The events of a run in the order the client *produced* them, reconstructed from what each
/// `poll()` handed out and what was still queued in `state.events` right after it
/// (SnapLevel::Full). `poll()` hands out one event per call, the oldest first; the only event
/// that never goes through the queue is the CONNACK of the 3.1.1 client, which `poll()`
/// returns directly. `anomalies` lists every return that does not fit that discipline (an
/// event handed out that was not the oldest queued one, queued events that vanished or were
/// reordered).
pub struct Produced {
    /// (index of the poll during which the event was produced, event)
    pub events: Vec<(usize, s3::Ev)>,
    pub anomalies: Vec<String>,
}

pub fn produced(log: &RunLog) -> Produced {
    let v4 = log.ver == Some(Ver::V4);
    let mut out = Produced {
        events: vec![],
        anomalies: vec![],
    };
    let mut before: Vec<s3::Ev> = vec![];
    for p in &log.polls {
        let after = &p.snap.queued_events;
        let direct_connack = v4 && p.is(true, Kind::ConnAck);
        if direct_connack {
            out.events.push((p.idx, p.ev().unwrap().clone()));
            if *after != before {
                out.anomalies.push(format!("poll {}: the queue changed while a CONNACK was returned directly", p.idx));
            }
        } else if !before.is_empty() {
            // select() hands out the oldest queued event before doing anything else; v5 may
            // have appended the CONNACK of a new connection first
            let rest: &[s3::Ev] = match p.ev() {
                Some(e) => {
                    if *e != before[0] {
                        out.anomalies.push(format!(
                            "poll {}: returned {} but the oldest queued event was {}",
                            p.idx,
                            e.pk.brief(),
                            before[0].pk.brief()
                        ));
                    }
                    &before[1..]
                }
                None => &before[..],
            };
            if after.len() < rest.len() || after[..rest.len()] != *rest {
                out.anomalies.push(format!("poll {}: queued events were lost or reordered", p.idx));
            } else {
                for e in &after[rest.len()..] {
                    out.events.push((p.idx, e.clone()));
                }
            }
        } else {
            if let Some(e) = p.ev() {
                out.events.push((p.idx, e.clone()));
            }
            for e in after {
                out.events.push((p.idx, e.clone()));
            }
        }
        before = after.clone();
    }
    out
}

/// Split the produced events into connections: a connection starts at its CONNACK event.
/// Returns (events before the first CONNACK, per-connection events starting with the CONNACK)
pub fn by_connection(events: &[(usize, s3::Ev)]) -> (Vec<(usize, s3::Ev)>, Vec<Vec<(usize, s3::Ev)>>) {
    let mut head = vec![];
    let mut segs: Vec<Vec<(usize, s3::Ev)>> = vec![];
    for e in events {
        if e.1.incoming && e.1.pk.kind == Kind::ConnAck {
            segs.push(vec![e.clone()]);
        } else if let Some(last) = segs.last_mut() {
            last.push(e.clone());
        } else {
            head.push(e.clone());
        }
    }
    (head, segs)
}

/// connections (by index) on which the broker wrote a CONNACK
pub fn connacked_conns(log: &RunLog) -> Vec<usize> {
    let mut v = vec![];
    for w in &log.wire {
        // (a refusing CONNACK establishes nothing)
        if w.dir == Dir::B2C && !w.suppressed && w.pk.kind == Kind::ConnAck && w.pk.code == 0 && !v.contains(&w.conn) {
            v.push(w.conn);
        }
    }
    v
}

pub fn run(case: &Case) -> RunLog {
    s3::run(&build(case))
}

/// common per-run evidence
pub fn census(stats: &mut crate::common::Stats, log: &RunLog) {
    stats.opn("s3/poll_returns", log.polls.len() as u64);
    stats.opn("s3/wire_frames", log.wire.len() as u64);
    stats.opn("s3/connections", log.conns.len() as u64);
    stats.add_extra("s3_virtual_seconds", log.end_ms / 1000);
    if log.panic.is_some() {
        stats.panics_caught += 1;
    }
    for c in &log.conns {
        if c.fired.is_some() {
            stats.add_extra("s3_crash_points_fired", 1);
            if c.intended.iter().any(|f| !f.delivered) || c.intended_leftover > 0 {
                stats.corner("failure-mid-frame");
            }
        }
    }
    for p in &log.polls {
        stats.sig(format!(
            "s3|infl={}|coll={}|pend={}|held={}",
            p.snap.inflight.min(6),
            p.snap.collision.is_some(),
            p.snap.pending_len.min(6),
            p.snap.held.len().min(6)
        ));
    }
}
