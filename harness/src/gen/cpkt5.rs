//! rumqttc MQTT 5 packet values (`rumqttc::v5::mqttbytes::v5::Packet`):
//! `build` (canon -> packet), `canon` (packet -> canon), `random` (well-formed packet).
//!
//! Values the generator never produces because they are not canonical MQTT 5 values of this
//! representation: `Some(properties)` with every property absent (same wire form as `None`),
//! `Login` with both strings empty, `SubscribeReasonCode::Failure` (3.1.1 name of 0x80,
//! decoded as `Unspecified`), the 3.1.1-only `ConnectReturnCode`s.
use super::canon::{self, *};
use crate::common::Rng;
use bytes::Bytes;
use rumqttc::v5::mqttbytes::v5::*;
use rumqttc::v5::mqttbytes::QoS;

pub fn qos(n: u8) -> QoS {
    match n {
        0 => QoS::AtMostOnce,
        1 => QoS::AtLeastOnce,
        _ => QoS::ExactlyOnce,
    }
}

/// MQTT 5 section 3.2.2.2
const CONNACK_T: &[(ConnectReturnCode, u8)] = &[
    (ConnectReturnCode::Success, 0),
    (ConnectReturnCode::UnspecifiedError, 128),
    (ConnectReturnCode::MalformedPacket, 129),
    (ConnectReturnCode::ProtocolError, 130),
    (ConnectReturnCode::ImplementationSpecificError, 131),
    (ConnectReturnCode::UnsupportedProtocolVersion, 132),
    (ConnectReturnCode::ClientIdentifierNotValid, 133),
    (ConnectReturnCode::BadUserNamePassword, 134),
    (ConnectReturnCode::NotAuthorized, 135),
    (ConnectReturnCode::ServerUnavailable, 136),
    (ConnectReturnCode::ServerBusy, 137),
    (ConnectReturnCode::Banned, 138),
    (ConnectReturnCode::BadAuthenticationMethod, 140),
    (ConnectReturnCode::TopicNameInvalid, 144),
    (ConnectReturnCode::PacketTooLarge, 149),
    (ConnectReturnCode::QuotaExceeded, 151),
    (ConnectReturnCode::PayloadFormatInvalid, 153),
    (ConnectReturnCode::RetainNotSupported, 154),
    (ConnectReturnCode::QoSNotSupported, 155),
    (ConnectReturnCode::UseAnotherServer, 156),
    (ConnectReturnCode::ServerMoved, 157),
    (ConnectReturnCode::ConnectionRateExceeded, 159),
];

const PUBACK_T: &[(PubAckReason, u8)] = &[
    (PubAckReason::Success, 0),
    (PubAckReason::NoMatchingSubscribers, 16),
    (PubAckReason::UnspecifiedError, 128),
    (PubAckReason::ImplementationSpecificError, 131),
    (PubAckReason::NotAuthorized, 135),
    (PubAckReason::TopicNameInvalid, 144),
    (PubAckReason::PacketIdentifierInUse, 145),
    (PubAckReason::QuotaExceeded, 151),
    (PubAckReason::PayloadFormatInvalid, 153),
];

const PUBREC_T: &[(PubRecReason, u8)] = &[
    (PubRecReason::Success, 0),
    (PubRecReason::NoMatchingSubscribers, 16),
    (PubRecReason::UnspecifiedError, 128),
    (PubRecReason::ImplementationSpecificError, 131),
    (PubRecReason::NotAuthorized, 135),
    (PubRecReason::TopicNameInvalid, 144),
    (PubRecReason::PacketIdentifierInUse, 145),
    (PubRecReason::QuotaExceeded, 151),
    (PubRecReason::PayloadFormatInvalid, 153),
];

const PUBREL_T: &[(PubRelReason, u8)] = &[(PubRelReason::Success, 0), (PubRelReason::PacketIdentifierNotFound, 146)];
const PUBCOMP_T: &[(PubCompReason, u8)] = &[(PubCompReason::Success, 0), (PubCompReason::PacketIdentifierNotFound, 146)];

const UNSUBACK_T: &[(UnsubAckReason, u8)] = &[
    (UnsubAckReason::Success, 0x00),
    (UnsubAckReason::NoSubscriptionExisted, 0x11),
    (UnsubAckReason::UnspecifiedError, 0x80),
    (UnsubAckReason::ImplementationSpecificError, 0x83),
    (UnsubAckReason::NotAuthorized, 0x87),
    (UnsubAckReason::TopicFilterInvalid, 0x8F),
    (UnsubAckReason::PacketIdentifierInUse, 0x91),
];

const DISCONNECT_T: &[(DisconnectReasonCode, u8)] = &[
    (DisconnectReasonCode::NormalDisconnection, 0x00),
    (DisconnectReasonCode::DisconnectWithWillMessage, 0x04),
    (DisconnectReasonCode::UnspecifiedError, 0x80),
    (DisconnectReasonCode::MalformedPacket, 0x81),
    (DisconnectReasonCode::ProtocolError, 0x82),
    (DisconnectReasonCode::ImplementationSpecificError, 0x83),
    (DisconnectReasonCode::NotAuthorized, 0x87),
    (DisconnectReasonCode::ServerBusy, 0x89),
    (DisconnectReasonCode::ServerShuttingDown, 0x8B),
    (DisconnectReasonCode::KeepAliveTimeout, 0x8D),
    (DisconnectReasonCode::SessionTakenOver, 0x8E),
    (DisconnectReasonCode::TopicFilterInvalid, 0x8F),
    (DisconnectReasonCode::TopicNameInvalid, 0x90),
    (DisconnectReasonCode::ReceiveMaximumExceeded, 0x93),
    (DisconnectReasonCode::TopicAliasInvalid, 0x94),
    (DisconnectReasonCode::PacketTooLarge, 0x95),
    (DisconnectReasonCode::MessageRateTooHigh, 0x96),
    (DisconnectReasonCode::QuotaExceeded, 0x97),
    (DisconnectReasonCode::AdministrativeAction, 0x98),
    (DisconnectReasonCode::PayloadFormatInvalid, 0x99),
    (DisconnectReasonCode::RetainNotSupported, 0x9A),
    (DisconnectReasonCode::QoSNotSupported, 0x9B),
    (DisconnectReasonCode::UseAnotherServer, 0x9C),
    (DisconnectReasonCode::ServerMoved, 0x9D),
    (DisconnectReasonCode::SharedSubscriptionNotSupported, 0x9E),
    (DisconnectReasonCode::ConnectionRateExceeded, 0x9F),
    (DisconnectReasonCode::MaximumConnectTime, 0xA0),
    (DisconnectReasonCode::SubscriptionIdentifiersNotSupported, 0xA1),
    (DisconnectReasonCode::WildcardSubscriptionsNotSupported, 0xA2),
];

fn suback_code(c: SubscribeReasonCode) -> u8 {
    match c {
        SubscribeReasonCode::Success(q) => q as u8,
        SubscribeReasonCode::Failure => 128,
        SubscribeReasonCode::Unspecified => 128,
        SubscribeReasonCode::ImplementationSpecific => 131,
        SubscribeReasonCode::NotAuthorized => 135,
        SubscribeReasonCode::TopicFilterInvalid => 143,
        SubscribeReasonCode::PkidInUse => 145,
        SubscribeReasonCode::QuotaExceeded => 151,
        SubscribeReasonCode::SharedSubscriptionsNotSupported => 158,
        SubscribeReasonCode::SubscriptionIdNotSupported => 161,
        SubscribeReasonCode::WildcardSubscriptionsNotSupported => 162,
    }
}

fn suback_variant(n: u8) -> Option<SubscribeReasonCode> {
    Some(match n {
        0..=2 => SubscribeReasonCode::Success(qos(n)),
        128 => SubscribeReasonCode::Unspecified,
        131 => SubscribeReasonCode::ImplementationSpecific,
        135 => SubscribeReasonCode::NotAuthorized,
        143 => SubscribeReasonCode::TopicFilterInvalid,
        145 => SubscribeReasonCode::PkidInUse,
        151 => SubscribeReasonCode::QuotaExceeded,
        158 => SubscribeReasonCode::SharedSubscriptionsNotSupported,
        161 => SubscribeReasonCode::SubscriptionIdNotSupported,
        162 => SubscribeReasonCode::WildcardSubscriptionsNotSupported,
        _ => return None,
    })
}

fn by_code<T: Copy>(t: &[(T, u8)], n: u8) -> Option<T> {
    t.iter().find(|(_, c)| *c == n).map(|x| x.0)
}
fn code_of<T: Copy + PartialEq>(t: &[(T, u8)], v: T) -> u8 {
    t.iter().find(|(x, _)| *x == v).map(|x| x.1).unwrap_or(255)
}

fn some_if<T>(p: &Props, f: impl FnOnce() -> T) -> Option<T> {
    if p.is_empty() {
        None
    } else {
        Some(f())
    }
}

/// Build an AUTH value. `Auth`'s field types are not exported, so the only public way to
/// obtain one is the public `Auth::read` on a reference-encoded frame.
fn build_auth(c: &Canon) -> Option<Packet> {
    let bytes = canon::encode(c);
    let remaining = bytes.len() - 2;
    if remaining > 127 || !c.props.is_empty() {
        return None;
    }
    // AUTH with reason 0 and no properties may omit both; Auth::read wants them spelled out
    let frame = vec![0xF0, 2, c.code, 0];
    let fh = FixedHeader::new(0xF0, 1, 2);
    Auth::read(fh, Bytes::from(frame)).ok().map(Packet::Auth)
}

/// Build the rumqttc v5 value for a version-5 canon
pub fn build(c: &Canon) -> Option<Packet> {
    if c.version != 5 {
        return None;
    }
    let p = &c.props;
    Some(match c.ptype {
        canon::CONNECT => {
            let k = c.connect.as_ref()?;
            let login = match (&k.username, &k.password) {
                (None, None) => None,
                (u, pw) => Some(Login {
                    username: u.clone().unwrap_or_default(),
                    password: pw.clone().unwrap_or_default(),
                }),
            };
            let will = k.will.as_ref().map(|w| LastWill {
                topic: Bytes::from(w.topic.clone()),
                message: Bytes::from(w.message.clone()),
                qos: qos(w.qos),
                retain: w.retain,
                properties: some_if(&w.props, || LastWillProperties {
                    delay_interval: p_u32(&w.props, P_WILL_DELAY),
                    payload_format_indicator: p_u8(&w.props, P_PAYLOAD_FORMAT),
                    message_expiry_interval: p_u32(&w.props, P_MESSAGE_EXPIRY),
                    content_type: p_str(&w.props, P_CONTENT_TYPE),
                    response_topic: p_str(&w.props, P_RESPONSE_TOPIC),
                    correlation_data: p_bin(&w.props, P_CORRELATION_DATA),
                    user_properties: p_users(&w.props),
                }),
            });
            Packet::Connect(
                Connect {
                    keep_alive: k.keep_alive,
                    client_id: k.client_id.clone(),
                    clean_start: k.clean,
                    properties: some_if(p, || ConnectProperties {
                        session_expiry_interval: p_u32(p, P_SESSION_EXPIRY),
                        receive_maximum: p_u16(p, P_RECEIVE_MAX),
                        max_packet_size: p_u32(p, P_MAX_PACKET_SIZE),
                        topic_alias_max: p_u16(p, P_TOPIC_ALIAS_MAX),
                        request_response_info: p_u8(p, P_REQUEST_RESPONSE_INFO),
                        request_problem_info: p_u8(p, P_REQUEST_PROBLEM_INFO),
                        user_properties: p_users(p),
                        authentication_method: p_str(p, P_AUTH_METHOD),
                        authentication_data: p_bin(p, P_AUTH_DATA),
                    }),
                },
                will,
                login,
            )
        }
        canon::CONNACK => Packet::ConnAck(ConnAck {
            session_present: c.session_present,
            code: by_code(CONNACK_T, c.code)?,
            properties: some_if(p, || ConnAckProperties {
                session_expiry_interval: p_u32(p, P_SESSION_EXPIRY),
                receive_max: p_u16(p, P_RECEIVE_MAX),
                max_qos: p_u8(p, P_MAX_QOS),
                retain_available: p_u8(p, P_RETAIN_AVAILABLE),
                max_packet_size: p_u32(p, P_MAX_PACKET_SIZE),
                assigned_client_identifier: p_str(p, P_ASSIGNED_CLIENT_ID),
                topic_alias_max: p_u16(p, P_TOPIC_ALIAS_MAX),
                reason_string: p_str(p, P_REASON_STRING),
                user_properties: p_users(p),
                wildcard_subscription_available: p_u8(p, P_WILDCARD_SUB_AVAILABLE),
                subscription_identifiers_available: p_u8(p, P_SUB_ID_AVAILABLE),
                shared_subscription_available: p_u8(p, P_SHARED_SUB_AVAILABLE),
                server_keep_alive: p_u16(p, P_SERVER_KEEP_ALIVE),
                response_information: p_str(p, P_RESPONSE_INFO),
                server_reference: p_str(p, P_SERVER_REFERENCE),
                authentication_method: p_str(p, P_AUTH_METHOD),
                authentication_data: p_bin(p, P_AUTH_DATA),
            }),
        }),
        canon::PUBLISH => Packet::Publish(Publish {
            dup: c.dup,
            qos: qos(c.qos),
            retain: c.retain,
            topic: Bytes::from(c.topic.clone()),
            pkid: c.pkid,
            payload: Bytes::from(c.payload.clone()),
            properties: some_if(p, || PublishProperties {
                payload_format_indicator: p_u8(p, P_PAYLOAD_FORMAT),
                message_expiry_interval: p_u32(p, P_MESSAGE_EXPIRY),
                topic_alias: p_u16(p, P_TOPIC_ALIAS),
                response_topic: p_str(p, P_RESPONSE_TOPIC),
                correlation_data: p_bin(p, P_CORRELATION_DATA),
                user_properties: p_users(p),
                subscription_identifiers: p_vars(p, P_SUBSCRIPTION_ID),
                content_type: p_str(p, P_CONTENT_TYPE),
            }),
        }),
        canon::PUBACK => Packet::PubAck(PubAck {
            pkid: c.pkid,
            reason: by_code(PUBACK_T, c.code)?,
            properties: some_if(p, || PubAckProperties {
                reason_string: p_str(p, P_REASON_STRING),
                user_properties: p_users(p),
            }),
        }),
        canon::PUBREC => Packet::PubRec(PubRec {
            pkid: c.pkid,
            reason: by_code(PUBREC_T, c.code)?,
            properties: some_if(p, || PubRecProperties {
                reason_string: p_str(p, P_REASON_STRING),
                user_properties: p_users(p),
            }),
        }),
        canon::PUBREL => Packet::PubRel(PubRel {
            pkid: c.pkid,
            reason: by_code(PUBREL_T, c.code)?,
            properties: some_if(p, || PubRelProperties {
                reason_string: p_str(p, P_REASON_STRING),
                user_properties: p_users(p),
            }),
        }),
        canon::PUBCOMP => Packet::PubComp(PubComp {
            pkid: c.pkid,
            reason: by_code(PUBCOMP_T, c.code)?,
            properties: some_if(p, || PubCompProperties {
                reason_string: p_str(p, P_REASON_STRING),
                user_properties: p_users(p),
            }),
        }),
        canon::SUBSCRIBE => Packet::Subscribe(Subscribe {
            pkid: c.pkid,
            filters: c
                .filters
                .iter()
                .map(|(f, o)| {
                    Some(Filter {
                        path: f.clone(),
                        qos: qos(o & 3),
                        nolocal: o & 4 != 0,
                        preserve_retain: o & 8 != 0,
                        retain_forward_rule: match (o >> 4) & 3 {
                            0 => RetainForwardRule::OnEverySubscribe,
                            1 => RetainForwardRule::OnNewSubscribe,
                            2 => RetainForwardRule::Never,
                            _ => return None,
                        },
                    })
                })
                .collect::<Option<Vec<_>>>()?,
            properties: some_if(p, || SubscribeProperties {
                id: p_vars(p, P_SUBSCRIPTION_ID).first().copied(),
                user_properties: p_users(p),
            }),
        }),
        canon::SUBACK => Packet::SubAck(SubAck {
            pkid: c.pkid,
            return_codes: c.codes.iter().map(|n| suback_variant(*n)).collect::<Option<Vec<_>>>()?,
            properties: some_if(p, || SubAckProperties {
                reason_string: p_str(p, P_REASON_STRING),
                user_properties: p_users(p),
            }),
        }),
        canon::UNSUBSCRIBE => Packet::Unsubscribe(Unsubscribe {
            pkid: c.pkid,
            filters: c.filters.iter().map(|(f, _)| f.clone()).collect(),
            properties: some_if(p, || UnsubscribeProperties {
                user_properties: p_users(p),
            }),
        }),
        canon::UNSUBACK => Packet::UnsubAck(UnsubAck {
            pkid: c.pkid,
            reasons: c.codes.iter().map(|n| by_code(UNSUBACK_T, *n)).collect::<Option<Vec<_>>>()?,
            properties: some_if(p, || UnsubAckProperties {
                reason_string: p_str(p, P_REASON_STRING),
                user_properties: p_users(p),
            }),
        }),
        canon::PINGREQ => Packet::PingReq(PingReq),
        canon::PINGRESP => Packet::PingResp(PingResp),
        canon::DISCONNECT => Packet::Disconnect(Disconnect {
            reason_code: by_code(DISCONNECT_T, c.code)?,
            properties: some_if(p, || DisconnectProperties {
                session_expiry_interval: p_u32(p, P_SESSION_EXPIRY),
                reason_string: p_str(p, P_REASON_STRING),
                user_properties: p_users(p),
                server_reference: p_str(p, P_SERVER_REFERENCE),
            }),
        }),
        canon::AUTH => return build_auth(c),
        _ => return None,
    })
}

fn ack_props(reason: &Option<String>, users: &[(String, String)]) -> Props {
    PropsBuilder::default().str(P_REASON_STRING, reason).users(users).done()
}

/// Canonical content of a rumqttc v5 packet
pub fn canon(pk: &Packet) -> Canon {
    let mut c = Canon::empty(5, 0);
    match pk {
        Packet::Auth(a) => {
            c.ptype = canon::AUTH;
            // field types are private to the crate: read the code off the encoding-independent Debug name
            c.code = match format!("{:?}", a.code).as_str() {
                "Success" => 0x00,
                "Continue" => 0x18,
                "ReAuthentivate" => 0x19,
                _ => 255,
            };
            if a.properties.is_some() {
                c.props.push((0, PVal::Str("auth-properties".into())));
            }
        }
        Packet::Connect(k, will, login) => {
            c.ptype = canon::CONNECT;
            if let Some(p) = &k.properties {
                c.props = PropsBuilder::default()
                    .u32(P_SESSION_EXPIRY, p.session_expiry_interval)
                    .u16(P_RECEIVE_MAX, p.receive_maximum)
                    .u32(P_MAX_PACKET_SIZE, p.max_packet_size)
                    .u16(P_TOPIC_ALIAS_MAX, p.topic_alias_max)
                    .u8(P_REQUEST_RESPONSE_INFO, p.request_response_info)
                    .u8(P_REQUEST_PROBLEM_INFO, p.request_problem_info)
                    .users(&p.user_properties)
                    .str(P_AUTH_METHOD, &p.authentication_method)
                    .bin(P_AUTH_DATA, &p.authentication_data)
                    .done();
            }
            let (username, password) = match login {
                None => (None, None),
                Some(l) => (
                    (!l.username.is_empty()).then(|| l.username.clone()),
                    (!l.password.is_empty()).then(|| l.password.clone()),
                ),
            };
            c.connect = Some(CanonConnect {
                keep_alive: k.keep_alive,
                clean: k.clean_start,
                client_id: k.client_id.clone(),
                will: will.as_ref().map(|w| CanonWill {
                    topic: w.topic.to_vec(),
                    message: w.message.to_vec(),
                    qos: w.qos as u8,
                    retain: w.retain,
                    props: match &w.properties {
                        None => vec![],
                        Some(p) => PropsBuilder::default()
                            .u32(P_WILL_DELAY, p.delay_interval)
                            .u8(P_PAYLOAD_FORMAT, p.payload_format_indicator)
                            .u32(P_MESSAGE_EXPIRY, p.message_expiry_interval)
                            .str(P_CONTENT_TYPE, &p.content_type)
                            .str(P_RESPONSE_TOPIC, &p.response_topic)
                            .bin(P_CORRELATION_DATA, &p.correlation_data)
                            .users(&p.user_properties)
                            .done(),
                    },
                }),
                username,
                password,
            });
        }
        Packet::ConnAck(a) => {
            c.ptype = canon::CONNACK;
            c.session_present = a.session_present;
            c.code = code_of(CONNACK_T, a.code);
            if let Some(p) = &a.properties {
                c.props = PropsBuilder::default()
                    .u32(P_SESSION_EXPIRY, p.session_expiry_interval)
                    .u16(P_RECEIVE_MAX, p.receive_max)
                    .u8(P_MAX_QOS, p.max_qos)
                    .u8(P_RETAIN_AVAILABLE, p.retain_available)
                    .u32(P_MAX_PACKET_SIZE, p.max_packet_size)
                    .str(P_ASSIGNED_CLIENT_ID, &p.assigned_client_identifier)
                    .u16(P_TOPIC_ALIAS_MAX, p.topic_alias_max)
                    .str(P_REASON_STRING, &p.reason_string)
                    .users(&p.user_properties)
                    .u8(P_WILDCARD_SUB_AVAILABLE, p.wildcard_subscription_available)
                    .u8(P_SUB_ID_AVAILABLE, p.subscription_identifiers_available)
                    .u8(P_SHARED_SUB_AVAILABLE, p.shared_subscription_available)
                    .u16(P_SERVER_KEEP_ALIVE, p.server_keep_alive)
                    .str(P_RESPONSE_INFO, &p.response_information)
                    .str(P_SERVER_REFERENCE, &p.server_reference)
                    .str(P_AUTH_METHOD, &p.authentication_method)
                    .bin(P_AUTH_DATA, &p.authentication_data)
                    .done();
            }
        }
        Packet::Publish(x) => {
            c.ptype = canon::PUBLISH;
            c.dup = x.dup;
            c.qos = x.qos as u8;
            c.retain = x.retain;
            c.pkid = x.pkid;
            c.topic = x.topic.to_vec();
            c.payload = x.payload.to_vec();
            if let Some(p) = &x.properties {
                c.props = PropsBuilder::default()
                    .u8(P_PAYLOAD_FORMAT, p.payload_format_indicator)
                    .u32(P_MESSAGE_EXPIRY, p.message_expiry_interval)
                    .u16(P_TOPIC_ALIAS, p.topic_alias)
                    .str(P_RESPONSE_TOPIC, &p.response_topic)
                    .bin(P_CORRELATION_DATA, &p.correlation_data)
                    .users(&p.user_properties)
                    .vars(P_SUBSCRIPTION_ID, &p.subscription_identifiers)
                    .str(P_CONTENT_TYPE, &p.content_type)
                    .done();
            }
        }
        Packet::PubAck(x) => {
            c.ptype = canon::PUBACK;
            c.pkid = x.pkid;
            c.code = code_of(PUBACK_T, x.reason);
            if let Some(p) = &x.properties {
                c.props = ack_props(&p.reason_string, &p.user_properties);
            }
        }
        Packet::PubRec(x) => {
            c.ptype = canon::PUBREC;
            c.pkid = x.pkid;
            c.code = code_of(PUBREC_T, x.reason);
            if let Some(p) = &x.properties {
                c.props = ack_props(&p.reason_string, &p.user_properties);
            }
        }
        Packet::PubRel(x) => {
            c.ptype = canon::PUBREL;
            c.pkid = x.pkid;
            c.code = code_of(PUBREL_T, x.reason);
            if let Some(p) = &x.properties {
                c.props = ack_props(&p.reason_string, &p.user_properties);
            }
        }
        Packet::PubComp(x) => {
            c.ptype = canon::PUBCOMP;
            c.pkid = x.pkid;
            c.code = code_of(PUBCOMP_T, x.reason);
            if let Some(p) = &x.properties {
                c.props = ack_props(&p.reason_string, &p.user_properties);
            }
        }
        Packet::Subscribe(s) => {
            c.ptype = canon::SUBSCRIBE;
            c.pkid = s.pkid;
            c.filters = s
                .filters
                .iter()
                .map(|f| {
                    let rh = match f.retain_forward_rule {
                        RetainForwardRule::OnEverySubscribe => 0,
                        RetainForwardRule::OnNewSubscribe => 1,
                        RetainForwardRule::Never => 2,
                    };
                    (
                        f.path.clone(),
                        (f.qos as u8) | (f.nolocal as u8) << 2 | (f.preserve_retain as u8) << 3 | rh << 4,
                    )
                })
                .collect();
            if let Some(p) = &s.properties {
                let ids: Vec<usize> = p.id.iter().copied().collect();
                c.props = PropsBuilder::default().vars(P_SUBSCRIPTION_ID, &ids).users(&p.user_properties).done();
            }
        }
        Packet::SubAck(s) => {
            c.ptype = canon::SUBACK;
            c.pkid = s.pkid;
            c.codes = s.return_codes.iter().map(|r| suback_code(*r)).collect();
            if let Some(p) = &s.properties {
                c.props = ack_props(&p.reason_string, &p.user_properties);
            }
        }
        Packet::Unsubscribe(u) => {
            c.ptype = canon::UNSUBSCRIBE;
            c.pkid = u.pkid;
            c.filters = u.filters.iter().map(|f| (f.clone(), 0)).collect();
            if let Some(p) = &u.properties {
                c.props = PropsBuilder::default().users(&p.user_properties).done();
            }
        }
        Packet::UnsubAck(u) => {
            c.ptype = canon::UNSUBACK;
            c.pkid = u.pkid;
            c.codes = u.reasons.iter().map(|r| code_of(UNSUBACK_T, *r)).collect();
            if let Some(p) = &u.properties {
                c.props = ack_props(&p.reason_string, &p.user_properties);
            }
        }
        Packet::PingReq(_) => c.ptype = canon::PINGREQ,
        Packet::PingResp(_) => c.ptype = canon::PINGRESP,
        Packet::Disconnect(d) => {
            c.ptype = canon::DISCONNECT;
            c.code = code_of(DISCONNECT_T, d.reason_code);
            if let Some(p) = &d.properties {
                c.props = PropsBuilder::default()
                    .u32(P_SESSION_EXPIRY, p.session_expiry_interval)
                    .str(P_REASON_STRING, &p.reason_string)
                    .users(&p.user_properties)
                    .str(P_SERVER_REFERENCE, &p.server_reference)
                    .done();
            }
        }
    }
    c
}

/// random well-formed packet of the given type
pub fn random(rng: &mut Rng, ptype: u8, dir: Dir, sz: &Sizes) -> Packet {
    build(&canon::random(rng, 5, ptype, dir, sz)).expect("v5 canon is expressible")
}
