//! Helpers for rumqttd packet values. `protocol::Publish.{dup,qos,pkid}` are crate-private
//! but `Publish::serialize` / `Publish::deserialize` are public and carry all of them, so
//! no hook is needed to build or inspect arbitrary publishes.
use bytes::{BufMut, Bytes, BytesMut};
use rumqttd::protocol::{Publish, QoS};

pub fn qos(n: u8) -> QoS {
    match n {
        0 => QoS::AtMostOnce,
        1 => QoS::AtLeastOnce,
        _ => QoS::ExactlyOnce,
    }
}

pub fn mk_publish(dup: bool, qos: u8, pkid: u16, retain: bool, topic: &[u8], payload: &[u8]) -> Publish {
    let mut o = BytesMut::with_capacity(5 + topic.len() + payload.len());
    o.put_u8(0b0011_0000 | (retain as u8) | (qos << 1) | ((dup as u8) << 3));
    o.put_u16(pkid);
    o.put_u16(topic.len() as u16);
    o.extend_from_slice(topic);
    o.extend_from_slice(payload);
    Publish::deserialize(o.freeze())
}

#[derive(Clone, Debug, PartialEq, Eq)]
pub struct PubParts {
    pub dup: bool,
    pub qos: u8,
    pub pkid: u16,
    pub retain: bool,
    pub topic: Bytes,
    pub payload: Bytes,
}

pub fn parts(p: &Publish) -> PubParts {
    let s = p.serialize();
    let header = s[0];
    PubParts {
        dup: header & 0b1000 != 0,
        qos: (header & 0b0110) >> 1,
        pkid: u16::from_be_bytes([s[1], s[2]]),
        retain: p.retain,
        topic: p.topic.clone(),
        payload: p.payload.clone(),
    }
}
