//! rumqttd packet values (`rumqttd::protocol::Packet`, shared by the `V4` and `V5` codecs):
//! `build` (canon -> packet), `canon` (packet -> canon, for a given protocol version),
//! `random` (well-formed packet).
//!
//! The broker uses one packet type for both protocol versions; a value is a well-formed
//! *3.1.1* value only if every properties slot is `None`, reasons are `Success`, SUBACK codes
//! are `Success(q)`/`Failure`, UNSUBACK has no reasons and the CONNACK code is one of the six
//! 3.1.1 codes. For MQTT 5 the canonical SUBACK variants are the ones the decoder yields
//! (`QoS0/1/2`, `Unspecified`, ...); `Success(q)`/`Failure` are second names for the same
//! wire codes and are not generated for version 5.
use super::canon::{self, *};
use super::dpkt;
use crate::common::Rng;
use bytes::Bytes;
use rumqttd::protocol::*;

/// CONNACK codes by version: (variant, 3.1.1 number, MQTT 5 number)
const CONNACK_T: &[(ConnectReturnCode, Option<u8>, Option<u8>)] = &[
    (ConnectReturnCode::Success, Some(0), Some(0)),
    (ConnectReturnCode::RefusedProtocolVersion, Some(1), None),
    (ConnectReturnCode::ClientIdentifierNotValid, Some(2), Some(133)),
    (ConnectReturnCode::ServiceUnavailable, Some(3), None),
    (ConnectReturnCode::BadUserNamePassword, Some(4), Some(134)),
    (ConnectReturnCode::NotAuthorized, Some(5), Some(135)),
    (ConnectReturnCode::UnspecifiedError, None, Some(128)),
    (ConnectReturnCode::MalformedPacket, None, Some(129)),
    (ConnectReturnCode::ProtocolError, None, Some(130)),
    (ConnectReturnCode::ImplementationSpecificError, None, Some(131)),
    (ConnectReturnCode::UnsupportedProtocolVersion, None, Some(132)),
    (ConnectReturnCode::ServerUnavailable, None, Some(136)),
    (ConnectReturnCode::ServerBusy, None, Some(137)),
    (ConnectReturnCode::Banned, None, Some(138)),
    (ConnectReturnCode::BadAuthenticationMethod, None, Some(140)),
    (ConnectReturnCode::TopicNameInvalid, None, Some(144)),
    (ConnectReturnCode::PacketTooLarge, None, Some(149)),
    (ConnectReturnCode::QuotaExceeded, None, Some(151)),
    (ConnectReturnCode::PayloadFormatInvalid, None, Some(153)),
    (ConnectReturnCode::RetainNotSupported, None, Some(154)),
    (ConnectReturnCode::QoSNotSupported, None, Some(155)),
    (ConnectReturnCode::UseAnotherServer, None, Some(156)),
    (ConnectReturnCode::ServerMoved, None, Some(157)),
    (ConnectReturnCode::ConnectionRateExceeded, None, Some(159)),
];

const PUBACK_T: &[(PubAckReason, u8)] = &[
    (PubAckReason::Success, 0),
    (PubAckReason::NoMatchingSubscribers, 16),
    (PubAckReason::UnspecifiedError, 128),
    (PubAckReason::ImplementationSpecificError, 131),
    (PubAckReason::NotAuthorized, 135),
    (PubAckReason::TopicNameInvalid, 144),
    (PubAckReason::PacketIdentifierInUse, 145),
    (PubAckReason::QuotaExceeded, 151),
    (PubAckReason::PayloadFormatInvalid, 153),
];
const PUBREC_T: &[(PubRecReason, u8)] = &[
    (PubRecReason::Success, 0),
    (PubRecReason::NoMatchingSubscribers, 16),
    (PubRecReason::UnspecifiedError, 128),
    (PubRecReason::ImplementationSpecificError, 131),
    (PubRecReason::NotAuthorized, 135),
    (PubRecReason::TopicNameInvalid, 144),
    (PubRecReason::PacketIdentifierInUse, 145),
    (PubRecReason::QuotaExceeded, 151),
    (PubRecReason::PayloadFormatInvalid, 153),
];
const PUBREL_T: &[(PubRelReason, u8)] = &[(PubRelReason::Success, 0), (PubRelReason::PacketIdentifierNotFound, 146)];
const PUBCOMP_T: &[(PubCompReason, u8)] = &[(PubCompReason::Success, 0), (PubCompReason::PacketIdentifierNotFound, 146)];
const UNSUBACK_T: &[(UnsubAckReason, u8)] = &[
    (UnsubAckReason::Success, 0x00),
    (UnsubAckReason::NoSubscriptionExisted, 0x11),
    (UnsubAckReason::UnspecifiedError, 0x80),
    (UnsubAckReason::ImplementationSpecificError, 0x83),
    (UnsubAckReason::NotAuthorized, 0x87),
    (UnsubAckReason::TopicFilterInvalid, 0x8F),
    (UnsubAckReason::PacketIdentifierInUse, 0x91),
];
const DISCONNECT_T: &[(DisconnectReasonCode, u8)] = &[
    (DisconnectReasonCode::NormalDisconnection, 0x00),
    (DisconnectReasonCode::DisconnectWithWillMessage, 0x04),
    (DisconnectReasonCode::UnspecifiedError, 0x80),
    (DisconnectReasonCode::MalformedPacket, 0x81),
    (DisconnectReasonCode::ProtocolError, 0x82),
    (DisconnectReasonCode::ImplementationSpecificError, 0x83),
    (DisconnectReasonCode::NotAuthorized, 0x87),
    (DisconnectReasonCode::ServerBusy, 0x89),
    (DisconnectReasonCode::ServerShuttingDown, 0x8B),
    (DisconnectReasonCode::KeepAliveTimeout, 0x8D),
    (DisconnectReasonCode::SessionTakenOver, 0x8E),
    (DisconnectReasonCode::TopicFilterInvalid, 0x8F),
    (DisconnectReasonCode::TopicNameInvalid, 0x90),
    (DisconnectReasonCode::ReceiveMaximumExceeded, 0x93),
    (DisconnectReasonCode::TopicAliasInvalid, 0x94),
    (DisconnectReasonCode::PacketTooLarge, 0x95),
    (DisconnectReasonCode::MessageRateTooHigh, 0x96),
    (DisconnectReasonCode::QuotaExceeded, 0x97),
    (DisconnectReasonCode::AdministrativeAction, 0x98),
    (DisconnectReasonCode::PayloadFormatInvalid, 0x99),
    (DisconnectReasonCode::RetainNotSupported, 0x9A),
    (DisconnectReasonCode::QoSNotSupported, 0x9B),
    (DisconnectReasonCode::UseAnotherServer, 0x9C),
    (DisconnectReasonCode::ServerMoved, 0x9D),
    (DisconnectReasonCode::SharedSubscriptionNotSupported, 0x9E),
    (DisconnectReasonCode::ConnectionRateExceeded, 0x9F),
    (DisconnectReasonCode::MaximumConnectTime, 0xA0),
    (DisconnectReasonCode::SubscriptionIdentifiersNotSupported, 0xA1),
    (DisconnectReasonCode::WildcardSubscriptionsNotSupported, 0xA2),
];

fn suback_code(c: SubscribeReasonCode) -> u8 {
    match c {
        SubscribeReasonCode::Success(q) => q as u8,
        SubscribeReasonCode::QoS0 => 0,
        SubscribeReasonCode::QoS1 => 1,
        SubscribeReasonCode::QoS2 => 2,
        SubscribeReasonCode::Failure => 128,
        SubscribeReasonCode::Unspecified => 128,
        SubscribeReasonCode::ImplementationSpecific => 131,
        SubscribeReasonCode::NotAuthorized => 135,
        SubscribeReasonCode::TopicFilterInvalid => 143,
        SubscribeReasonCode::PkidInUse => 145,
        SubscribeReasonCode::QuotaExceeded => 151,
        SubscribeReasonCode::SharedSubscriptionsNotSupported => 158,
        SubscribeReasonCode::SubscriptionIdNotSupported => 161,
        SubscribeReasonCode::WildcardSubscriptionsNotSupported => 162,
    }
}

fn suback_variant(version: u8, n: u8) -> Option<SubscribeReasonCode> {
    if version == 4 {
        return Some(match n {
            0..=2 => SubscribeReasonCode::Success(dpkt::qos(n)),
            128 => SubscribeReasonCode::Failure,
            _ => return None,
        });
    }
    Some(match n {
        0 => SubscribeReasonCode::QoS0,
        1 => SubscribeReasonCode::QoS1,
        2 => SubscribeReasonCode::QoS2,
        128 => SubscribeReasonCode::Unspecified,
        131 => SubscribeReasonCode::ImplementationSpecific,
        135 => SubscribeReasonCode::NotAuthorized,
        143 => SubscribeReasonCode::TopicFilterInvalid,
        145 => SubscribeReasonCode::PkidInUse,
        151 => SubscribeReasonCode::QuotaExceeded,
        158 => SubscribeReasonCode::SharedSubscriptionsNotSupported,
        161 => SubscribeReasonCode::SubscriptionIdNotSupported,
        162 => SubscribeReasonCode::WildcardSubscriptionsNotSupported,
        _ => return None,
    })
}

fn by_code<T: Copy>(t: &[(T, u8)], n: u8) -> Option<T> {
    t.iter().find(|(_, c)| *c == n).map(|x| x.0)
}
fn code_of<T: Copy + PartialEq>(t: &[(T, u8)], v: T) -> u8 {
    t.iter().find(|(x, _)| *x == v).map(|x| x.1).unwrap_or(255)
}
fn some_if<T>(p: &Props, f: impl FnOnce() -> T) -> Option<T> {
    if p.is_empty() {
        None
    } else {
        Some(f())
    }
}

/// Build the rumqttd value for a canon of either version
pub fn build(c: &Canon) -> Option<Packet> {
    let v = c.version;
    if v != 4 && v != 5 {
        return None;
    }
    if v == 4 && !c.props.is_empty() {
        return None;
    }
    let p = &c.props;
    Some(match c.ptype {
        canon::CONNECT => {
            let k = c.connect.as_ref()?;
            let login = match (&k.username, &k.password) {
                (None, None) => None,
                (u, pw) => Some(Login {
                    username: u.clone().unwrap_or_default(),
                    password: pw.clone().unwrap_or_default(),
                }),
            };
            let will = k.will.as_ref().map(|w| LastWill {
                topic: Bytes::from(w.topic.clone()),
                message: Bytes::from(w.message.clone()),
                qos: dpkt::qos(w.qos),
                retain: w.retain,
            });
            let will_props = k.will.as_ref().and_then(|w| {
                some_if(&w.props, || LastWillProperties {
                    delay_interval: p_u32(&w.props, P_WILL_DELAY),
                    payload_format_indicator: p_u8(&w.props, P_PAYLOAD_FORMAT),
                    message_expiry_interval: p_u32(&w.props, P_MESSAGE_EXPIRY),
                    content_type: p_str(&w.props, P_CONTENT_TYPE),
                    response_topic: p_str(&w.props, P_RESPONSE_TOPIC),
                    correlation_data: p_bin(&w.props, P_CORRELATION_DATA),
                    user_properties: p_users(&w.props),
                })
            });
            if v == 4 && will_props.is_some() {
                return None;
            }
            Packet::Connect(
                Connect {
                    keep_alive: k.keep_alive,
                    client_id: k.client_id.clone(),
                    clean_session: k.clean,
                },
                some_if(p, || ConnectProperties {
                    session_expiry_interval: p_u32(p, P_SESSION_EXPIRY),
                    receive_maximum: p_u16(p, P_RECEIVE_MAX),
                    max_packet_size: p_u32(p, P_MAX_PACKET_SIZE),
                    topic_alias_max: p_u16(p, P_TOPIC_ALIAS_MAX),
                    request_response_info: p_u8(p, P_REQUEST_RESPONSE_INFO),
                    request_problem_info: p_u8(p, P_REQUEST_PROBLEM_INFO),
                    user_properties: p_users(p),
                    authentication_method: p_str(p, P_AUTH_METHOD),
                    authentication_data: p_bin(p, P_AUTH_DATA),
                }),
                will,
                will_props,
                login,
            )
        }
        canon::CONNACK => {
            let code = CONNACK_T
                .iter()
                .find(|(_, c4, c5)| if v == 4 { *c4 == Some(c.code) } else { *c5 == Some(c.code) })?
                .0;
            Packet::ConnAck(
                ConnAck {
                    session_present: c.session_present,
                    code,
                },
                some_if(p, || ConnAckProperties {
                    session_expiry_interval: p_u32(p, P_SESSION_EXPIRY),
                    receive_max: p_u16(p, P_RECEIVE_MAX),
                    max_qos: p_u8(p, P_MAX_QOS),
                    retain_available: p_u8(p, P_RETAIN_AVAILABLE),
                    max_packet_size: p_u32(p, P_MAX_PACKET_SIZE),
                    assigned_client_identifier: p_str(p, P_ASSIGNED_CLIENT_ID),
                    topic_alias_max: p_u16(p, P_TOPIC_ALIAS_MAX),
                    reason_string: p_str(p, P_REASON_STRING),
                    user_properties: p_users(p),
                    wildcard_subscription_available: p_u8(p, P_WILDCARD_SUB_AVAILABLE),
                    subscription_identifiers_available: p_u8(p, P_SUB_ID_AVAILABLE),
                    shared_subscription_available: p_u8(p, P_SHARED_SUB_AVAILABLE),
                    server_keep_alive: p_u16(p, P_SERVER_KEEP_ALIVE),
                    response_information: p_str(p, P_RESPONSE_INFO),
                    server_reference: p_str(p, P_SERVER_REFERENCE),
                    authentication_method: p_str(p, P_AUTH_METHOD),
                    authentication_data: p_bin(p, P_AUTH_DATA),
                }),
            )
        }
        canon::PUBLISH => Packet::Publish(
            dpkt::mk_publish(c.dup, c.qos, c.pkid, c.retain, &c.topic, &c.payload),
            some_if(p, || PublishProperties {
                payload_format_indicator: p_u8(p, P_PAYLOAD_FORMAT),
                message_expiry_interval: p_u32(p, P_MESSAGE_EXPIRY),
                topic_alias: p_u16(p, P_TOPIC_ALIAS),
                response_topic: p_str(p, P_RESPONSE_TOPIC),
                correlation_data: p_bin(p, P_CORRELATION_DATA),
                user_properties: p_users(p),
                subscription_identifiers: p_vars(p, P_SUBSCRIPTION_ID),
                content_type: p_str(p, P_CONTENT_TYPE),
            }),
        ),
        canon::PUBACK => Packet::PubAck(
            PubAck {
                pkid: c.pkid,
                reason: by_code(PUBACK_T, c.code)?,
            },
            some_if(p, || PubAckProperties {
                reason_string: p_str(p, P_REASON_STRING),
                user_properties: p_users(p),
            }),
        ),
        canon::PUBREC => Packet::PubRec(
            PubRec {
                pkid: c.pkid,
                reason: by_code(PUBREC_T, c.code)?,
            },
            some_if(p, || PubRecProperties {
                reason_string: p_str(p, P_REASON_STRING),
                user_properties: p_users(p),
            }),
        ),
        canon::PUBREL => Packet::PubRel(
            PubRel {
                pkid: c.pkid,
                reason: by_code(PUBREL_T, c.code)?,
            },
            some_if(p, || PubRelProperties {
                reason_string: p_str(p, P_REASON_STRING),
                user_properties: p_users(p),
            }),
        ),
        canon::PUBCOMP => Packet::PubComp(
            PubComp {
                pkid: c.pkid,
                reason: by_code(PUBCOMP_T, c.code)?,
            },
            some_if(p, || PubCompProperties {
                reason_string: p_str(p, P_REASON_STRING),
                user_properties: p_users(p),
            }),
        ),
        canon::SUBSCRIBE => Packet::Subscribe(
            Subscribe {
                pkid: c.pkid,
                filters: c
                    .filters
                    .iter()
                    .map(|(f, o)| {
                        Some(Filter {
                            path: f.clone(),
                            qos: dpkt::qos(o & 3),
                            nolocal: o & 4 != 0,
                            preserve_retain: o & 8 != 0,
                            retain_forward_rule: match (o >> 4) & 3 {
                                0 => RetainForwardRule::OnEverySubscribe,
                                1 => RetainForwardRule::OnNewSubscribe,
                                2 => RetainForwardRule::Never,
                                _ => return None,
                            },
                        })
                    })
                    .collect::<Option<Vec<_>>>()?,
            },
            some_if(p, || SubscribeProperties {
                id: p_vars(p, P_SUBSCRIPTION_ID).first().copied(),
                user_properties: p_users(p),
            }),
        ),
        canon::SUBACK => Packet::SubAck(
            SubAck {
                pkid: c.pkid,
                return_codes: c.codes.iter().map(|n| suback_variant(v, *n)).collect::<Option<Vec<_>>>()?,
            },
            some_if(p, || SubAckProperties {
                reason_string: p_str(p, P_REASON_STRING),
                user_properties: p_users(p),
            }),
        ),
        canon::UNSUBSCRIBE => Packet::Unsubscribe(
            Unsubscribe {
                pkid: c.pkid,
                filters: c.filters.iter().map(|(f, _)| f.clone()).collect(),
            },
            some_if(p, || UnsubscribeProperties {
                user_properties: p_users(p),
            }),
        ),
        canon::UNSUBACK => Packet::UnsubAck(
            UnsubAck {
                pkid: c.pkid,
                reasons: c.codes.iter().map(|n| by_code(UNSUBACK_T, *n)).collect::<Option<Vec<_>>>()?,
            },
            some_if(p, || UnsubAckProperties {
                reason_string: p_str(p, P_REASON_STRING),
                user_properties: p_users(p),
            }),
        ),
        canon::PINGREQ => Packet::PingReq(PingReq),
        canon::PINGRESP => Packet::PingResp(PingResp),
        canon::DISCONNECT => Packet::Disconnect(
            Disconnect {
                reason_code: by_code(DISCONNECT_T, c.code)?,
            },
            some_if(p, || DisconnectProperties {
                session_expiry_interval: p_u32(p, P_SESSION_EXPIRY),
                reason_string: p_str(p, P_REASON_STRING),
                user_properties: p_users(p),
                server_reference: p_str(p, P_SERVER_REFERENCE),
            }),
        ),
        _ => return None,
    })
}

fn ack_props(reason: &Option<String>, users: &[(String, String)]) -> Props {
    PropsBuilder::default().str(P_REASON_STRING, reason).users(users).done()
}

/// Canonical content of a rumqttd packet read or written with protocol `version`
pub fn canon(pk: &Packet, version: u8) -> Canon {
    let mut c = Canon::empty(version, 0);
    match pk {
        Packet::Connect(k, props, will, will_props, login) => {
            c.ptype = canon::CONNECT;
            if let Some(p) = props {
                c.props = PropsBuilder::default()
                    .u32(P_SESSION_EXPIRY, p.session_expiry_interval)
                    .u16(P_RECEIVE_MAX, p.receive_maximum)
                    .u32(P_MAX_PACKET_SIZE, p.max_packet_size)
                    .u16(P_TOPIC_ALIAS_MAX, p.topic_alias_max)
                    .u8(P_REQUEST_RESPONSE_INFO, p.request_response_info)
                    .u8(P_REQUEST_PROBLEM_INFO, p.request_problem_info)
                    .users(&p.user_properties)
                    .str(P_AUTH_METHOD, &p.authentication_method)
                    .bin(P_AUTH_DATA, &p.authentication_data)
                    .done();
            }
            let (username, password) = match login {
                None => (None, None),
                Some(l) => (
                    (!l.username.is_empty()).then(|| l.username.clone()),
                    (!l.password.is_empty()).then(|| l.password.clone()),
                ),
            };
            c.connect = Some(CanonConnect {
                keep_alive: k.keep_alive,
                clean: k.clean_session,
                client_id: k.client_id.clone(),
                will: will.as_ref().map(|w| CanonWill {
                    topic: w.topic.to_vec(),
                    message: w.message.to_vec(),
                    qos: w.qos as u8,
                    retain: w.retain,
                    props: match will_props {
                        None => vec![],
                        Some(p) => PropsBuilder::default()
                            .u32(P_WILL_DELAY, p.delay_interval)
                            .u8(P_PAYLOAD_FORMAT, p.payload_format_indicator)
                            .u32(P_MESSAGE_EXPIRY, p.message_expiry_interval)
                            .str(P_CONTENT_TYPE, &p.content_type)
                            .str(P_RESPONSE_TOPIC, &p.response_topic)
                            .bin(P_CORRELATION_DATA, &p.correlation_data)
                            .users(&p.user_properties)
                            .done(),
                    },
                }),
                username,
                password,
            });
        }
        Packet::ConnAck(a, props) => {
            c.ptype = canon::CONNACK;
            c.session_present = a.session_present;
            c.code = CONNACK_T
                .iter()
                .find(|(x, _, _)| *x == a.code)
                .and_then(|(_, c4, c5)| if version == 4 { *c4 } else { *c5 })
                .unwrap_or(255);
            if let Some(p) = props {
                c.props = PropsBuilder::default()
                    .u32(P_SESSION_EXPIRY, p.session_expiry_interval)
                    .u16(P_RECEIVE_MAX, p.receive_max)
                    .u8(P_MAX_QOS, p.max_qos)
                    .u8(P_RETAIN_AVAILABLE, p.retain_available)
                    .u32(P_MAX_PACKET_SIZE, p.max_packet_size)
                    .str(P_ASSIGNED_CLIENT_ID, &p.assigned_client_identifier)
                    .u16(P_TOPIC_ALIAS_MAX, p.topic_alias_max)
                    .str(P_REASON_STRING, &p.reason_string)
                    .users(&p.user_properties)
                    .u8(P_WILDCARD_SUB_AVAILABLE, p.wildcard_subscription_available)
                    .u8(P_SUB_ID_AVAILABLE, p.subscription_identifiers_available)
                    .u8(P_SHARED_SUB_AVAILABLE, p.shared_subscription_available)
                    .u16(P_SERVER_KEEP_ALIVE, p.server_keep_alive)
                    .str(P_RESPONSE_INFO, &p.response_information)
                    .str(P_SERVER_REFERENCE, &p.server_reference)
                    .str(P_AUTH_METHOD, &p.authentication_method)
                    .bin(P_AUTH_DATA, &p.authentication_data)
                    .done();
            }
        }
        Packet::Publish(x, props) => {
            c.ptype = canon::PUBLISH;
            let parts = dpkt::parts(x);
            c.dup = parts.dup;
            c.qos = parts.qos;
            c.retain = parts.retain;
            c.pkid = parts.pkid;
            c.topic = parts.topic.to_vec();
            c.payload = parts.payload.to_vec();
            if let Some(p) = props {
                c.props = PropsBuilder::default()
                    .u8(P_PAYLOAD_FORMAT, p.payload_format_indicator)
                    .u32(P_MESSAGE_EXPIRY, p.message_expiry_interval)
                    .u16(P_TOPIC_ALIAS, p.topic_alias)
                    .str(P_RESPONSE_TOPIC, &p.response_topic)
                    .bin(P_CORRELATION_DATA, &p.correlation_data)
                    .users(&p.user_properties)
                    .vars(P_SUBSCRIPTION_ID, &p.subscription_identifiers)
                    .str(P_CONTENT_TYPE, &p.content_type)
                    .done();
            }
        }
        Packet::PubAck(x, props) => {
            c.ptype = canon::PUBACK;
            c.pkid = x.pkid;
            c.code = code_of(PUBACK_T, x.reason);
            if let Some(p) = props {
                c.props = ack_props(&p.reason_string, &p.user_properties);
            }
        }
        Packet::PubRec(x, props) => {
            c.ptype = canon::PUBREC;
            c.pkid = x.pkid;
            c.code = code_of(PUBREC_T, x.reason);
            if let Some(p) = props {
                c.props = ack_props(&p.reason_string, &p.user_properties);
            }
        }
        Packet::PubRel(x, props) => {
            c.ptype = canon::PUBREL;
            c.pkid = x.pkid;
            c.code = code_of(PUBREL_T, x.reason);
            if let Some(p) = props {
                c.props = ack_props(&p.reason_string, &p.user_properties);
            }
        }
        Packet::PubComp(x, props) => {
            c.ptype = canon::PUBCOMP;
            c.pkid = x.pkid;
            c.code = code_of(PUBCOMP_T, x.reason);
            if let Some(p) = props {
                c.props = ack_props(&p.reason_string, &p.user_properties);
            }
        }
        Packet::Subscribe(s, props) => {
            c.ptype = canon::SUBSCRIBE;
            c.pkid = s.pkid;
            c.filters = s
                .filters
                .iter()
                .map(|f| {
                    let rh = match f.retain_forward_rule {
                        RetainForwardRule::OnEverySubscribe => 0,
                        RetainForwardRule::OnNewSubscribe => 1,
                        RetainForwardRule::Never => 2,
                    };
                    (
                        f.path.clone(),
                        (f.qos as u8) | (f.nolocal as u8) << 2 | (f.preserve_retain as u8) << 3 | rh << 4,
                    )
                })
                .collect();
            if let Some(p) = props {
                let ids: Vec<usize> = p.id.iter().copied().collect();
                c.props = PropsBuilder::default().vars(P_SUBSCRIPTION_ID, &ids).users(&p.user_properties).done();
            }
        }
        Packet::SubAck(s, props) => {
            c.ptype = canon::SUBACK;
            c.pkid = s.pkid;
            c.codes = s.return_codes.iter().map(|r| suback_code(*r)).collect();
            if let Some(p) = props {
                c.props = ack_props(&p.reason_string, &p.user_properties);
            }
        }
        Packet::Unsubscribe(u, props) => {
            c.ptype = canon::UNSUBSCRIBE;
            c.pkid = u.pkid;
            c.filters = u.filters.iter().map(|f| (f.clone(), 0)).collect();
            if let Some(p) = props {
                c.props = PropsBuilder::default().users(&p.user_properties).done();
            }
        }
        Packet::UnsubAck(u, props) => {
            c.ptype = canon::UNSUBACK;
            c.pkid = u.pkid;
            c.codes = u.reasons.iter().map(|r| code_of(UNSUBACK_T, *r)).collect();
            if let Some(p) = props {
                c.props = ack_props(&p.reason_string, &p.user_properties);
            }
        }
        Packet::PingReq(_) => c.ptype = canon::PINGREQ,
        Packet::PingResp(_) => c.ptype = canon::PINGRESP,
        Packet::Disconnect(d, props) => {
            c.ptype = canon::DISCONNECT;
            c.code = code_of(DISCONNECT_T, d.reason_code);
            if let Some(p) = props {
                c.props = PropsBuilder::default()
                    .u32(P_SESSION_EXPIRY, p.session_expiry_interval)
                    .str(P_REASON_STRING, &p.reason_string)
                    .users(&p.user_properties)
                    .str(P_SERVER_REFERENCE, &p.server_reference)
                    .done();
            }
        }
    }
    c
}

/// random well-formed packet of the given type for protocol `version`
pub fn random(rng: &mut Rng, version: u8, ptype: u8, dir: Dir, sz: &Sizes) -> Packet {
    build(&canon::random(rng, version, ptype, dir, sz)).expect("canon is expressible")
}
