//! Protocol-neutral projection of an MQTT control packet (`Canon`) plus a generator of
//! random *well-formed* packet values and a small reference encoder written from the MQTT
//! 3.1.1 / 5.0 specifications (not from the code under test).
//!
//! All four packet representations of the repository (rumqttc v4, rumqttc v5, rumqttd with
//! `V4`, rumqttd with `V5`) map into `Canon` (`cpkt4::canon`, `cpkt5::canon`,
//! `dpkts::canon`) and can be built from one (`cpkt4::build`, ...), so equality of packet
//! *content* across crates is decidable: two packets carry the same content iff their
//! `Canon`s are equal.
//!
//! Reason / return codes are stored as the number the specification assigns to the variant
//! *name* (tables in the per-representation modules), never as whatever a codec wrote.
use crate::common::Rng;
use serde::{Deserialize, Serialize};

// ------------------------------------------------------------------ packet types

pub const CONNECT: u8 = 1;
pub const CONNACK: u8 = 2;
pub const PUBLISH: u8 = 3;
pub const PUBACK: u8 = 4;
pub const PUBREC: u8 = 5;
pub const PUBREL: u8 = 6;
pub const PUBCOMP: u8 = 7;
pub const SUBSCRIBE: u8 = 8;
pub const SUBACK: u8 = 9;
pub const UNSUBSCRIBE: u8 = 10;
pub const UNSUBACK: u8 = 11;
pub const PINGREQ: u8 = 12;
pub const PINGRESP: u8 = 13;
pub const DISCONNECT: u8 = 14;
pub const AUTH: u8 = 15;

pub fn ptype_name(t: u8) -> &'static str {
    match t {
        1 => "Connect",
        2 => "ConnAck",
        3 => "Publish",
        4 => "PubAck",
        5 => "PubRec",
        6 => "PubRel",
        7 => "PubComp",
        8 => "Subscribe",
        9 => "SubAck",
        10 => "Unsubscribe",
        11 => "UnsubAck",
        12 => "PingReq",
        13 => "PingResp",
        14 => "Disconnect",
        15 => "Auth",
        _ => "Reserved",
    }
}

/// Direction of travel of a packet value
#[derive(Clone, Copy, Debug, PartialEq, Eq, Serialize, Deserialize)]
pub enum Dir {
    /// client -> server
    C2S,
    /// server -> client
    S2C,
}

/// May a packet of this type travel client -> server?
pub fn is_c2s(ptype: u8, _version: u8) -> bool {
    matches!(
        ptype,
        CONNECT | PUBLISH | PUBACK | PUBREC | PUBREL | PUBCOMP | SUBSCRIBE | UNSUBSCRIBE | PINGREQ | DISCONNECT
    )
}

/// May a packet of this type travel server -> client? (a 3.1.1 server never sends DISCONNECT)
pub fn is_s2c(ptype: u8, version: u8) -> bool {
    match ptype {
        CONNACK | PUBLISH | PUBACK | PUBREC | PUBREL | PUBCOMP | SUBACK | UNSUBACK | PINGRESP => true,
        DISCONNECT => version == 5,
        _ => false,
    }
}

// ------------------------------------------------------------------ properties

pub const P_PAYLOAD_FORMAT: u8 = 1;
pub const P_MESSAGE_EXPIRY: u8 = 2;
pub const P_CONTENT_TYPE: u8 = 3;
pub const P_RESPONSE_TOPIC: u8 = 8;
pub const P_CORRELATION_DATA: u8 = 9;
pub const P_SUBSCRIPTION_ID: u8 = 11;
pub const P_SESSION_EXPIRY: u8 = 17;
pub const P_ASSIGNED_CLIENT_ID: u8 = 18;
pub const P_SERVER_KEEP_ALIVE: u8 = 19;
pub const P_AUTH_METHOD: u8 = 21;
pub const P_AUTH_DATA: u8 = 22;
pub const P_REQUEST_PROBLEM_INFO: u8 = 23;
pub const P_WILL_DELAY: u8 = 24;
pub const P_REQUEST_RESPONSE_INFO: u8 = 25;
pub const P_RESPONSE_INFO: u8 = 26;
pub const P_SERVER_REFERENCE: u8 = 28;
pub const P_REASON_STRING: u8 = 31;
pub const P_RECEIVE_MAX: u8 = 33;
pub const P_TOPIC_ALIAS_MAX: u8 = 34;
pub const P_TOPIC_ALIAS: u8 = 35;
pub const P_MAX_QOS: u8 = 36;
pub const P_RETAIN_AVAILABLE: u8 = 37;
pub const P_USER: u8 = 38;
pub const P_MAX_PACKET_SIZE: u8 = 39;
pub const P_WILDCARD_SUB_AVAILABLE: u8 = 40;
pub const P_SUB_ID_AVAILABLE: u8 = 41;
pub const P_SHARED_SUB_AVAILABLE: u8 = 42;

#[derive(Clone, Debug, PartialEq, Eq, Serialize, Deserialize)]
pub enum PVal {
    U8(u8),
    U16(u16),
    U32(u32),
    /// variable byte integer
    Var(u32),
    Str(String),
    Bin(Vec<u8>),
    Pair(String, String),
}

/// Properties as (identifier, value), sorted by identifier; repeated identifiers (user
/// properties, subscription identifiers) keep their relative order.
pub type Props = Vec<(u8, PVal)>;

pub fn sort_props(p: &mut Props) {
    p.sort_by_key(|(id, _)| *id); // stable
}

pub fn p_u8(p: &Props, id: u8) -> Option<u8> {
    p.iter().find_map(|(i, v)| match v {
        PVal::U8(x) if *i == id => Some(*x),
        _ => None,
    })
}
pub fn p_u16(p: &Props, id: u8) -> Option<u16> {
    p.iter().find_map(|(i, v)| match v {
        PVal::U16(x) if *i == id => Some(*x),
        _ => None,
    })
}
pub fn p_u32(p: &Props, id: u8) -> Option<u32> {
    p.iter().find_map(|(i, v)| match v {
        PVal::U32(x) if *i == id => Some(*x),
        _ => None,
    })
}
pub fn p_str(p: &Props, id: u8) -> Option<String> {
    p.iter().find_map(|(i, v)| match v {
        PVal::Str(x) if *i == id => Some(x.clone()),
        _ => None,
    })
}
pub fn p_bin(p: &Props, id: u8) -> Option<bytes::Bytes> {
    p.iter().find_map(|(i, v)| match v {
        PVal::Bin(x) if *i == id => Some(bytes::Bytes::from(x.clone())),
        _ => None,
    })
}
pub fn p_vars(p: &Props, id: u8) -> Vec<usize> {
    p.iter()
        .filter_map(|(i, v)| match v {
            PVal::Var(x) if *i == id => Some(*x as usize),
            _ => None,
        })
        .collect()
}
pub fn p_users(p: &Props) -> Vec<(String, String)> {
    p.iter()
        .filter_map(|(i, v)| match v {
            PVal::Pair(k, x) if *i == P_USER => Some((k.clone(), x.clone())),
            _ => None,
        })
        .collect()
}

/// Collects the properties of one packet representation into canonical form
#[derive(Default)]
pub struct PropsBuilder(pub Props);

impl PropsBuilder {
    pub fn u8(&mut self, id: u8, v: Option<u8>) -> &mut Self {
        if let Some(v) = v {
            self.0.push((id, PVal::U8(v)));
        }
        self
    }
    pub fn u16(&mut self, id: u8, v: Option<u16>) -> &mut Self {
        if let Some(v) = v {
            self.0.push((id, PVal::U16(v)));
        }
        self
    }
    pub fn u32(&mut self, id: u8, v: Option<u32>) -> &mut Self {
        if let Some(v) = v {
            self.0.push((id, PVal::U32(v)));
        }
        self
    }
    pub fn str(&mut self, id: u8, v: &Option<String>) -> &mut Self {
        if let Some(v) = v {
            self.0.push((id, PVal::Str(v.clone())));
        }
        self
    }
    pub fn bin(&mut self, id: u8, v: &Option<bytes::Bytes>) -> &mut Self {
        if let Some(v) = v {
            self.0.push((id, PVal::Bin(v.to_vec())));
        }
        self
    }
    pub fn vars(&mut self, id: u8, v: &[usize]) -> &mut Self {
        for x in v {
            self.0.push((id, PVal::Var(*x as u32)));
        }
        self
    }
    pub fn users(&mut self, v: &[(String, String)]) -> &mut Self {
        for (k, x) in v {
            self.0.push((P_USER, PVal::Pair(k.clone(), x.clone())));
        }
        self
    }
    pub fn done(&mut self) -> Props {
        let mut p = std::mem::take(&mut self.0);
        sort_props(&mut p);
        p
    }
}

// ------------------------------------------------------------------ Canon

#[derive(Clone, Debug, PartialEq, Eq, Serialize, Deserialize)]
pub struct CanonWill {
    pub topic: Vec<u8>,
    pub message: Vec<u8>,
    pub qos: u8,
    pub retain: bool,
    pub props: Props,
}

#[derive(Clone, Debug, PartialEq, Eq, Serialize, Deserialize)]
pub struct CanonConnect {
    pub keep_alive: u16,
    pub clean: bool,
    pub client_id: String,
    pub will: Option<CanonWill>,
    /// `None` = user-name flag clear
    pub username: Option<String>,
    /// `None` = password flag clear
    pub password: Option<String>,
}

/// Canonical content of one MQTT control packet
#[derive(Clone, Debug, PartialEq, Eq, Serialize, Deserialize)]
pub struct Canon {
    /// 4 (MQTT 3.1.1) or 5
    pub version: u8,
    /// control packet type 1..=15
    pub ptype: u8,
    /// PUBLISH fixed-header flags (false/0 for every other type)
    pub dup: bool,
    pub qos: u8,
    pub retain: bool,
    /// packet identifier, 0 where the packet has none
    pub pkid: u16,
    /// PUBLISH topic name
    pub topic: Vec<u8>,
    /// PUBLISH payload
    pub payload: Vec<u8>,
    pub connect: Option<CanonConnect>,
    /// CONNACK
    pub session_present: bool,
    /// CONNACK return code / PUBACK..PUBCOMP, DISCONNECT, AUTH reason code (spec number)
    pub code: u8,
    /// SUBSCRIBE: (filter, options byte = qos | nl<<2 | rap<<3 | rh<<4); UNSUBSCRIBE: (filter, 0)
    pub filters: Vec<(String, u8)>,
    /// SUBACK / UNSUBACK reason codes (spec numbers)
    pub codes: Vec<u8>,
    /// MQTT 5 properties of the packet itself
    pub props: Props,
}

impl Canon {
    pub fn empty(version: u8, ptype: u8) -> Canon {
        Canon {
            version,
            ptype,
            dup: false,
            qos: 0,
            retain: false,
            pkid: 0,
            topic: vec![],
            payload: vec![],
            connect: None,
            session_present: false,
            code: 0,
            filters: vec![],
            codes: vec![],
            props: vec![],
        }
    }

    /// low nibble of the first byte the specification mandates for this packet
    pub fn flags(&self) -> u8 {
        match self.ptype {
            PUBLISH => ((self.dup as u8) << 3) | (self.qos << 1) | self.retain as u8,
            PUBREL | SUBSCRIBE | UNSUBSCRIBE => 2,
            _ => 0,
        }
    }

    pub fn type_name(&self) -> &'static str {
        ptype_name(self.ptype)
    }

    /// name of the first field in which two canons differ
    pub fn diff(&self, o: &Canon) -> &'static str {
        if self.version != o.version {
            return "version";
        }
        if self.ptype != o.ptype {
            return "ptype";
        }
        if (self.dup, self.qos, self.retain) != (o.dup, o.qos, o.retain) {
            return "flags";
        }
        if self.pkid != o.pkid {
            return "pkid";
        }
        if self.topic != o.topic {
            return "topic";
        }
        if self.payload != o.payload {
            return "payload";
        }
        if self.connect != o.connect {
            return "connect";
        }
        if self.session_present != o.session_present {
            return "session_present";
        }
        if self.code != o.code {
            return "code";
        }
        if self.filters != o.filters {
            return "filters";
        }
        if self.codes != o.codes {
            return "codes";
        }
        if self.props != o.props {
            return "props";
        }
        "none"
    }

    /// short, bounded description for evidence samples and messages
    pub fn summary(&self) -> String {
        format!(
            "v{} {} flags={:#x} pkid={} topic_len={} payload_len={} code={} filters={} codes={} props={}{}",
            self.version,
            self.type_name(),
            self.flags(),
            self.pkid,
            self.topic.len(),
            self.payload.len(),
            self.code,
            self.filters.len(),
            self.codes.len(),
            self.props.len(),
            match &self.connect {
                Some(c) => format!(
                    " connect(id_len={} will={} user={} pass={})",
                    c.client_id.len(),
                    c.will.is_some(),
                    c.username.is_some(),
                    c.password.is_some()
                ),
                None => String::new(),
            }
        )
    }

    /// abstract shape (type, flags, presence of every optional part, length buckets)
    pub fn shape(&self) -> String {
        fn bucket(n: usize) -> u8 {
            match n {
                0 => 0,
                1..=126 => 1,
                127..=128 => 2,
                129..=16382 => 3,
                16383..=16384 => 4,
                16385..=65534 => 5,
                65535 => 6,
                65536..=2097150 => 7,
                2097151..=2097152 => 8,
                _ => 9,
            }
        }
        let ids: Vec<u8> = self.props.iter().map(|(i, _)| *i).collect();
        let conn = match &self.connect {
            Some(c) => format!(
                "{}{}{}{}{:?}",
                c.clean as u8,
                bucket(c.client_id.len()),
                c.username.is_some() as u8,
                c.password.is_some() as u8,
                c.will.as_ref().map(|w| (w.qos, w.retain, bucket(w.message.len()), w.props.iter().map(|(i, _)| *i).collect::<Vec<_>>()))
            ),
            None => String::new(),
        };
        format!(
            "{}:{}:{:x}:{}:{}:{}:{}:{}:{}:{:?}:{}",
            self.version,
            self.ptype,
            self.flags(),
            (self.pkid != 0) as u8,
            bucket(self.topic.len()),
            bucket(self.payload.len()),
            self.code,
            bucket(self.filters.len()),
            bucket(self.codes.len()),
            ids,
            conn
        )
    }
}

// ------------------------------------------------------------------ reference encoder

fn put_varint(out: &mut Vec<u8>, mut x: usize) {
    loop {
        let mut b = (x % 128) as u8;
        x /= 128;
        if x > 0 {
            b |= 0x80;
        }
        out.push(b);
        if x == 0 {
            break;
        }
    }
}

fn put_bin(out: &mut Vec<u8>, b: &[u8]) {
    out.extend_from_slice(&(b.len() as u16).to_be_bytes());
    out.extend_from_slice(b);
}

fn put_props(out: &mut Vec<u8>, p: &Props) {
    let mut body = vec![];
    for (id, v) in p {
        body.push(*id);
        match v {
            PVal::U8(x) => body.push(*x),
            PVal::U16(x) => body.extend_from_slice(&x.to_be_bytes()),
            PVal::U32(x) => body.extend_from_slice(&x.to_be_bytes()),
            PVal::Var(x) => put_varint(&mut body, *x as usize),
            PVal::Str(s) => put_bin(&mut body, s.as_bytes()),
            PVal::Bin(b) => put_bin(&mut body, b),
            PVal::Pair(k, x) => {
                put_bin(&mut body, k.as_bytes());
                put_bin(&mut body, x.as_bytes());
            }
        }
    }
    put_varint(out, body.len());
    out.extend_from_slice(&body);
}

/// Encode a canon by the book (MQTT 3.1.1 section 3 / MQTT 5 section 3). MQTT 5 acks and
/// DISCONNECT use the shortest legal form (reason code and property length omitted when
/// the reason is 0 and there are no properties).
pub fn encode(c: &Canon) -> Vec<u8> {
    let v5 = c.version == 5;
    let mut b: Vec<u8> = vec![];
    match c.ptype {
        CONNECT => {
            let k = c.connect.as_ref().expect("connect part");
            put_bin(&mut b, b"MQTT");
            b.push(c.version);
            let mut flags = (k.clean as u8) << 1;
            if let Some(w) = &k.will {
                flags |= 0x04 | (w.qos << 3) | ((w.retain as u8) << 5);
            }
            if k.username.is_some() {
                flags |= 0x80;
            }
            if k.password.is_some() {
                flags |= 0x40;
            }
            b.push(flags);
            b.extend_from_slice(&k.keep_alive.to_be_bytes());
            if v5 {
                put_props(&mut b, &c.props);
            }
            put_bin(&mut b, k.client_id.as_bytes());
            if let Some(w) = &k.will {
                if v5 {
                    put_props(&mut b, &w.props);
                }
                put_bin(&mut b, &w.topic);
                put_bin(&mut b, &w.message);
            }
            if let Some(u) = &k.username {
                put_bin(&mut b, u.as_bytes());
            }
            if let Some(p) = &k.password {
                put_bin(&mut b, p.as_bytes());
            }
        }
        CONNACK => {
            b.push(c.session_present as u8);
            b.push(c.code);
            if v5 {
                put_props(&mut b, &c.props);
            }
        }
        PUBLISH => {
            put_bin(&mut b, &c.topic);
            if c.qos > 0 {
                b.extend_from_slice(&c.pkid.to_be_bytes());
            }
            if v5 {
                put_props(&mut b, &c.props);
            }
            b.extend_from_slice(&c.payload);
        }
        PUBACK | PUBREC | PUBREL | PUBCOMP => {
            b.extend_from_slice(&c.pkid.to_be_bytes());
            if v5 && (c.code != 0 || !c.props.is_empty()) {
                b.push(c.code);
                put_props(&mut b, &c.props);
            }
        }
        SUBSCRIBE => {
            b.extend_from_slice(&c.pkid.to_be_bytes());
            if v5 {
                put_props(&mut b, &c.props);
            }
            for (f, o) in &c.filters {
                put_bin(&mut b, f.as_bytes());
                b.push(*o);
            }
        }
        SUBACK | UNSUBACK => {
            b.extend_from_slice(&c.pkid.to_be_bytes());
            if v5 {
                put_props(&mut b, &c.props);
            }
            b.extend_from_slice(&c.codes);
        }
        UNSUBSCRIBE => {
            b.extend_from_slice(&c.pkid.to_be_bytes());
            if v5 {
                put_props(&mut b, &c.props);
            }
            for (f, _) in &c.filters {
                put_bin(&mut b, f.as_bytes());
            }
        }
        PINGREQ | PINGRESP => {}
        DISCONNECT => {
            if v5 && (c.code != 0 || !c.props.is_empty()) {
                b.push(c.code);
                put_props(&mut b, &c.props);
            }
        }
        AUTH => {
            if c.code != 0 || !c.props.is_empty() {
                b.push(c.code);
                put_props(&mut b, &c.props);
            }
        }
        _ => {}
    }
    let mut out = Vec::with_capacity(b.len() + 5);
    out.push((c.ptype << 4) | c.flags());
    put_varint(&mut out, b.len());
    out.extend_from_slice(&b);
    out
}

/// remaining length of the reference encoding
pub fn remaining_len(c: &Canon) -> usize {
    let e = encode(c);
    let mut i = 1;
    while e[i] & 0x80 != 0 {
        i += 1;
    }
    e.len() - (i + 1)
}

// ------------------------------------------------------------------ generator

/// Size policy of the generator. Probabilities are "1 in n" (0 = never).
#[derive(Clone, Debug)]
pub struct Sizes {
    /// payload around 16383/16384
    pub mid_payload_1_in: u64,
    /// payload around 2097151/2097152
    pub big_payload_1_in: u64,
    /// a string of exactly 65535 bytes
    pub max_string_1_in: u64,
    /// upper bound on filters / return codes in one packet
    pub max_filters: u64,
}

impl Sizes {
    pub fn small() -> Sizes {
        Sizes {
            mid_payload_1_in: 0,
            big_payload_1_in: 0,
            max_string_1_in: 0,
            max_filters: 6,
        }
    }
    pub fn normal() -> Sizes {
        Sizes {
            mid_payload_1_in: 400,
            big_payload_1_in: 20_000,
            max_string_1_in: 600,
            max_filters: 200,
        }
    }
}

const ALPHA: &[u8] = b"abcdefghijklmnopqrstuvwxyzABCXYZ0123456789-_. ";
const MULTI: &[&str] = &["é", "ß", "漢", "字", "😀", "$"];

/// valid UTF-8 string of exactly `len` bytes without NUL, '+', '#' or '/'
pub fn str_of_len(rng: &mut Rng, len: usize) -> String {
    let mut s = String::with_capacity(len);
    if len >= 4 && rng.chance(1, 3) {
        s.push_str(*rng.pick(MULTI));
    }
    if len > 64 {
        // long strings: one repeated letter (cheap), varied head
        let c = *rng.pick(ALPHA) as char;
        while s.len() < len {
            s.push(c);
        }
    } else {
        while s.len() < len {
            if len - s.len() >= 4 && rng.chance(1, 8) {
                s.push_str(*rng.pick(MULTI));
            } else {
                s.push(*rng.pick(ALPHA) as char);
            }
        }
    }
    debug_assert_eq!(s.len(), len);
    s
}

pub fn pkid_interesting(rng: &mut Rng) -> u16 {
    match rng.below(8) {
        0 => 1,
        1 => 2,
        2 => 255,
        3 => 256,
        4 => 65535,
        _ => rng.range(1, 65535) as u16,
    }
}

fn str_len(rng: &mut Rng, sz: &Sizes, min: usize) -> usize {
    if sz.max_string_1_in > 0 && rng.chance(1, sz.max_string_1_in) {
        return 65535;
    }
    let l = match rng.below(20) {
        0 => 0,
        1 => 1,
        2 => 127,
        3 => 128,
        4 => rng.range(129, 300) as usize,
        _ => rng.range(1, 12) as usize,
    };
    l.max(min)
}

pub fn gen_str(rng: &mut Rng, sz: &Sizes, min: usize) -> String {
    let l = str_len(rng, sz, min);
    str_of_len(rng, l)
}

pub fn gen_bin(rng: &mut Rng, sz: &Sizes) -> Vec<u8> {
    let l = str_len(rng, sz, 0);
    gen_bytes(rng, l)
}

/// `len` bytes: random head, cheap constant fill
pub fn gen_bytes(rng: &mut Rng, len: usize) -> Vec<u8> {
    let fill = rng.below(256) as u8;
    let mut v = vec![fill; len];
    for b in v.iter_mut().take(16) {
        *b = rng.below(256) as u8;
    }
    v
}

pub fn gen_ascii(rng: &mut Rng, len: usize) -> Vec<u8> {
    str_of_len(rng, len).into_bytes()
}

fn payload_len(rng: &mut Rng, sz: &Sizes) -> usize {
    if sz.big_payload_1_in > 0 && rng.chance(1, sz.big_payload_1_in) {
        return rng.range(2_097_140, 2_097_160) as usize;
    }
    if sz.mid_payload_1_in > 0 && rng.chance(1, sz.mid_payload_1_in) {
        return rng.range(16_370, 16_390) as usize;
    }
    match rng.below(20) {
        0 | 1 => 0,
        2 => rng.range(100, 135) as usize,
        3 => rng.range(136, 1000) as usize,
        _ => rng.range(1, 64) as usize,
    }
}

/// topic name: non-empty, no wildcards
pub fn gen_topic(rng: &mut Rng, sz: &Sizes) -> String {
    if rng.chance(1, 10) {
        return gen_str(rng, sz, 1);
    }
    let levels = rng.range(1, 4);
    let mut s = String::new();
    for i in 0..levels {
        if i > 0 {
            s.push('/');
        }
        let l = rng.range(0, 6) as usize;
        s.push_str(&str_of_len(rng, l));
    }
    if s.is_empty() {
        s.push('t');
    }
    s
}

/// syntactically valid topic filter
pub fn gen_filter(rng: &mut Rng, sz: &Sizes) -> String {
    if rng.chance(1, 12) {
        return gen_str(rng, sz, 1);
    }
    let levels = rng.range(1, 4);
    let mut s = String::new();
    for i in 0..levels {
        if i > 0 {
            s.push('/');
        }
        match rng.below(6) {
            0 => s.push('+'),
            1 if i + 1 == levels => s.push('#'),
            _ => {
                let l = rng.range(if levels == 1 { 1 } else { 0 }, 6) as usize;
                s.push_str(&str_of_len(rng, l));
            }
        }
    }
    if s.is_empty() {
        s.push('f');
    }
    s
}

/// One optional property of a packet type: identifier and how to draw a legal value
#[derive(Clone, Copy, Debug, PartialEq, Eq)]
pub enum PKind {
    Bool,
    U8,
    U16,
    U16Nz,
    U32,
    U32Nz,
    VarNz,
    Str,
    Topic,
    Bin,
}

/// optional (non-user) properties legal on `ptype` travelling in `dir`; `will` selects the
/// will properties of CONNECT
pub fn prop_table(ptype: u8, dir: Dir, will: bool) -> Vec<(u8, PKind)> {
    use PKind::*;
    if will {
        return vec![
            (P_WILL_DELAY, U32),
            (P_PAYLOAD_FORMAT, Bool),
            (P_MESSAGE_EXPIRY, U32),
            (P_CONTENT_TYPE, Str),
            (P_RESPONSE_TOPIC, Topic),
            (P_CORRELATION_DATA, Bin),
        ];
    }
    match ptype {
        CONNECT => vec![
            (P_SESSION_EXPIRY, U32),
            (P_RECEIVE_MAX, U16Nz),
            (P_MAX_PACKET_SIZE, U32Nz),
            (P_TOPIC_ALIAS_MAX, U16),
            (P_REQUEST_RESPONSE_INFO, Bool),
            (P_REQUEST_PROBLEM_INFO, Bool),
            (P_AUTH_METHOD, Str),
            (P_AUTH_DATA, Bin),
        ],
        CONNACK => vec![
            (P_SESSION_EXPIRY, U32),
            (P_RECEIVE_MAX, U16Nz),
            (P_MAX_QOS, Bool),
            (P_RETAIN_AVAILABLE, Bool),
            (P_MAX_PACKET_SIZE, U32Nz),
            (P_ASSIGNED_CLIENT_ID, Str),
            (P_TOPIC_ALIAS_MAX, U16),
            (P_REASON_STRING, Str),
            (P_WILDCARD_SUB_AVAILABLE, Bool),
            (P_SUB_ID_AVAILABLE, Bool),
            (P_SHARED_SUB_AVAILABLE, Bool),
            (P_SERVER_KEEP_ALIVE, U16),
            (P_RESPONSE_INFO, Str),
            (P_SERVER_REFERENCE, Str),
            (P_AUTH_METHOD, Str),
            (P_AUTH_DATA, Bin),
        ],
        PUBLISH => {
            let mut v = vec![
                (P_PAYLOAD_FORMAT, Bool),
                (P_MESSAGE_EXPIRY, U32),
                (P_TOPIC_ALIAS, U16Nz),
                (P_RESPONSE_TOPIC, Topic),
                (P_CORRELATION_DATA, Bin),
                (P_CONTENT_TYPE, Str),
            ];
            if dir == Dir::S2C {
                v.push((P_SUBSCRIPTION_ID, VarNz));
            }
            v
        }
        PUBACK | PUBREC | PUBREL | PUBCOMP | SUBACK | UNSUBACK => vec![(P_REASON_STRING, Str)],
        SUBSCRIBE => vec![(P_SUBSCRIPTION_ID, VarNz)],
        DISCONNECT => match dir {
            Dir::C2S => vec![(P_SESSION_EXPIRY, U32), (P_REASON_STRING, Str)],
            Dir::S2C => vec![(P_REASON_STRING, Str), (P_SERVER_REFERENCE, Str)],
        },
        _ => vec![],
    }
}

fn gen_pval(rng: &mut Rng, sz: &Sizes, k: PKind) -> PVal {
    fn edge32(rng: &mut Rng, min: u32) -> u32 {
        match rng.below(5) {
            0 => min,
            1 => u32::MAX,
            2 => 65536,
            _ => (rng.next() as u32).max(min),
        }
    }
    fn edge16(rng: &mut Rng, min: u16) -> u16 {
        match rng.below(5) {
            0 => min,
            1 => u16::MAX,
            2 => 256,
            _ => (rng.next() as u16).max(min),
        }
    }
    match k {
        PKind::Bool => PVal::U8(rng.below(2) as u8),
        PKind::U8 => PVal::U8(rng.below(256) as u8),
        PKind::U16 => PVal::U16(edge16(rng, 0)),
        PKind::U16Nz => PVal::U16(edge16(rng, 1)),
        PKind::U32 => PVal::U32(edge32(rng, 0)),
        PKind::U32Nz => PVal::U32(edge32(rng, 1)),
        PKind::VarNz => PVal::Var(match rng.below(9) {
            0 => 1,
            1 => 127,
            2 => 128,
            3 => 16383,
            4 => 16384,
            5 => 2_097_151,
            6 => 2_097_152,
            7 => 268_435_455,
            _ => rng.range(1, 268_435_455) as u32,
        }),
        PKind::Str => PVal::Str(gen_str(rng, sz, 0)),
        PKind::Topic => PVal::Str(gen_topic(rng, sz)),
        PKind::Bin => PVal::Bin(gen_bin(rng, sz)),
    }
}

/// Is this presence mask over `table` legal? (authentication data needs a method)
pub fn mask_legal(table: &[(u8, PKind)], mask: u32) -> bool {
    let has = |id: u8| table.iter().enumerate().any(|(i, (p, _))| *p == id && mask & (1 << i) != 0);
    !(has(P_AUTH_DATA) && !has(P_AUTH_METHOD))
}

/// properties for the given presence mask plus `users` user properties (sorted)
pub fn gen_props_mask(rng: &mut Rng, sz: &Sizes, table: &[(u8, PKind)], mask: u32, users: u64) -> Props {
    let mut p: Props = vec![];
    for (i, (id, k)) in table.iter().enumerate() {
        if mask & (1 << i) != 0 {
            p.push((*id, gen_pval(rng, sz, *k)));
            // PUBLISH may carry several subscription identifiers
            if *id == P_SUBSCRIPTION_ID && table.iter().any(|(x, _)| *x == P_TOPIC_ALIAS) && rng.chance(1, 3) {
                p.push((*id, gen_pval(rng, sz, *k)));
            }
        }
    }
    for _ in 0..users {
        p.push((P_USER, PVal::Pair(gen_str(rng, sz, 0), gen_str(rng, sz, 0))));
    }
    sort_props(&mut p);
    p
}

fn gen_props(rng: &mut Rng, sz: &Sizes, table: &[(u8, PKind)], allow_users: bool) -> Props {
    if rng.chance(1, 4) {
        return vec![];
    }
    let mut mask;
    loop {
        mask = 0u32;
        for i in 0..table.len() {
            if rng.chance(2, 5) {
                mask |= 1 << i;
            }
        }
        if mask_legal(table, mask) {
            break;
        }
    }
    let users = if allow_users && rng.chance(1, 2) { rng.range(1, 3) } else { 0 };
    gen_props_mask(rng, sz, table, mask, users)
}

/// reason codes by the MQTT 5 specification
pub const CONNACK_CODES_V4: &[u8] = &[0, 1, 2, 3, 4, 5];
pub const CONNACK_CODES_V5: &[u8] = &[
    0, 128, 129, 130, 131, 132, 133, 134, 135, 136, 137, 138, 140, 144, 149, 151, 153, 154, 155, 156, 157, 159,
];
pub const PUBACK_CODES: &[u8] = &[0, 16, 128, 131, 135, 144, 145, 151, 153];
pub const PUBREL_CODES: &[u8] = &[0, 146];
pub const SUBACK_CODES_V4: &[u8] = &[0, 1, 2, 128];
pub const SUBACK_CODES_V5: &[u8] = &[0, 1, 2, 128, 131, 135, 143, 145, 151, 158, 161, 162];
pub const UNSUBACK_CODES: &[u8] = &[0x00, 0x11, 0x80, 0x83, 0x87, 0x8F, 0x91];
pub const DISCONNECT_CODES_S2C: &[u8] = &[
    0x00, 0x80, 0x81, 0x82, 0x83, 0x87, 0x89, 0x8B, 0x8D, 0x8E, 0x8F, 0x90, 0x93, 0x94, 0x95, 0x96, 0x97, 0x98, 0x99, 0x9A,
    0x9B, 0x9C, 0x9D, 0x9E, 0x9F, 0xA0, 0xA1, 0xA2,
];
pub const DISCONNECT_CODES_C2S: &[u8] = &[0x00, 0x04, 0x80, 0x81, 0x82, 0x83, 0x90, 0x93, 0x94, 0x95, 0x96, 0x97, 0x98, 0x99];
pub const AUTH_CODES: &[u8] = &[0x00, 0x18, 0x19];

/// types that exist in `version` and may travel in `dir`
pub fn types_for(version: u8, dir: Dir) -> Vec<u8> {
    (1..=14u8)
        .filter(|t| match dir {
            Dir::C2S => is_c2s(*t, version),
            Dir::S2C => is_s2c(*t, version),
        })
        .collect()
}

fn apply_payload_format(props: &Props, payload: &mut Vec<u8>, rng: &mut Rng) {
    // payload format indicator 1 promises UTF-8 payload
    if p_u8(props, P_PAYLOAD_FORMAT) == Some(1) {
        let l = payload.len();
        *payload = gen_ascii(rng, l);
    }
}

/// A random well-formed packet value of type `ptype` for protocol `version` (4 or 5)
/// travelling in direction `dir`. "Well-formed" = what the protocol allows on that leg:
/// non-zero packet identifiers where one is required, DUP only with QoS > 0, QoS 0 publishes
/// without identifier, at least one filter / return code, session-present only with return
/// code 0, only reason codes and properties the specification allows for the sender, strings
/// valid UTF-8 without NUL, topic names without wildcards, no MQTT 5 parts in a 3.1.1 packet.
pub fn random(rng: &mut Rng, version: u8, ptype: u8, dir: Dir, sz: &Sizes) -> Canon {
    let v5 = version == 5;
    let mut c = Canon::empty(version, ptype);
    let table = if v5 { prop_table(ptype, dir, false) } else { vec![] };
    match ptype {
        CONNECT => {
            let client_id = if rng.chance(1, 8) { String::new() } else { gen_str(rng, sz, 0) };
            let clean = client_id.is_empty() || rng.chance(1, 2);
            let will = if rng.chance(1, 2) {
                let props = if v5 {
                    gen_props(rng, sz, &prop_table(CONNECT, dir, true), true)
                } else {
                    vec![]
                };
                let l = payload_len(rng, &Sizes::small());
                let mut message = gen_bytes(rng, l);
                apply_payload_format(&props, &mut message, rng);
                Some(CanonWill {
                    topic: gen_topic(rng, sz).into_bytes(),
                    message,
                    qos: rng.below(3) as u8,
                    retain: rng.chance(1, 2),
                    props,
                })
            } else {
                None
            };
            let (username, password) = match rng.below(if v5 { 4 } else { 3 }) {
                0 => (None, None),
                1 => (Some(gen_str(rng, sz, 1)), None),
                2 => (Some(gen_str(rng, sz, 1)), Some(gen_str(rng, sz, 1))),
                _ => (None, Some(gen_str(rng, sz, 1))),
            };
            c.connect = Some(CanonConnect {
                keep_alive: match rng.below(4) {
                    0 => 0,
                    1 => 65535,
                    _ => rng.below(65536) as u16,
                },
                clean,
                client_id,
                will,
                username,
                password,
            });
            if v5 {
                c.props = gen_props(rng, sz, &table, true);
            }
        }
        CONNACK => {
            c.code = *rng.pick(if v5 { CONNACK_CODES_V5 } else { CONNACK_CODES_V4 });
            c.session_present = c.code == 0 && rng.chance(1, 2);
            if v5 {
                c.props = gen_props(rng, sz, &table, true);
            }
        }
        PUBLISH => {
            c.qos = rng.below(3) as u8;
            c.dup = c.qos > 0 && rng.chance(1, 2);
            c.retain = rng.chance(1, 2);
            c.pkid = if c.qos > 0 { pkid_interesting(rng) } else { 0 };
            c.topic = gen_topic(rng, sz).into_bytes();
            let l = payload_len(rng, sz);
            c.payload = gen_bytes(rng, l);
            if v5 {
                c.props = gen_props(rng, sz, &table, true);
                let mut p = std::mem::take(&mut c.payload);
                apply_payload_format(&c.props, &mut p, rng);
                c.payload = p;
            }
        }
        PUBACK | PUBREC | PUBREL | PUBCOMP => {
            c.pkid = pkid_interesting(rng);
            if v5 {
                c.code = *rng.pick(if ptype == PUBACK || ptype == PUBREC { PUBACK_CODES } else { PUBREL_CODES });
                c.props = gen_props(rng, sz, &table, true);
            }
        }
        SUBSCRIBE => {
            c.pkid = pkid_interesting(rng);
            let n = if rng.chance(1, 30) { rng.range(1, sz.max_filters.max(1)) } else { rng.range(1, 4) };
            for _ in 0..n {
                let mut o = rng.below(3) as u8;
                if v5 {
                    o |= (rng.below(2) as u8) << 2 | (rng.below(2) as u8) << 3 | (rng.below(3) as u8) << 4;
                }
                c.filters.push((gen_filter(rng, sz), o));
            }
            if v5 {
                c.props = gen_props(rng, sz, &table, true);
            }
        }
        SUBACK => {
            c.pkid = pkid_interesting(rng);
            let n = if rng.chance(1, 30) { rng.range(1, sz.max_filters.max(1)) } else { rng.range(1, 4) };
            for _ in 0..n {
                c.codes.push(*rng.pick(if v5 { SUBACK_CODES_V5 } else { SUBACK_CODES_V4 }));
            }
            if v5 {
                c.props = gen_props(rng, sz, &table, true);
            }
        }
        UNSUBSCRIBE => {
            c.pkid = pkid_interesting(rng);
            let n = if rng.chance(1, 30) { rng.range(1, sz.max_filters.max(1)) } else { rng.range(1, 4) };
            for _ in 0..n {
                c.filters.push((gen_filter(rng, sz), 0));
            }
            if v5 {
                c.props = gen_props(rng, sz, &table, true);
            }
        }
        UNSUBACK => {
            c.pkid = pkid_interesting(rng);
            if v5 {
                let n = if rng.chance(1, 30) { rng.range(1, sz.max_filters.max(1)) } else { rng.range(1, 4) };
                for _ in 0..n {
                    c.codes.push(*rng.pick(UNSUBACK_CODES));
                }
                c.props = gen_props(rng, sz, &table, true);
            }
        }
        DISCONNECT => {
            if v5 {
                c.code = *rng.pick(if dir == Dir::C2S { DISCONNECT_CODES_C2S } else { DISCONNECT_CODES_S2C });
                c.props = gen_props(rng, sz, &table, true);
            }
        }
        AUTH => {
            c.code = *rng.pick(AUTH_CODES);
        }
        _ => {}
    }
    c
}

/// Grow or shrink the variable-size tail of `c` (PUBLISH payload, will message of CONNECT,
/// last filter of SUBSCRIBE/UNSUBSCRIBE, number of SUBACK codes) so that the remaining
/// length of its encoding is exactly `target`. Returns false when that is impossible.
pub fn fit_remaining(c: &mut Canon, target: usize, rng: &mut Rng) -> bool {
    let cur = remaining_len(c);
    let adjust = |have: usize| -> Option<usize> {
        let want = have as i64 + target as i64 - cur as i64;
        if want < 0 {
            None
        } else {
            Some(want as usize)
        }
    };
    match c.ptype {
        PUBLISH => match adjust(c.payload.len()) {
            Some(n) => {
                c.payload = if p_u8(&c.props, P_PAYLOAD_FORMAT) == Some(1) { gen_ascii(rng, n) } else { gen_bytes(rng, n) };
            }
            None => return false,
        },
        CONNECT => {
            let Some(w) = c.connect.as_mut().and_then(|k| k.will.as_mut()) else { return false };
            match adjust(w.message.len()) {
                Some(n) if n <= 65535 => {
                    w.message = if p_u8(&w.props, P_PAYLOAD_FORMAT) == Some(1) { gen_ascii(rng, n) } else { gen_bytes(rng, n) };
                }
                _ => return false,
            }
        }
        SUBSCRIBE | UNSUBSCRIBE => {
            // add maximal filters until the rest fits in the last one
            let per = if c.ptype == SUBSCRIBE { 3 } else { 2 };
            loop {
                let cur = remaining_len(c);
                let last = c.filters.last().map(|f| f.0.len()).unwrap_or(0);
                let want = last as i64 + target as i64 - cur as i64;
                if want < 1 {
                    return false;
                }
                if want <= 65535 {
                    let o = c.filters.last().map(|f| f.1).unwrap_or(0);
                    c.filters.pop();
                    c.filters.push((str_of_len(rng, want as usize), o));
                    break;
                }
                // room for another full filter?
                let o = c.filters.last().map(|f| f.1).unwrap_or(0);
                let add = (want as usize - last).min(65535 + per) - per;
                c.filters.push((str_of_len(rng, add.max(1)), o));
            }
        }
        SUBACK | UNSUBACK if !(c.ptype == UNSUBACK && c.version == 4) => match adjust(c.codes.len()) {
            Some(n) if n >= 1 => {
                let fill = *c.codes.first().unwrap_or(&0);
                c.codes.resize(n, fill);
            }
            _ => return false,
        },
        _ => return false,
    }
    remaining_len(c) == target
}

/// the remaining-length width boundaries and their neighbours
pub const RL_TARGETS: &[usize] = &[127, 128, 129, 16383, 16384, 16385, 2_097_151, 2_097_152, 2_097_153];
