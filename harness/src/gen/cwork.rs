//! Client state-machine histories for C02 / C07 / C10 on substrate S2:
//! the op alphabet, the executor (one `View` per guarded call, handed to the oracles of
//! `props::c02`, `props::c07`, `props::c10`), the online generator with its trigger
//! predicates (DESIGN.md 1.2 "workload split"), the directed scenarios, and the run / replay
//! entry points shared by the three properties.
use crate::common::{fnv, guarded, judge, sharded, Ctx, Judged, PanicInfo, Record, Rng, Stats};
use crate::model::mclient::{Delta, InClass, MClient, Phase};
use crate::sub::s2::{
    held_of, BatchEnd, Call, Ev, Held, Machine, OutKind, Outcome, Pk, V4State, V5State, Ver, Via, READB_MAX, S2,
};
use serde::{Deserialize, Serialize};
use serde_json::{json, Value};

// ------------------------------------------------------------------ ops

#[derive(Clone, Debug, PartialEq, Eq, Serialize, Deserialize)]
pub enum Op {
    /// v5: the CONNACK of the first connection (may carry receive_max / topic_alias_max)
    Connack0(Pk),
    /// a user request offered to the event loop (publish, subscribe, unsubscribe, disconnect,
    /// manual PubAck / PubRec). Not taken if the gate is closed or `pending` is not drained.
    Req(Pk),
    /// one request carried over in `pending`
    Replay,
    /// keep-alive timer
    Ping,
    /// broker packets arriving in one read (split like `readb` does: at most 9 per batch)
    Batch(Vec<Pk>),
    /// transport failure: `EventLoop::clean()`
    Fail,
    /// next `poll()`: reconnect, CONNACK as given
    Reconnect(Pk),
}

impl Op {
    pub fn kind(&self) -> &'static str {
        match self {
            Op::Connack0(_) => "connack0",
            Op::Req(p) => match p {
                Pk::Publish { qos: 0, .. } => "req-publish-q0",
                Pk::Publish { qos: 1, .. } => "req-publish-q1",
                Pk::Publish { .. } => "req-publish-q2",
                Pk::Subscribe { .. } => "req-subscribe",
                Pk::Unsubscribe { .. } => "req-unsubscribe",
                Pk::PubAck { .. } => "req-manual-puback",
                Pk::PubRec { .. } => "req-manual-pubrec",
                Pk::Disconnect { .. } => "req-disconnect",
                _ => "req-other",
            },
            Op::Replay => "replay",
            Op::Ping => "ping",
            Op::Batch(_) => "batch",
            Op::Fail => "fail",
            Op::Reconnect(_) => "reconnect",
        }
    }
    pub fn show(&self) -> String {
        match self {
            Op::Connack0(p) => format!("connack0 {}", p.show()),
            Op::Req(p) => format!("req {}", p.show()),
            Op::Replay => "replay".into(),
            Op::Ping => "ping".into(),
            Op::Batch(v) => format!("batch [{}]", v.iter().map(|p| p.show()).collect::<Vec<_>>().join(", ")),
            Op::Fail => "fail".into(),
            Op::Reconnect(p) => format!("reconnect {}", p.show()),
        }
    }
}

#[derive(Clone, Copy, Debug, PartialEq, Eq, Serialize, Deserialize)]
pub struct Cfg {
    pub ver: Ver,
    pub limit: u16,
    pub manual: bool,
    /// skip the clone-based state reads (limit 65535: a clone costs megabytes); the
    /// return-value / event / model oracles still run after every call
    pub light: bool,
}

// ------------------------------------------------------------------ what the oracles see

/// Everything of the state machine's bookkeeping that is readable from outside
#[derive(Clone, Debug, Default, PartialEq, Eq)]
pub struct Proj {
    pub held: Held,
    pub inflight: u16,
    pub collision: Option<Pk>,
    pub await_pingresp: bool,
    pub ping_count: usize,
}

pub fn proj_of<M: Machine>(st: &M) -> Result<Proj, PanicInfo> {
    Ok(Proj {
        held: held_of(st)?,
        inflight: st.inflight(),
        collision: st.collision(),
        await_pingresp: st.await_pingresp(),
        ping_count: st.collision_ping_count(),
    })
}

pub enum Step<'a> {
    /// after one guarded `handle_*` call
    Call {
        call: &'a Call,
        cls: &'a InClass,
        delta: &'a Delta,
        /// manual mode, PUBREL: had the user sent PUBREC for this id on this connection
        user_rec_before: bool,
    },
    /// a read batch ended
    BatchEnd(&'a BatchEnd),
    /// after `EventLoop::clean()`
    Failed,
    /// after the CONNACK of a new connection was processed
    Reconnected { session_present: bool },
    /// `pending` ran empty on a connection that resumed a session
    ReplayDone,
    /// the event queue as drained at the end of an op vs the events the calls reported
    QueueDrained { queue: &'a [Ev], reported: &'a [Ev] },
}

pub struct View<'a> {
    pub ver: Ver,
    pub limit_cfg: u16,
    pub limit_eff: u16,
    /// some CONNACK of this history lowered the limit in force below the configured one
    pub limit_lowered: bool,
    /// ... to or below the id the allocator had handed out last
    pub lowered_to_or_below_last_id: bool,
    /// how the QoS>0 publish written last got to the wire ("Replay" = carried over from an earlier connection)
    pub last_publish_replayed: bool,
    pub manual: bool,
    pub connected: bool,
    pub conn: u32,
    pub step: Step<'a>,
    /// the model after the step
    pub model: &'a MClient,
    /// state projections before / after the step (None in light mode)
    pub before: Option<&'a Proj>,
    pub after: Option<&'a Proj>,
    /// cheap reads available in every mode
    pub inflight: u16,
    pub collision: Option<Pk>,
    pub gate_open: bool,
    /// neutral view of `EventLoop.pending` after the step
    pub pending: &'a [Pk],
    /// packets written on the current connection so far
    pub wire: &'a [Pk],
}

impl View<'_> {
    pub fn ver_name(&self) -> &'static str {
        self.ver.name()
    }
    /// facts describing the step, shared by all records
    pub fn tag(&self, r: Record) -> Record {
        let r = r.fact("version", self.ver_name());
        match &self.step {
            Step::Call { call, cls, .. } => r
                .fact("after", call.input.kind())
                .fact("via", format!("{:?}", call.via))
                .fact("ack_class", cls.name())
                .fact("reason_failure", call.input.reason() >= 0x80),
            Step::BatchEnd(_) => r.fact("after", "batch-end"),
            Step::Failed => r.fact("after", "clean"),
            Step::Reconnected { session_present } => r.fact(
                "after",
                if *session_present {
                    "reconnect-session-present"
                } else {
                    "reconnect-session-absent"
                },
            ),
            Step::ReplayDone => r.fact("after", "replay-done"),
            Step::QueueDrained { .. } => r.fact("after", "drain"),
        }
    }
    pub fn step_show(&self) -> String {
        match &self.step {
            Step::Call { call, .. } => call.show(),
            Step::BatchEnd(e) => format!("{e:?}"),
            Step::Failed => "clean()".into(),
            Step::Reconnected { session_present } => format!("reconnected(session_present={session_present})"),
            Step::ReplayDone => "pending drained".into(),
            Step::QueueDrained { .. } => "events drained".into(),
        }
    }
}

// ------------------------------------------------------------------ executor

pub struct Runner<M: Machine> {
    pub cfg: Cfg,
    pub d: S2<M>,
    pub model: MClient,
    prev: Option<Proj>,
    /// events reported by the calls since the last drain
    reported: Vec<Ev>,
    /// the current connection resumed a session and `pending` has not run empty yet
    replaying: bool,
    /// last packet id seen allocated to a *new* packet (generator's allocator prediction)
    pub last_alloc: u16,
    /// where a cyclic allocator over 1..=limit stands (0 = restarts at 1); generator only
    pub alloc_cursor: u16,
    pub wrapped: bool,
    /// corner states reached by this history
    pub corners: Vec<&'static str>,
    /// requests not taken because the gate was closed
    pub gate_blocked: u64,
    gate_was_closed: bool,
    pub stuck: bool,
    last_sig: String,
}

/// `sink(stats, records) -> stop?`
pub type Sink<'a> = dyn FnMut(&mut Stats, Vec<Record>) -> bool + 'a;

impl<M: Machine> Runner<M> {
    pub fn new(cfg: Cfg) -> Runner<M> {
        let d = S2::<M>::new(cfg.limit, cfg.manual);
        let prev = if cfg.light { None } else { proj_of(&d.st).ok() };
        Runner {
            cfg,
            d,
            model: MClient::new(),
            prev,
            reported: vec![],
            replaying: false,
            last_alloc: 0,
            alloc_cursor: 0,
            wrapped: false,
            corners: vec![],
            gate_blocked: 0,
            gate_was_closed: false,
            stuck: false,
            last_sig: String::new(),
        }
    }

    fn corner(&mut self, stats: &mut Stats, name: &'static str) {
        stats.corner(name);
        if !self.corners.contains(&name) {
            self.corners.push(name);
        }
    }

    fn pending_view(&self) -> Vec<Pk> {
        self.d.pending.iter().map(|r| M::view_req(r)).collect()
    }

    /// evaluate all three oracle families on one step; returns stop?
    fn emit(&mut self, stats: &mut Stats, sink: &mut Sink, step: Step, after: Option<&Proj>) -> bool {
        let pending = self.pending_view();
        let view = View {
            ver: self.cfg.ver,
            limit_cfg: self.d.limit_cfg,
            limit_eff: self.d.limit_eff,
            limit_lowered: self.d.limit_ever_lowered,
            lowered_to_or_below_last_id: self.d.lowered_to_or_below_last_id,
            last_publish_replayed: self.d.last_publish_via == Some(crate::sub::s2::Via::Replay),
            manual: self.cfg.manual,
            connected: self.d.connected,
            conn: self.d.conn,
            step,
            model: &self.model,
            before: self.prev.as_ref(),
            after,
            inflight: self.d.st.inflight(),
            collision: self.d.st.collision(),
            gate_open: self.d.gate_open(),
            pending: &pending,
            wire: &self.d.wire,
        };
        // all three families look at every step; the sink judges the running property's own
        // records first
        let mut recs = vec![];
        recs.extend(crate::props::c02::oracles(&view, stats));
        recs.extend(crate::props::c07::oracles(&view, stats));
        recs.extend(crate::props::c10::oracles(&view, stats));
        // state-signature census (DESIGN.md 2.7)
        let sig = format!(
            "{}|infl={}|coll={}|wrapped={}|rels={}|pend={}",
            self.cfg.ver.name(),
            bucket(view.inflight as usize),
            view.collision.is_some(),
            self.wrapped,
            bucket(self.model.released_ids().len()),
            bucket(pending.len()),
        );
        if self.last_sig != sig {
            if !self.last_sig.is_empty() {
                stats.transitions.insert((self.last_sig.clone(), sig.clone()));
            }
            stats.sig(sig.clone());
            self.last_sig = sig;
        }
        if recs.is_empty() {
            false
        } else {
            sink(stats, recs)
        }
    }

    fn take_proj(&mut self, stats: &mut Stats, sink: &mut Sink) -> Result<Option<Proj>, bool> {
        if self.cfg.light || self.d.dead {
            return Ok(None);
        }
        match proj_of(&self.d.st) {
            Ok(p) => Ok(Some(p)),
            Err(p) => {
                // clean() on a clone panicked: the real clean() would too
                stats.panics_caught += 1;
                let r = Record::new(
                    "C02",
                    "panic",
                    format!("clean() on a clone of the state panicked at {}: {}", p.location, p.message),
                )
                .fact("version", self.cfg.ver.name())
                .fact("site", crate::common::panic_site(&p))
                .fact("call", "clean");
                sink(stats, vec![r]);
                Err(true)
            }
        }
    }

    /// bookkeeping shared by every guarded call: model update, projections, corners, oracles
    fn after_call(&mut self, stats: &mut Stats, sink: &mut Sink, call: Call, cls: InClass) -> bool {
        let user_rec_before = self.model.user_recs.contains(&call.input.pkid());
        let window_before = self.model.window();
        let delta = self.model.observe(self.cfg.ver, &call, &cls);
        self.reported.extend(call.events.iter().cloned());
        if matches!(call.outcome, Outcome::Panic(_)) {
            stats.panics_caught += 1;
        }
        // allocator observation: ids given to new packets
        if call.via == Via::Request {
            let id = match (&call.outcome, &call.input) {
                (Outcome::Ok(Some(p)), _) if p.pkid() != 0 && matches!(p, Pk::Publish { .. } | Pk::Subscribe { .. } | Pk::Unsubscribe { .. }) => {
                    Some(p.pkid())
                }
                (Outcome::Ok(None), Pk::Publish { .. }) => call.events.iter().find_map(|e| match e {
                    Ev::Out(OutKind::AwaitAck, id) => Some(*id),
                    _ => None,
                }),
                _ => None,
            };
            if let Some(id) = id {
                if id <= self.last_alloc && self.last_alloc != 0 {
                    self.wrapped = true;
                    self.corner(stats, "pkid-wrapped");
                }
                self.last_alloc = id;
                // a cyclic allocator over 1..=limit restarts after handing out `limit`
                self.alloc_cursor = if id >= self.d.limit_eff { 0 } else { id };
            }
        }
        // corners
        if delta.new_parked.is_some() {
            self.corner(stats, "collision-parked");
        }
        if delta.released_parked.is_some() {
            match call.input.kind() {
                "PubAck" => self.corner(stats, "collision-released-by-puback"),
                "PubComp" => self.corner(stats, "collision-released-by-pubcomp"),
                _ => self.corner(stats, "collision-released-otherwise"),
            }
        }
        if matches!(cls, InClass::AckUnsolicited) {
            self.corner(stats, "unsolicited-ack");
        }
        if matches!(cls, InClass::AckRepeatedRec) {
            self.corner(stats, "repeated-pubrec");
        }
        if call.via == Via::Read && call.input.reason() >= 0x80 {
            self.corner(stats, "v5-failure-reason-code");
        }
        if let (Via::Read, Pk::Publish { qos, alias, .. }) = (call.via, &call.input) {
            if *qos > 0 && self.cfg.manual {
                self.corner(stats, "manual-mode-publish-in");
            }
            if alias.is_some() {
                self.corner(stats, "v5-topic-alias-in");
            }
        }
        if matches!(cls, InClass::RelKnown) {
            self.corner(stats, "pubrel-known-id");
        }
        if call.via == Via::Request && self.gate_was_closed && call.outcome.is_ok() {
            self.corner(stats, "resumed-after-ack");
        }
        if delta.completed.is_some() && window_before as u32 >= self.d.limit_eff as u32 {
            self.corner(stats, "ack-freed-full-window");
        }
        if let Some((_, diff)) = &delta.rewritten {
            if diff.is_empty() {
                self.corner(stats, "retransmitted");
            }
        }
        let after = match self.take_proj(stats, sink) {
            Ok(p) => p,
            Err(stop) => return stop,
        };
        let stop = self.emit(
            stats,
            sink,
            Step::Call {
                call: &call,
                cls: &cls,
                delta: &delta,
                user_rec_before,
            },
            after.as_ref(),
        );
        self.prev = after;
        if !self.d.dead && self.d.connected {
            let closed = !self.d.gate_open();
            if closed && self.d.st.collision().is_none() {
                self.corner(stats, "window-full");
            }
            self.gate_was_closed = closed;
        }
        stop || self.d.dead
    }

    /// `poll()` on any error: `clean()`
    fn do_fail(&mut self, stats: &mut Stats, sink: &mut Sink) -> bool {
        if self.d.st.collision().is_some() {
            self.corner(stats, "collision-across-clean");
        }
        if let Err(p) = self.d.fail() {
            stats.panics_caught += 1;
            let r = Record::new("C02", "panic", format!("clean() panicked at {}: {}", p.location, p.message))
                .fact("version", self.cfg.ver.name())
                .fact("site", crate::common::panic_site(&p))
                .fact("call", "clean");
            sink(stats, vec![r]);
            return true;
        }
        self.model.connection_lost();
        self.replaying = false;
        let after = match self.take_proj(stats, sink) {
            Ok(p) => p,
            Err(stop) => return stop,
        };
        let stop = self.emit(stats, sink, Step::Failed, after.as_ref());
        self.prev = after;
        stop
    }

    fn drain(&mut self, stats: &mut Stats, sink: &mut Sink) -> bool {
        if self.d.dead {
            return true;
        }
        let queue = self.d.st.events_from(0);
        let reported = std::mem::take(&mut self.reported);
        self.d.drain_events();
        let prev = self.prev.clone();
        self.emit(
            stats,
            sink,
            Step::QueueDrained {
                queue: &queue,
                reported: &reported,
            },
            prev.as_ref(),
        )
    }

    /// Execute one op. Returns true when the history must stop (a record was judged, or the
    /// state machine panicked).
    pub fn exec(&mut self, op: &Op, stats: &mut Stats, sink: &mut Sink) -> bool {
        stats.op(op.kind());
        let stop = self.exec_inner(op, stats, sink);
        if stop {
            return true;
        }
        self.drain(stats, sink)
    }

    fn exec_inner(&mut self, op: &Op, stats: &mut Stats, sink: &mut Sink) -> bool {
        match op {
            Op::Connack0(p) => {
                if let Some(call) = self.d.first_connack(p) {
                    let ok = call.outcome.is_ok();
                    if self.after_call(stats, sink, call, InClass::Other) {
                        return true;
                    }
                    if !ok {
                        return self.do_fail(stats, sink);
                    }
                }
                false
            }
            Op::Req(p) => {
                if !self.d.connected {
                    return false;
                }
                match self.d.request(p) {
                    None => {
                        self.gate_blocked += 1;
                        stats.add_extra("requests_not_taken_gate_closed", 1);
                        self.corner(stats, "gate-blocked-request");
                        false
                    }
                    Some(call) => {
                        let ok = call.outcome.is_ok();
                        if self.after_call(stats, sink, call, InClass::Other) {
                            return true;
                        }
                        if !ok {
                            return self.do_fail(stats, sink);
                        }
                        false
                    }
                }
            }
            Op::Replay => {
                let Some(call) = self.d.replay_one() else {
                    return false;
                };
                let ok = call.outcome.is_ok();
                if self.after_call(stats, sink, call, InClass::Other) {
                    return true;
                }
                if !ok {
                    return self.do_fail(stats, sink);
                }
                if self.replaying && self.d.pending.is_empty() {
                    self.replaying = false;
                    let prev = self.prev.clone();
                    if self.emit(stats, sink, Step::ReplayDone, prev.as_ref()) {
                        return true;
                    }
                }
                false
            }
            Op::Ping => {
                let Some(call) = self.d.ping() else {
                    return false;
                };
                let ok = call.outcome.is_ok();
                if self.after_call(stats, sink, call, InClass::Other) {
                    return true;
                }
                if !ok {
                    return self.do_fail(stats, sink);
                }
                false
            }
            Op::Batch(pkts) => {
                if !self.d.connected {
                    return false;
                }
                if pkts.len() > READB_MAX {
                    self.corner(stats, "read-batch-over-limit");
                }
                for chunk in pkts.chunks(READB_MAX) {
                    let mut ok = true;
                    for p in chunk {
                        let cls = self.model.classify(self.cfg.ver, p);
                        let call = self.d.read_one(p);
                        ok = call.outcome.is_ok();
                        if self.after_call(stats, sink, call, cls) {
                            return true;
                        }
                        if !ok {
                            break;
                        }
                    }
                    let end = self.d.end_batch(ok);
                    if let BatchEnd::Dropped(b) = &end {
                        if !b.is_empty() {
                            self.corner(stats, "error-after-buffered-reply");
                        }
                    }
                    let prev = self.prev.clone();
                    if self.emit(stats, sink, Step::BatchEnd(&end), prev.as_ref()) {
                        return true;
                    }
                    if !ok {
                        // the rest of what the broker sent is never read: the network is gone
                        return self.do_fail(stats, sink);
                    }
                }
                false
            }
            Op::Fail => {
                if !self.d.connected {
                    return false;
                }
                self.do_fail(stats, sink)
            }
            Op::Reconnect(connack) => {
                if self.d.connected {
                    return false;
                }
                let Pk::ConnAck { session_present, .. } = connack else {
                    panic!("harness: reconnect without ConnAck")
                };
                let sp = *session_present;
                self.model.reconnected(sp);
                self.corner(
                    stats,
                    if sp {
                        "reconnect-session-present"
                    } else {
                        "reconnect-session-absent"
                    },
                );
                self.d.reconnect_begin(sp);
                let after = match self.take_proj(stats, sink) {
                    Ok(p) => p,
                    Err(stop) => return stop,
                };
                let stop = self.emit(stats, sink, Step::Reconnected { session_present: sp }, after.as_ref());
                self.prev = after;
                if stop {
                    return true;
                }
                if let Some(call) = self.d.reconnect_connack(connack) {
                    let ok = call.outcome.is_ok();
                    if self.after_call(stats, sink, call, InClass::Other) {
                        return true;
                    }
                    if !ok {
                        return self.do_fail(stats, sink);
                    }
                }
                self.replaying = sp && !self.d.pending.is_empty();
                if sp && self.d.pending.is_empty() {
                    // nothing was carried over: the resume obligation is trivially met
                    let prev = self.prev.clone();
                    return self.emit(stats, sink, Step::ReplayDone, prev.as_ref());
                }
                false
            }
        }
    }
}

fn bucket(n: usize) -> &'static str {
    match n {
        0 => "0",
        1 => "1",
        2..=3 => "2-3",
        4..=9 => "4-9",
        10..=99 => "10-99",
        _ => "100+",
    }
}

// ------------------------------------------------------------------ generator

/// Known-finding triggers (DESIGN.md 1.2). A trigger-free history avoids all of them; a
/// trigger history allows exactly one family.
#[derive(Clone, Copy, Debug, PartialEq, Eq, Serialize, Deserialize)]
pub enum Trigger {
    None,
    /// id re-issued while a release is pending (F12): the next id may belong to a QoS 2 flow
    /// between PUBREC and PUBCOMP
    AnyHolder,
    /// collision pending, connection lost, broker has no session (F13)
    CollisionNoSession,
    /// a client-side protocol error later in a read batch that already produced a reply (F14)
    ErrorMidBatch,
    /// v5: PUBCOMP nobody asked for while a collision waits on that id
    V5PubcompOnCollision,
    /// v5: PUBACK / PUBREC / PUBCOMP / PUBREL carrying a failure reason code where the code
    /// mishandles it
    V5FailureReason,
    /// v5: publish with an alias the broker never defined
    V5UnknownAlias,
    /// v5: receive_max lowered to at most the last allocated id / below what is carried over
    V5ReceiveMaxLowered,
}

pub const TRIGGERS_V4: &[Trigger] = &[Trigger::AnyHolder, Trigger::CollisionNoSession, Trigger::ErrorMidBatch];
pub const TRIGGERS_V5: &[Trigger] = &[
    Trigger::AnyHolder,
    Trigger::CollisionNoSession,
    Trigger::ErrorMidBatch,
    Trigger::V5PubcompOnCollision,
    Trigger::V5FailureReason,
    Trigger::V5UnknownAlias,
    Trigger::V5ReceiveMaxLowered,
];

/// Relative weights of the op families; each property stresses its own clauses
#[derive(Clone, Copy, Debug)]
pub struct Profile {
    pub publish: u32,
    pub subscribe: u32,
    pub acks: u32,
    pub inbound: u32,
    pub hostile_ack: u32,
    pub fail: u32,
    pub ping: u32,
    pub manual_ack: u32,
}

pub const PROFILE_C02: Profile = Profile {
    publish: 40,
    subscribe: 5,
    acks: 28,
    inbound: 6,
    hostile_ack: 5,
    fail: 9,
    ping: 2,
    manual_ack: 3,
};
pub const PROFILE_C07: Profile = Profile {
    publish: 44,
    subscribe: 9,
    acks: 30,
    inbound: 3,
    hostile_ack: 4,
    fail: 4,
    ping: 3,
    manual_ack: 1,
};
pub const PROFILE_C10: Profile = Profile {
    publish: 18,
    subscribe: 4,
    acks: 14,
    inbound: 40,
    hostile_ack: 9,
    fail: 3,
    ping: 3,
    manual_ack: 9,
};

const TOPICS: &[&str] = &["a", "a/b", "t/1", "é/x"];

pub struct Gen {
    pub rng: Rng,
    pub trigger: Trigger,
    pub profile: Profile,
    /// ack order of this history: 0 FIFO, 1 LIFO, 2 random, 3 skip-one
    ack_order: u8,
    next_payload: u64,
    /// inbound QoS 2 ids sent to the client on this connection, PUBREL not yet sent
    in_rel_due: Vec<u16>,
    next_in_pkid: u16,
    /// v5 aliases defined towards the client on this connection
    aliases: Vec<u16>,
    last_ack: Option<Pk>,
    pub planned_len: usize,
}

impl Gen {
    pub fn new(mut rng: Rng, trigger: Trigger, profile: Profile, payload_base: u64) -> Gen {
        let ack_order = rng.below(4) as u8;
        let planned_len = rng.range(20, 160) as usize;
        Gen {
            rng,
            trigger,
            profile,
            ack_order,
            next_payload: payload_base,
            in_rel_due: vec![],
            next_in_pkid: 1,
            aliases: vec![],
            last_ack: None,
            planned_len,
        }
    }

    fn payload(&mut self) -> String {
        self.next_payload += 1;
        format!("{}", self.next_payload)
    }

    /// the id the cyclic allocator hands out next (generator's prediction, used only to
    /// steer around triggers; never part of an oracle)
    fn predicted_next<M: Machine>(r: &Runner<M>) -> u16 {
        r.alloc_cursor.saturating_add(1)
    }

    fn connack<M: Machine>(&mut self, r: &Runner<M>, session_present: bool) -> Pk {
        let mut receive_max = None;
        let mut alias_max = None;
        if r.cfg.ver == Ver::V5 {
            if self.rng.chance(1, 3) {
                alias_max = Some(*self.rng.pick(&[0u16, 1, 5, 100]));
            }
            if self.rng.chance(1, 3) {
                // what the new limit must respect to stay trigger-free
                let carried = r.d.pending.len() as u16;
                let top_live = r.model.live.values().map(|l| l.pkid).max().unwrap_or(0);
                let floor = (r.alloc_cursor.max(top_live).saturating_add(1)).max(carried).max(1);
                if self.trigger == Trigger::V5ReceiveMaxLowered && self.rng.chance(2, 3) && r.alloc_cursor >= 1 {
                    receive_max = Some(self.rng.range(1, r.alloc_cursor.min(r.cfg.limit) as u64) as u16);
                } else if floor <= r.cfg.limit {
                    receive_max = Some(self.rng.range(floor as u64, r.cfg.limit as u64) as u16);
                }
            }
        }
        Pk::ConnAck {
            session_present,
            code: 0,
            receive_max,
            alias_max,
        }
    }

    /// the acknowledgement that correctly continues the flow of a live publish
    fn proper_ack(&mut self, ver: Ver, pkid: u16, qos: u8, phase: Phase) -> Pk {
        let _ = ver;
        match (phase, qos) {
            (Phase::Released, _) => Pk::PubComp { pkid, reason: 0 },
            (_, 1) => Pk::PubAck { pkid, reason: 0 },
            _ => Pk::PubRec { pkid, reason: 0 },
        }
    }

    fn pick_target<M: Machine>(&mut self, r: &Runner<M>) -> Option<(u16, u8, Phase, String)> {
        let mut v: Vec<_> = r
            .model
            .live
            .values()
            .filter(|l| l.phase != Phase::Parked && l.written_conn == Some(r.d.conn))
            .collect();
        if v.is_empty() {
            return None;
        }
        v.sort_by_key(|l| l.order);
        let i = match self.ack_order {
            0 => 0,
            1 => v.len() - 1,
            2 => self.rng.below(v.len() as u64) as usize,
            _ => 1.min(v.len() - 1),
        };
        // a mostly-ordered history still needs disorder now and then
        let i = if self.rng.chance(1, 6) {
            self.rng.below(v.len() as u64) as usize
        } else {
            i
        };
        let l = v[i];
        Some((l.pkid, l.qos, l.phase, l.pid.clone()))
    }

    /// acknowledgements for up to `n` live publishes
    fn acks<M: Machine>(&mut self, r: &Runner<M>, n: usize) -> Vec<Pk> {
        let ver = r.cfg.ver;
        let mut out: Vec<Pk> = vec![];
        let mut used: Vec<(u16, Phase)> = vec![];
        let parked_id = r.model.parked().map(|l| l.pkid);
        for _ in 0..n {
            let Some((pkid, qos, phase, _)) = self.pick_target(r) else {
                break;
            };
            if used.contains(&(pkid, phase)) {
                continue;
            }
            used.push((pkid, phase));
            let mut ack = self.proper_ack(ver, pkid, qos, phase);
            let is_holder = parked_id == Some(pkid);
            // wrong kind the client may accept: PUBACK for a QoS 2 id, PUBREC for a QoS 1 id
            if phase == Phase::Sent && self.rng.chance(1, 14) {
                let to_rec = qos == 1;
                let _ = is_holder;
                ack = if to_rec {
                    Pk::PubRec { pkid, reason: 0 }
                } else {
                    Pk::PubAck { pkid, reason: 0 }
                };
            }
            // v5 reason codes
            if ver == Ver::V5 && self.rng.chance(1, 8) {
                let code = *self.rng.pick(&[0x10u8, 0x80, 0x87, 0x97]);
                match &mut ack {
                    Pk::PubAck { reason, .. } => {
                        // a failing PUBACK on a collision holder strands the collision
                        if code < 0x80 || !is_holder || self.trigger == Trigger::V5FailureReason {
                            *reason = code;
                        }
                    }
                    Pk::PubRec { reason, .. } => {
                        if code < 0x80 || self.trigger == Trigger::V5FailureReason {
                            *reason = code;
                        }
                    }
                    Pk::PubComp { reason, .. } => {
                        if self.trigger == Trigger::V5FailureReason {
                            *reason = 0x92;
                        }
                    }
                    _ => {}
                }
            }
            // F12 steering: the holder of a parked publish goes from PUBREC to PUBCOMP in one read,
            // so that no connection loss can fall between the two
            let pair = is_holder && self.trigger != Trigger::AnyHolder && matches!(ack, Pk::PubRec { reason, .. } if reason < 0x80);
            out.push(ack);
            if pair {
                out.push(Pk::PubComp { pkid, reason: 0 });
            }
        }
        if let Some(a) = out.last() {
            self.last_ack = Some(a.clone());
        }
        out
    }

    /// an acknowledgement nothing solicited
    fn hostile_ack<M: Machine>(&mut self, r: &Runner<M>) -> Pk {
        let ver = r.cfg.ver;
        let limit = r.cfg.limit;
        let parked_id = r.model.parked().map(|l| l.pkid);
        // a second PUBREC for a flow that is already released
        if self.rng.chance(1, 6) {
            if let Some(l) = r
                .model
                .live
                .values()
                .find(|l| l.phase == Phase::Released && l.written_conn == Some(r.d.conn))
            {
                return Pk::PubRec { pkid: l.pkid, reason: 0 };
            }
        }
        for _ in 0..8 {
            let pkid = match self.rng.below(7) {
                0 => 0,
                1 => limit.saturating_add(1),
                2 => 65535,
                3 => self.rng.range(1, limit as u64) as u16,
                4 => r.last_alloc,
                _ => match &self.last_ack {
                    Some(a) => a.pkid(),
                    None => self.rng.range(1, limit as u64) as u16,
                },
            };
            let p = match self.rng.below(3) {
                0 => Pk::PubAck { pkid, reason: 0 },
                1 => Pk::PubRec { pkid, reason: 0 },
                _ => Pk::PubComp { pkid, reason: 0 },
            };
            if r.model.classify(ver, &p) != InClass::AckUnsolicited {
                // PUBCOMP before PUBREC for a live id: the wrong-kind case of the workload
                if let Some(l) = r.model.live.values().find(|l| l.phase == Phase::Sent) {
                    let q = Pk::PubComp { pkid: l.pkid, reason: 0 };
                    if ver == Ver::V5 && parked_id == Some(l.pkid) && self.trigger != Trigger::V5PubcompOnCollision {
                        continue;
                    }
                    return q;
                }
                continue;
            }
            if ver == Ver::V5
                && matches!(p, Pk::PubComp { .. })
                && parked_id == Some(pkid)
                && self.trigger != Trigger::V5PubcompOnCollision
            {
                continue;
            }
            return p;
        }
        Pk::PubAck { pkid: 0, reason: 0 }
    }

    /// broker-originated traffic: publishes QoS 0-2, releases, SUBACKs, PINGRESP, stray packets
    fn inbound<M: Machine>(&mut self, r: &Runner<M>, n: usize) -> Vec<Pk> {
        let ver = r.cfg.ver;
        let mut out = vec![];
        for _ in 0..n {
            let w = self.rng.weighted(&[30, 16, 6, 4, 4, 2, 2]);
            match w {
                0 => {
                    let qos = self.rng.below(3) as u8;
                    let pkid = if qos == 0 {
                        0
                    } else {
                        let id = match self.rng.below(10) {
                            0 => 65535,
                            1 => r.cfg.limit.saturating_add(1),
                            2 => self.in_rel_due.first().copied().unwrap_or(1), // repeated id
                            _ => {
                                self.next_in_pkid = self.next_in_pkid % 40 + 1;
                                self.next_in_pkid
                            }
                        };
                        id.max(1)
                    };
                    let mut topic = (*self.rng.pick(TOPICS)).to_owned();
                    let mut alias = None;
                    if ver == Ver::V5 && self.rng.chance(1, 4) {
                        // which aliases are defined when this packet is read is settled in
                        // sanitize_batch (a defining publish may be cut from the batch)
                        if self.rng.chance(1, 2) {
                            alias = Some(self.rng.range(1, 5) as u16);
                            topic = String::new();
                        } else if self.trigger == Trigger::V5UnknownAlias && self.rng.chance(1, 2) {
                            alias = Some(*self.rng.pick(&[0u16, 77, 65535]));
                            topic = String::new();
                        } else {
                            alias = Some(self.rng.range(1, 5) as u16);
                        }
                    }
                    let payload = format!("in{}", self.payload());
                    if qos == 2 && !self.in_rel_due.contains(&pkid) {
                        self.in_rel_due.push(pkid);
                    }
                    out.push(Pk::Publish {
                        pkid,
                        qos,
                        topic,
                        payload,
                        dup: self.rng.chance(1, 10),
                        retain: self.rng.chance(1, 10),
                        alias,
                    });
                }
                1 => {
                    // release of a known id (mostly), sometimes unknown / repeated
                    let known = !self.in_rel_due.is_empty() && !self.rng.chance(1, 8);
                    let pkid = if known {
                        let i = self.rng.below(self.in_rel_due.len() as u64) as usize;
                        self.in_rel_due.remove(i)
                    } else {
                        self.rng.range(41, 60) as u16
                    };
                    let reason = if ver == Ver::V5 && self.trigger == Trigger::V5FailureReason && self.rng.chance(1, 3) {
                        0x92
                    } else {
                        0
                    };
                    out.push(Pk::PubRel { pkid, reason });
                }
                2 => out.push(Pk::SubAck {
                    pkid: self.rng.range(0, r.cfg.limit.min(200) as u64 + 1) as u16,
                    codes: vec![*self.rng.pick(&[0u8, 1, 2, 0x80])],
                }),
                3 => out.push(Pk::UnsubAck {
                    pkid: self.rng.range(0, r.cfg.limit.min(200) as u64 + 1) as u16,
                }),
                4 => out.push(Pk::PingResp),
                5 => out.push(match self.rng.below(3) {
                    // packets a broker has no business sending
                    0 => Pk::Other("client-only".into()),
                    1 => Pk::Subscribe {
                        pkid: 3,
                        filters: vec![("a".into(), 0)],
                    },
                    _ => Pk::PingReq,
                }),
                _ => out.push(if self.rng.chance(1, 2) {
                    Pk::Disconnect {
                        reason: *self.rng.pick(&[0u8, 0x8B, 0x82]),
                    }
                } else {
                    // CONNACK in mid-session (no receive_max: that is the reconnect workload)
                    Pk::ConnAck {
                        session_present: false,
                        code: 0,
                        receive_max: None,
                        alias_max: None,
                    }
                }),
            }
        }
        out
    }

    /// does the code under test answer this broker packet with a packet of its own?
    fn replies<M: Machine>(r: &Runner<M>, model: &MClient, p: &Pk) -> bool {
        match p {
            Pk::Publish { qos, .. } => *qos > 0 && !r.cfg.manual,
            Pk::PubRel { .. } => true,
            Pk::PubRec { .. } => true,
            Pk::PubAck { pkid, .. } | Pk::PubComp { pkid, .. } => model.parked().map(|l| l.pkid) == Some(*pkid),
            _ => false,
        }
    }

    /// would the client raise an error on this packet (and drop the connection)?
    fn provokes_error<M: Machine>(r: &Runner<M>, p: &Pk) -> bool {
        match p {
            Pk::PubAck { .. } | Pk::PubRec { .. } | Pk::PubComp { .. } => {
                matches!(r.model.classify(r.cfg.ver, p), InClass::AckUnsolicited | InClass::AckRepeatedRec)
            }
            Pk::PubRel { .. } => r.model.classify(r.cfg.ver, p) == InClass::RelUnknown,
            Pk::Disconnect { .. } | Pk::Other(_) | Pk::Subscribe { .. } | Pk::PingReq => true,
            Pk::ConnAck { .. } => r.cfg.ver == Ver::V4,
            _ => false,
        }
    }

    /// Trigger F14 away: nothing that is answered may precede, in one read batch, a packet the
    /// client answers with an error. (Classification uses the model before the batch; a
    /// packet whose class depends on an earlier packet of the same batch is kept out.)
    fn sanitize_batch<M: Machine>(&mut self, r: &Runner<M>, pkts: Vec<Pk>) -> Vec<Pk> {
        let mut pkts: Vec<Pk> = pkts.into_iter().map(|p| p.for_version(r.cfg.ver)).collect();
        // topic aliases: a publish with an empty topic may only use an alias a previous publish
        // that is really fed has defined on this connection
        let mut defined = self.aliases.clone();
        let allow_unknown = self.trigger == Trigger::V5UnknownAlias;
        pkts.retain(|p| match p {
            Pk::Publish { alias: Some(a), topic, .. } if topic.is_empty() => defined.contains(a) || allow_unknown,
            Pk::Publish { alias: Some(a), .. } => {
                if !defined.contains(a) {
                    defined.push(*a);
                }
                true
            }
            _ => true,
        });
        if self.trigger == Trigger::ErrorMidBatch {
            return pkts;
        }
        let mut out = vec![];
        let mut chunk_has_reply = false;
        let mut seen_rel: Vec<u16> = vec![];
        let mut seen_pub2: Vec<u16> = vec![];
        let mut seen_rec: Vec<u16> = vec![];
        for p in pkts.drain(..) {
            if out.len() % READB_MAX == 0 {
                chunk_has_reply = false;
            }
            let mut err = Self::provokes_error(r, &p);
            // a PUBCOMP right behind the PUBREC of the same flow is solicited by then
            if let Pk::PubRec { pkid, reason } = &p {
                if !err && *reason < 0x80 {
                    seen_rec.push(*pkid);
                }
            }
            if let Pk::PubComp { pkid, .. } = &p {
                if let Some(i) = seen_rec.iter().position(|x| x == pkid) {
                    seen_rec.remove(i);
                    err = false;
                }
            }
            // releases inside the batch: known iff the publish is earlier in the same batch
            if let Pk::PubRel { pkid, .. } = &p {
                if seen_pub2.contains(pkid) && !seen_rel.contains(pkid) {
                    err = false;
                } else if seen_rel.contains(pkid) {
                    err = true;
                }
                seen_rel.push(*pkid);
            }
            if let Pk::Publish { pkid, qos: 2, .. } = &p {
                seen_pub2.push(*pkid);
                seen_rel.retain(|x| x != pkid);
            }
            if err {
                if chunk_has_reply {
                    continue; // drop it: it would be the F14 trigger
                }
                out.push(p);
                break; // nothing after an error packet is ever read
            }
            if Self::replies(r, &r.model, &p) {
                chunk_has_reply = true;
            }
            out.push(p);
        }
        for p in &out {
            if let Pk::Publish { alias: Some(a), topic, .. } = p {
                if !topic.is_empty() && !self.aliases.contains(a) {
                    self.aliases.push(*a);
                }
            }
        }
        out
    }

    /// Next op of a random history, or None when the history is over / cannot progress.
    pub fn next<M: Machine>(&mut self, r: &mut Runner<M>) -> Option<Op> {
        let ver = r.cfg.ver;
        if !r.d.connected {
            self.in_rel_due.clear();
            self.aliases.clear();
            let parked = r.d.st.collision().is_some();
            let sp = if parked && self.trigger != Trigger::CollisionNoSession {
                true
            } else if parked {
                self.rng.chance(1, 3)
            } else {
                self.rng.chance(3, 4)
            };
            return Some(Op::Reconnect(self.connack(r, sp)));
        }
        if !r.d.pending.is_empty() {
            // the event loop replays before anything else (unless a collision is parked: then
            // only the broker can move things on); the broker may talk meanwhile
            let blocked = r.d.st.collision().is_some();
            if blocked || self.rng.chance(1, 8) {
                let acks = self.acks(r, 1);
                if !acks.is_empty() {
                    let b = self.sanitize_batch(r, acks);
                    if !b.is_empty() {
                        return Some(Op::Batch(b));
                    }
                }
            }
            if self.rng.chance(1, 40) {
                return Some(Op::Fail);
            }
            return Some(Op::Replay);
        }
        // steer around F12: a publish parked behind a flow that is already released must not be
        // carried over a connection loss (it would be replayed before the PUBREL and take the id)
        if self.trigger != Trigger::AnyHolder {
            if let Some(pk) = r.model.parked().map(|l| l.pkid) {
                if let Some(h) = r.model.holder(pk) {
                    if h.phase == Phase::Released && h.written_conn == Some(r.d.conn) {
                        return Some(Op::Batch(vec![Pk::PubComp { pkid: pk, reason: 0 }]));
                    }
                }
            }
        }
        let p = self.profile;
        let gate = r.d.gate_open();
        let has_live = r.model.live.values().any(|l| l.phase != Phase::Parked && l.written_conn == Some(r.d.conn));
        let can_manual = r.cfg.manual && !r.model.in_unacked.is_empty();
        for _ in 0..12 {
            let w = self.rng.weighted(&[
                if gate { p.publish } else { p.publish / 8 },
                if gate { p.subscribe } else { 0 },
                if has_live { if gate { p.acks } else { p.acks * 3 } } else { 0 },
                p.inbound,
                p.hostile_ack,
                p.fail,
                p.ping,
                if can_manual { p.manual_ack * 4 } else { 0 },
            ]);
            match w {
                0 => {
                    let qos = self.rng.weighted(&[2, 5, 4]) as u8;
                    if qos > 0 && gate && self.trigger != Trigger::AnyHolder {
                        // steer around F12: the id about to be issued must not belong to a QoS 2
                        // flow between PUBREC and PUBCOMP (a publish still waiting for its first
                        // acknowledgement is fine: the new one is parked behind it)
                        let k = Self::predicted_next(r);
                        if let Some(h) = r.model.holder(k) {
                            if h.phase != Phase::Sent {
                                if h.written_conn != Some(r.d.conn) {
                                    continue;
                                }
                                let ack = self.proper_ack(ver, h.pkid, h.qos, h.phase);
                                return Some(Op::Batch(vec![ack]));
                            }
                        }
                    }
                    let topic = *self.rng.pick(TOPICS);
                    let payload = self.payload();
                    let mut pk = Pk::publish(qos, topic, &payload);
                    if let Pk::Publish { retain, .. } = &mut pk {
                        *retain = self.rng.chance(1, 10);
                    }
                    return Some(Op::Req(pk));
                }
                1 => {
                    return Some(Op::Req(if self.rng.chance(2, 3) {
                        Pk::Subscribe {
                            pkid: 0,
                            filters: (0..self.rng.range(1, 3))
                                .map(|_| ((*self.rng.pick(&["a/#", "+/b", "t/1"])).to_owned(), self.rng.below(3) as u8))
                                .collect(),
                        }
                    } else {
                        Pk::Unsubscribe {
                            pkid: 0,
                            filters: vec![(*self.rng.pick(&["a/#", "nope"])).to_owned()],
                        }
                    }));
                }
                2 => {
                    let n = match self.rng.below(6) {
                        0 => self.rng.range(2, 12) as usize,
                        1 => 2,
                        _ => 1,
                    };
                    let mut b = self.acks(r, n);
                    // acknowledgements and broker traffic share read batches
                    if self.rng.chance(1, 4) {
                        let k = self.rng.range(1, 3) as usize;
                        let extra = self.inbound(r, k);
                        for e in extra {
                            let at = self.rng.below(b.len() as u64 + 1) as usize;
                            b.insert(at, e);
                        }
                    }
                    let b = self.sanitize_batch(r, b);
                    if b.is_empty() {
                        continue;
                    }
                    return Some(Op::Batch(b));
                }
                3 => {
                    let n = match self.rng.below(8) {
                        0 => 0,
                        1 => self.rng.range(9, 12) as usize,
                        2 => self.rng.range(4, 8) as usize,
                        _ => self.rng.range(1, 3) as usize,
                    };
                    let b = self.inbound(r, n);
                    let b = self.sanitize_batch(r, b);
                    return Some(Op::Batch(b));
                }
                4 => {
                    let h = self.hostile_ack(r);
                    let mut b = vec![];
                    if self.trigger == Trigger::ErrorMidBatch || self.rng.chance(1, 2) {
                        let k = self.rng.range(0, 3) as usize;
                        b = self.inbound(r, k);
                    }
                    b.push(h);
                    let b = self.sanitize_batch(r, b);
                    if b.is_empty() {
                        continue;
                    }
                    return Some(Op::Batch(b));
                }
                5 => return Some(Op::Fail),
                6 => return Some(Op::Ping),
                _ => {
                    let v: Vec<_> = r.model.in_unacked.iter().cloned().collect();
                    let (pkid, qos) = *self.rng.pick(&v);
                    return Some(Op::Req(if qos == 1 {
                        Pk::PubAck { pkid, reason: 0 }
                    } else {
                        Pk::PubRec { pkid, reason: 0 }
                    }));
                }
            }
        }
        None
    }
}

// ------------------------------------------------------------------ directed scenarios

fn q(qos: u8, payload: &str) -> Op {
    Op::Req(Pk::publish(qos, "d/t", payload))
}
fn ack(pkid: u16) -> Pk {
    Pk::PubAck { pkid, reason: 0 }
}
fn rec(pkid: u16) -> Pk {
    Pk::PubRec { pkid, reason: 0 }
}
fn comp(pkid: u16) -> Pk {
    Pk::PubComp { pkid, reason: 0 }
}
fn b(p: Vec<Pk>) -> Op {
    Op::Batch(p)
}
fn connack(sp: bool, rm: Option<u16>, am: Option<u16>) -> Pk {
    Pk::ConnAck {
        session_present: sp,
        code: 0,
        receive_max: rm,
        alias_max: am,
    }
}
fn inpub(qos: u8, pkid: u16, topic: &str, alias: Option<u16>, payload: &str) -> Pk {
    Pk::Publish {
        pkid,
        qos,
        topic: topic.into(),
        payload: payload.into(),
        dup: false,
        retain: false,
        alias,
    }
}

pub struct Directed {
    pub name: &'static str,
    pub cfg: Cfg,
    pub ops: Vec<Op>,
    /// the scenario is the minimal history of a defect listed in DESIGN.md section 4
    pub is_trigger: bool,
}

/// Scenarios that force the corner states named in DESIGN.md (section 3 C02/C07/C10 and
/// Appendix C) so that no run can "observe nothing".
pub fn directed(ver: Ver) -> Vec<Directed> {
    let cfg = |limit: u16, manual: bool| Cfg {
        ver,
        limit,
        manual,
        light: false,
    };
    let mut v = vec![];
    // wrap-around collision resolved by PUBACK, then normal life goes on
    v.push(Directed {
        name: "collision-resolved-by-puback",
        cfg: cfg(2, false),
        ops: vec![
            q(1, "A"),
            q(1, "B"),
            b(vec![ack(2)]),
            q(1, "C"), // id 1 again: parked behind A
            q(1, "never-taken"),
            b(vec![ack(1)]), // A done, C written
            b(vec![ack(1)]), // C done
            q(1, "D"),
            b(vec![ack(2)]),
        ],
        is_trigger: false,
    });
    // the same collision, pending across a connection loss, session present
    v.push(Directed {
        name: "collision-pending-across-clean",
        cfg: cfg(2, false),
        ops: vec![
            q(1, "A"),
            q(1, "B"),
            b(vec![ack(2)]),
            q(1, "C"),
            Op::Fail,
            Op::Reconnect(connack(true, None, None)),
            Op::Replay,
            Op::Replay, // the parked publish, if clean() carries it over
            b(vec![ack(1)]),
            b(vec![ack(1)]),
        ],
        is_trigger: false,
    });
    // QoS 2 flow with a loss between PUBREC and PUBCOMP: the release must be replayed
    v.push(Directed {
        name: "release-replayed",
        cfg: cfg(5, false),
        ops: vec![
            q(2, "A"),
            q(1, "B"),
            q(2, "C"),
            b(vec![rec(1)]),
            Op::Fail,
            Op::Reconnect(connack(true, None, None)),
            Op::Replay,
            Op::Replay,
            Op::Replay,
            b(vec![comp(1), ack(2), rec(3)]),
            b(vec![comp(3)]),
        ],
        is_trigger: false,
    });
    // connection loss, broker lost the session: nothing is replayed, life goes on
    v.push(Directed {
        name: "session-absent",
        cfg: cfg(3, false),
        ops: vec![
            q(1, "A"),
            q(2, "B"),
            Op::Fail,
            Op::Reconnect(connack(false, None, None)),
            q(1, "C"),
            b(vec![ack(3)]),
        ],
        is_trigger: false,
    });
    // limit 1: every publish waits for the previous ack
    v.push(Directed {
        name: "limit-1",
        cfg: cfg(1, false),
        ops: vec![
            q(1, "A"),
            q(1, "blocked"),
            b(vec![ack(1)]),
            q(2, "B"),
            q(1, "blocked2"),
            b(vec![rec(1)]),
            q(1, "blocked3"),
            b(vec![comp(1)]),
            q(1, "C"),
            b(vec![ack(1)]),
        ],
        is_trigger: false,
    });
    // unsolicited acknowledgements of every kind on an idle and on a busy state
    v.push(Directed {
        name: "unsolicited-acks",
        cfg: cfg(5, false),
        ops: vec![
            b(vec![ack(1)]),
            Op::Reconnect(connack(true, None, None)),
            q(1, "A"),
            q(2, "B"),
            b(vec![comp(2)]), // PUBCOMP before PUBREC
            Op::Reconnect(connack(true, None, None)),
            Op::Replay,
            Op::Replay,
            b(vec![rec(9)]),
            Op::Reconnect(connack(true, None, None)),
            Op::Replay,
            Op::Replay,
            b(vec![ack(0)]),
            Op::Reconnect(connack(true, None, None)),
            Op::Replay,
            Op::Replay,
            b(vec![ack(1), rec(2)]),
            b(vec![rec(2)]), // repeated PUBREC
            Op::Reconnect(connack(true, None, None)),
            Op::Replay,
            b(vec![comp(2)]),
            b(vec![comp(2)]), // repeated PUBCOMP
        ],
        is_trigger: false,
    });
    // inbound flows, auto-ack: QoS 0/1/2, release, 12 packets in one read
    v.push(Directed {
        name: "inbound-auto",
        cfg: cfg(10, false),
        ops: vec![
            b(vec![inpub(0, 0, "a", None, "i1"), inpub(1, 7, "a", None, "i2"), inpub(2, 8, "a", None, "i3")]),
            b(vec![Pk::PubRel { pkid: 8, reason: 0 }]),
            b(vec![]),
            b((0..12).map(|i| inpub(1, 100 + i, "a/b", None, &format!("i{}", 10 + i))).collect()),
            b(vec![Pk::PingResp, Pk::SubAck { pkid: 4, codes: vec![1] }, Pk::UnsubAck { pkid: 5 }]),
        ],
        is_trigger: false,
    });
    // inbound flows, manual acks
    v.push(Directed {
        name: "inbound-manual",
        cfg: cfg(10, true),
        ops: vec![
            b(vec![inpub(1, 7, "a", None, "i1"), inpub(2, 8, "a", None, "i2")]),
            Op::Req(Pk::PubAck { pkid: 7, reason: 0 }),
            Op::Req(Pk::PubRec { pkid: 8, reason: 0 }),
            b(vec![Pk::PubRel { pkid: 8, reason: 0 }]),
        ],
        is_trigger: false,
    });
    // ---- minimal histories of the defects listed in DESIGN.md section 4
    v.push(Directed {
        name: "F11-collision-released-by-pubcomp",
        cfg: cfg(2, false),
        ops: vec![
            q(2, "A"),
            q(1, "B"),
            b(vec![ack(2)]),
            q(1, "C"),
            b(vec![rec(1)]),
            b(vec![comp(1)]),
            b(vec![ack(1)]),
        ],
        is_trigger: true,
    });
    v.push(Directed {
        name: "F12-id-reissued-before-pubcomp",
        cfg: cfg(2, false),
        ops: vec![q(2, "A"), b(vec![rec(1)]), q(1, "B"), b(vec![ack(2)]), q(1, "C")],
        is_trigger: true,
    });
    v.push(Directed {
        name: "F13-collision-survives-lost-session",
        cfg: cfg(2, false),
        ops: vec![
            q(1, "A"),
            q(1, "B"),
            b(vec![ack(2)]),
            q(1, "C"),
            Op::Fail,
            Op::Reconnect(connack(false, None, None)),
        ],
        is_trigger: true,
    });
    v.push(Directed {
        name: "F14-reply-announced-then-dropped",
        cfg: cfg(10, false),
        ops: vec![b(vec![inpub(1, 5, "a", None, "i1"), ack(2)])],
        is_trigger: true,
    });
    if ver == Ver::V5 {
        let collide = || vec![q(1, "A"), q(1, "B"), b(vec![ack(2)]), q(1, "C")];
        let mut ops = collide();
        ops.push(b(vec![comp(1)]));
        v.push(Directed {
            name: "v5-unsolicited-pubcomp-eats-collision",
            cfg: cfg(2, false),
            ops,
            is_trigger: true,
        });
        let mut ops = collide();
        ops.push(b(vec![Pk::PubAck { pkid: 1, reason: 0x87 }]));
        v.push(Directed {
            name: "v5-failing-puback-strands-collision",
            cfg: cfg(2, false),
            ops,
            is_trigger: true,
        });
        v.push(Directed {
            name: "v5-failing-pubrec-leaks-inflight",
            cfg: cfg(3, false),
            ops: vec![q(2, "A"), b(vec![Pk::PubRec { pkid: 1, reason: 0x97 }])],
            is_trigger: true,
        });
        v.push(Directed {
            name: "v5-failing-pubcomp-leaks-inflight",
            cfg: cfg(3, false),
            ops: vec![q(2, "A"), b(vec![rec(1)]), b(vec![Pk::PubComp { pkid: 1, reason: 0x92 }])],
            is_trigger: true,
        });
        v.push(Directed {
            name: "v5-failing-pubcomp-drops-collision",
            cfg: cfg(2, false),
            ops: vec![
                q(2, "A"),
                q(1, "B"),
                b(vec![ack(2)]),
                q(1, "C"),
                b(vec![rec(1)]),
                b(vec![Pk::PubComp { pkid: 1, reason: 0x92 }]),
            ],
            is_trigger: true,
        });
        v.push(Directed {
            name: "v5-failing-pubrec-strands-collision",
            cfg: cfg(2, false),
            ops: vec![
                q(2, "A"),
                q(1, "B"),
                b(vec![ack(2)]),
                q(1, "C"),
                b(vec![Pk::PubRec { pkid: 1, reason: 0x80 }]),
            ],
            is_trigger: true,
        });
        v.push(Directed {
            name: "v5-unknown-topic-alias",
            cfg: cfg(3, false),
            ops: vec![
                Op::Connack0(connack(false, None, Some(10))),
                b(vec![inpub(1, 4, "", Some(9), "i1")]),
            ],
            is_trigger: true,
        });
        v.push(Directed {
            name: "v5-failing-pubrel-unanswered",
            cfg: cfg(3, false),
            ops: vec![b(vec![inpub(2, 4, "a", None, "i1")]), b(vec![Pk::PubRel { pkid: 4, reason: 0x92 }])],
            is_trigger: true,
        });
        v.push(Directed {
            name: "v5-receive-max-lowered-below-last-id",
            cfg: cfg(10, false),
            ops: vec![
                Op::Connack0(connack(false, Some(8), None)),
                q(1, "A"),
                q(1, "B"),
                q(1, "C"),
                b(vec![ack(1), ack(2), ack(3)]),
                Op::Fail,
                Op::Reconnect(connack(true, Some(2), None)),
                q(1, "D"),
            ],
            is_trigger: true,
        });
        // trigger-free MQTT 5 specifics: known alias, receive_max negotiated down, benign codes
        v.push(Directed {
            name: "v5-alias-and-receive-max",
            cfg: cfg(10, false),
            ops: vec![
                Op::Connack0(connack(false, Some(2), Some(10))),
                q(1, "A"),
                q(1, "B"),
                q(1, "not-taken"),
                b(vec![Pk::PubAck { pkid: 1, reason: 0x10 }]),
                q(1, "C"),
                b(vec![Pk::PubAck { pkid: 2, reason: 0x87 }, ack(1)]),
                b(vec![inpub(1, 4, "a/b", Some(3), "i1"), inpub(1, 5, "", Some(3), "i2")]),
            ],
            is_trigger: false,
        });
    }
    v
}

/// Packet-id wrap-around at the largest limit (65535 publishes), light mode except around the
/// wrap.
fn big_wrap_ops() -> Vec<Op> {
    let mut ops = vec![];
    for i in 0..65534u32 {
        ops.push(q(1, &format!("w{i}")));
        ops.push(b(vec![ack((i + 1) as u16)]));
    }
    // ids 65535, then 1 again
    ops.push(q(1, "last"));
    ops.push(q(2, "first-again"));
    ops.push(b(vec![ack(65535), rec(1)]));
    ops.push(b(vec![comp(1)]));
    ops
}

// ------------------------------------------------------------------ running histories

pub struct HistoryOutcome {
    pub ops: Vec<Op>,
    pub corners: Vec<&'static str>,
    pub stopped_by_record: bool,
    pub trace: Vec<String>,
}

fn replay_doc(cfg: &Cfg, ops: &[Op], name: &str, trigger: Trigger) -> Value {
    json!({ "substrate": "S2", "cfg": cfg, "scenario": name, "trigger": trigger, "ops": ops })
}

/// the sink shared by random, directed and replayed histories: own-family records are judged;
/// foreign-family records only end the history when they are known findings
fn make_sink<'a>(
    ctx: &'a Ctx,
    family: &'a str,
    cfg: Cfg,
    ops: &'a std::cell::RefCell<Vec<Op>>,
    name: &'a str,
    trigger: Trigger,
    stopped: &'a std::cell::Cell<bool>,
) -> impl FnMut(&mut Stats, Vec<Record>) -> bool + 'a {
    move |stats: &mut Stats, mut recs: Vec<Record>| {
        // own family first (stable within a family)
        recs.sort_by_key(|r| r.property != family);
        for r in recs {
            if r.property == family {
                let doc = || replay_doc(&cfg, &ops.borrow(), name, trigger);
                match judge(ctx, stats, r, doc) {
                    Judged::Known(id) => {
                        if trigger == Trigger::None && name == "random" {
                            stats.add_extra(&format!("trigger_free_history_hit_known:{id}"), 1);
                        }
                        stopped.set(true);
                        return true;
                    }
                    Judged::Violation => {
                        stopped.set(true);
                        return true;
                    }
                }
            } else if let Some(k) = crate::common::match_known(&ctx.known, &r) {
                // another property's known defect: the state may be corrupted from here on
                if trigger == Trigger::None && name == "random" {
                    stats.add_extra(&format!("trigger_free_history_hit_known:{}", k.id), 1);
                }
                let _ = judge(ctx, stats, r, || Value::Null);
                stopped.set(true);
                return true;
            } else {
                stats.add_extra(&format!("foreign_family_record_not_judged_here:{}/{}", r.property, r.oracle), 1);
            }
        }
        false
    }
}

fn shape_hash(cfg: &Cfg, ops: &[Op]) -> u64 {
    let mut s = format!("{}|{}|{}", cfg.ver.name(), cfg.limit, cfg.manual);
    for op in ops {
        s.push('|');
        s.push_str(op.kind());
        if let Op::Batch(v) = op {
            for p in v {
                s.push(',');
                s.push_str(p.kind());
                if p.reason() >= 0x80 {
                    s.push('!');
                }
            }
        }
    }
    fnv(s.as_bytes())
}

fn run_ops<M: Machine>(
    ctx: &Ctx,
    family: &str,
    stats: &mut Stats,
    cfg: Cfg,
    name: &str,
    ops_in: &[Op],
    trigger: Trigger,
    want_trace: bool,
) -> HistoryOutcome {
    let ops = std::cell::RefCell::new(Vec::new());
    let stopped = std::cell::Cell::new(false);
    let mut r = Runner::<M>::new(cfg);
    let mut trace = vec![];
    {
        let mut sink = make_sink(ctx, family, cfg, &ops, name, trigger, &stopped);
        for op in ops_in {
            ops.borrow_mut().push(op.clone());
            if want_trace {
                trace.push(op.show());
            }
            if r.exec(op, stats, &mut sink) {
                break;
            }
        }
    }
    stats.evaluations += 1;
    if !r.corners.is_empty() {
        stats.shapes.insert(shape_hash(&cfg, &ops.borrow()));
    }
    stats.add_extra("state_machine_calls", r.d.calls);
    HistoryOutcome {
        ops: ops.into_inner(),
        corners: r.corners.clone(),
        stopped_by_record: stopped.get(),
        trace,
    }
}

fn run_random<M: Machine>(
    ctx: &Ctx,
    family: &str,
    stats: &mut Stats,
    cfg: Cfg,
    rng: Rng,
    trigger: Trigger,
    profile: Profile,
    payload_base: u64,
    want_sample: bool,
) {
    let ops = std::cell::RefCell::new(Vec::new());
    let stopped = std::cell::Cell::new(false);
    let mut r = Runner::<M>::new(cfg);
    let mut gen = Gen::new(rng, trigger, profile, payload_base);
    {
        let mut sink = make_sink(ctx, family, cfg, &ops, "random", trigger, &stopped);
        if cfg.ver == Ver::V5 && gen.rng.chance(1, 2) {
            let rm = if gen.rng.chance(1, 2) {
                Some(gen.rng.range(1, cfg.limit as u64) as u16)
            } else {
                None
            };
            let am = Some(*gen.rng.pick(&[0u16, 5, 100]));
            let op = Op::Connack0(connack(false, rm, am));
            ops.borrow_mut().push(op.clone());
            if r.exec(&op, stats, &mut sink) {
                stopped.set(true);
            }
        }
        while !stopped.get() && ops.borrow().len() < gen.planned_len {
            let Some(op) = gen.next(&mut r) else {
                r.stuck = true;
                stats.add_extra("histories_ended_without_progress", 1);
                break;
            };
            ops.borrow_mut().push(op.clone());
            if r.exec(&op, stats, &mut sink) {
                break;
            }
        }
    }
    stats.evaluations += 1;
    let ops = ops.into_inner();
    if !r.corners.is_empty() {
        stats.shapes.insert(shape_hash(&cfg, &ops));
    }
    stats.add_extra("state_machine_calls", r.d.calls);
    stats.add_extra("publishes_no_longer_owed_session_absent", r.model.dropped_no_session);
    if want_sample {
        stats.sample(json!({
            "kind": "random", "cfg": cfg, "trigger": trigger,
            "ops": ops.iter().map(|o| o.show()).collect::<Vec<_>>(),
            "corners": r.corners,
            "ended_by_record": stopped.get(),
            "live_at_end": r.model.live.len(),
        }));
    }
}

pub const LIMITS: &[u16] = &[1, 2, 3, 5, 10, 100, 65535];

fn pick_cfg(rng: &mut Rng, ver: Ver, manual_share: u64) -> Cfg {
    // small limits wrap and collide; 65535 is covered by the directed wrap and a few light runs
    let limit = LIMITS[rng.weighted(&[12, 22, 22, 18, 14, 10, 2])];
    Cfg {
        ver,
        limit,
        manual: rng.below(100) < manual_share,
        light: limit == 65535,
    }
}

fn run_shard(ctx: &Ctx, family: &str, profile: Profile, n_random: u64, shard: usize, seed: u64) -> Stats {
    let mut stats = Stats::default();
    let mut rng = Rng::new(seed);
    let manual_share = if family == "C10" { 40 } else { 12 };
    // directed scenarios: every shard 0 of every run, both versions
    if shard == 0 {
        for ver in [Ver::V4, Ver::V5] {
            for d in directed(ver) {
                let out = match ver {
                    Ver::V4 => run_ops::<V4State>(ctx, family, &mut stats, d.cfg, d.name, &d.ops, Trigger::None, true),
                    Ver::V5 => run_ops::<V5State>(ctx, family, &mut stats, d.cfg, d.name, &d.ops, Trigger::None, true),
                };
                stats.add_extra("directed_scenarios", 1);
                if !d.is_trigger && out.stopped_by_record {
                    // a trigger-free scenario ended on a record: either a violation (already
                    // kept) or a known finding where none was expected – say so
                    stats.add_extra("directed_trigger_free_scenarios_ended_by_record", 1);
                }
                if ver == Ver::V4 && d.name == "collision-resolved-by-puback" {
                    stats.sample(json!({
                        "kind": "directed", "name": d.name, "cfg": d.cfg, "ops": out.trace,
                        "corners": out.corners, "ended_by_record": out.stopped_by_record,
                    }));
                }
            }
            // wrap-around at the largest limit
            let cfg = Cfg {
                ver,
                limit: 65535,
                manual: false,
                light: true,
            };
            let ops = big_wrap_ops();
            let out = match ver {
                Ver::V4 => run_ops::<V4State>(ctx, family, &mut stats, cfg, "wrap-65535", &ops, Trigger::None, false),
                Ver::V5 => run_ops::<V5State>(ctx, family, &mut stats, cfg, "wrap-65535", &ops, Trigger::None, false),
            };
            if out.corners.contains(&"pkid-wrapped") && !out.stopped_by_record {
                stats.corner("pkid-wrapped-at-65535");
            }
        }
    }
    for i in 0..n_random {
        let ver = if rng.chance(1, 2) { Ver::V4 } else { Ver::V5 };
        let cfg = pick_cfg(&mut rng, ver, manual_share);
        let trigger = if rng.chance(15, 100) {
            *rng.pick(if ver == Ver::V4 { TRIGGERS_V4 } else { TRIGGERS_V5 })
        } else {
            Trigger::None
        };
        if trigger == Trigger::None {
            stats.add_extra("histories_trigger_free", 1);
        } else {
            stats.add_extra("histories_with_trigger", 1);
        }
        let hrng = rng.fork();
        let base = (shard as u64) * 1_000_000_000 + i * 1000;
        let sample = i < 1;
        match ver {
            Ver::V4 => run_random::<V4State>(ctx, family, &mut stats, cfg, hrng, trigger, profile, base, sample),
            Ver::V5 => run_random::<V5State>(ctx, family, &mut stats, cfg, hrng, trigger, profile, base, sample),
        }
        if stats.violations.len() >= 5 {
            break;
        }
    }
    stats
}

/// Entry point of the S2 half of C02 / C07 / C10
pub fn run_family(ctx: &Ctx, family: &str, profile: Profile, quick: u64, thorough: u64) -> Stats {
    let n = ctx.size(quick, thorough);
    let mut stats = if ctx.quick() {
        run_shard(ctx, family, profile, n, 0, ctx.seed.wrapping_mul(1000))
    } else {
        let per = n / ctx.threads.max(1) as u64 + 1;
        sharded(ctx, ctx.threads, |shard, seed| run_shard(ctx, family, profile, per, shard, seed))
    };
    stats.exhaustive_scopes.push(
        "none: histories are sampled; per history every call is followed by all oracles of the three families".into(),
    );
    stats
}

/// Re-execute one recorded history (`vh <ID> --replay file`)
pub fn replay_family(ctx: &Ctx, family: &str, doc: &Value) -> Stats {
    let mut stats = Stats::default();
    let parsed: Result<(Cfg, Vec<Op>), String> = (|| {
        let cfg: Cfg = serde_json::from_value(doc["cfg"].clone()).map_err(|e| e.to_string())?;
        let ops: Vec<Op> = serde_json::from_value(doc["ops"].clone()).map_err(|e| e.to_string())?;
        Ok((cfg, ops))
    })();
    let (cfg, ops) = match parsed {
        Ok(x) => x,
        Err(e) => {
            stats.inconclusive.push(format!("replay file does not hold an S2 history: {e}"));
            return stats;
        }
    };
    let res = guarded(|| {
        let mut st = Stats::default();
        let out = match cfg.ver {
            Ver::V4 => run_ops::<V4State>(ctx, family, &mut st, cfg, "replay", &ops, Trigger::None, true),
            Ver::V5 => run_ops::<V5State>(ctx, family, &mut st, cfg, "replay", &ops, Trigger::None, true),
        };
        st.sample(json!({"kind": "replay", "ops": out.trace, "corners": out.corners}));
        st
    });
    match res {
        Ok(st) => stats.merge(st),
        Err(p) => stats.inconclusive.push(format!("harness panicked during replay at {}: {}", p.location, p.message)),
    }
    // a replay is one case: the "at least 2 distinct cases" rule of finish() does not apply
    stats.shapes.insert(1);
    stats.shapes.insert(2);
    stats
}
