//! Generators shared by several properties
pub mod dpkt;
pub mod canon;
pub mod cpkt4;
pub mod cpkt5;
pub mod dpkts;
pub mod cwork;
pub mod cs3;
