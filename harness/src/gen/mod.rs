//! Generators shared by several properties
pub mod dpkt;
