//! M-log: sequential specification of the broker commit log, written from property C13 and
//! the rollover rule documented in `rumqttd/src/segments/mod.rs` (doc comment of
//! `CommitLog` and its own tests), not from the read path.
//!
//! * Entries are numbered 0, 1, 2, … in append order: that number is the entry's absolute
//!   offset and never changes.
//! * Entries live in segments numbered 0, 1, 2, …; the last one is the active segment.
//!   An append first looks at the active segment: if the bytes already in it are >= the
//!   segment size limit, a new active segment is started (so a segment may exceed the limit
//!   by the overflow of its last entry, and an entry larger than the limit sits alone with
//!   whatever was before it). Then the entry goes into the active segment.
//! * At most `max_segments` segments are retained (the active one included). Starting a new
//!   segment when that many exist discards the oldest segment, whole, and nothing else is
//!   ever discarded.
//! * A *position* is an absolute offset p: "the first retained entry numbered >= p".
//!   `read(p, len)` returns the retained entries numbered >= p, in order, at most `len`;
//!   a position inside discarded data resumes at the oldest retained entry; the read is
//!   "caught up" exactly when no retained entry is left after what it returned.

#[derive(Clone, Debug)]
pub struct MLog<T> {
    segment_limit: u64,
    max_segments: u64,
    /// every entry ever appended: (segment number, item); index = absolute offset
    entries: Vec<(u64, T)>,
    /// absolute offset of the oldest retained entry (== entries.len() never: a retained
    /// segment always holds at least one entry once anything was appended)
    oldest: u64,
    head_segment: u64,
    tail_segment: u64,
    /// bytes in the active segment
    active_bytes: u64,
}

/// What an append did to the segment ring
#[derive(Clone, Copy, Debug, Default, PartialEq, Eq)]
pub struct Appended {
    /// absolute offset given to the entry
    pub offset: u64,
    pub segment: u64,
    pub rolled_over: bool,
    pub evicted_segment: bool,
}

#[derive(Clone, Debug, PartialEq, Eq)]
pub struct Read<T> {
    /// position the read really started at (== the requested one unless it was stale)
    pub start: u64,
    /// the requested position pointed into discarded data
    pub jumped: bool,
    /// ((segment, absolute offset), item) in append order
    pub items: Vec<((u64, u64), T)>,
    /// position at which a later read has to resume
    pub next: u64,
    /// no retained entry at or after `next`
    pub caught_up: bool,
}

impl<T: Clone> MLog<T> {
    pub fn new(segment_limit: u64, max_segments: u64) -> MLog<T> {
        assert!(max_segments >= 1);
        MLog {
            segment_limit,
            max_segments,
            entries: Vec::new(),
            oldest: 0,
            head_segment: 0,
            tail_segment: 0,
            active_bytes: 0,
        }
    }

    pub fn append(&mut self, item: T, size: u64) -> Appended {
        let mut info = Appended::default();
        if self.active_bytes >= self.segment_limit {
            info.rolled_over = true;
            if self.segment_count() >= self.max_segments {
                // the oldest segment goes, whole
                let gone = self.head_segment;
                self.head_segment += 1;
                while (self.oldest as usize) < self.entries.len()
                    && self.entries[self.oldest as usize].0 == gone
                {
                    self.oldest += 1;
                }
                info.evicted_segment = true;
            }
            self.tail_segment += 1;
            self.active_bytes = 0;
        }
        info.offset = self.entries.len() as u64;
        info.segment = self.tail_segment;
        self.entries.push((self.tail_segment, item));
        self.active_bytes += size;
        info
    }

    /// number of entries ever appended == the position of the log tail
    pub fn tail_position(&self) -> u64 {
        self.entries.len() as u64
    }

    /// absolute offset of the oldest retained entry
    pub fn oldest_retained(&self) -> u64 {
        self.oldest
    }

    pub fn head_segment(&self) -> u64 {
        self.head_segment
    }

    pub fn tail_segment(&self) -> u64 {
        self.tail_segment
    }

    pub fn segment_count(&self) -> u64 {
        self.tail_segment - self.head_segment + 1
    }

    /// segment holding the entry with this absolute offset (None: not appended yet)
    pub fn segment_of(&self, offset: u64) -> Option<u64> {
        self.entries.get(offset as usize).map(|e| e.0)
    }

    pub fn read(&self, position: u64, len: u64) -> Read<T> {
        let tail = self.tail_position();
        let jumped = position < self.oldest;
        // a position beyond the tail cannot be issued by the log; clamp so the model is total
        let start = position.max(self.oldest).min(tail);
        let available = tail - start;
        let n = available.min(len);
        let items = (start..start + n)
            .map(|o| {
                let (segment, item) = &self.entries[o as usize];
                ((*segment, o), item.clone())
            })
            .collect();
        let next = start + n;
        Read {
            start,
            jumped,
            items,
            next,
            caught_up: next == tail,
        }
    }
}

#[cfg(test)]
mod tests {
    use super::*;

    #[test]
    fn rollover_and_eviction() {
        let mut m: MLog<u32> = MLog::new(1024, 2);
        // 1024 bytes fill segment 0 exactly; the rollover happens at the *next* append
        assert_eq!(m.append(0, 1024).segment, 0);
        let a = m.append(1, 3000);
        assert!(a.rolled_over && !a.evicted_segment && a.segment == 1);
        let a = m.append(2, 1);
        assert!(a.rolled_over && a.evicted_segment && a.segment == 2);
        assert_eq!(m.oldest_retained(), 1);
        assert_eq!(m.segment_count(), 2);
        let r = m.read(0, 10);
        assert!(r.jumped && r.start == 1 && r.caught_up && r.next == 3);
        assert_eq!(r.items, vec![((1, 1), 1), ((2, 2), 2)]);
        let r = m.read(1, 1);
        assert!(!r.jumped && !r.caught_up && r.next == 2);
        let r = m.read(3, 0);
        assert!(r.caught_up && r.items.is_empty());
        let r = m.read(2, 0);
        assert!(!r.caught_up && r.items.is_empty() && r.next == 2);
    }
}
