//! M-match: MQTT topic-name / topic-filter validation and matching, written from the MQTT
//! rules quoted in property C12 (not from the code under test).
//!
//! * levels are the pieces between `/` separators (a leading, trailing or doubled `/`
//!   gives an empty level, which is a level like any other);
//! * a topic name contains neither `+` nor `#`;
//! * in a filter `+` and `#` may appear only as a whole level, and `#` only as the last one;
//! * `+` matches exactly one level (also an empty one), a trailing `#` matches the parent
//!   and any number of further levels, every other level matches literally (byte-equal,
//!   so case-sensitively);
//! * this code base's documented rule, stricter than the specification: a topic whose
//!   first character is `$` is matched by no filter at all.
//!
//! MQTT also requires names and filters to be at least one character long; C12's statement
//! does not mention emptiness, so `valid_topic("")` / `valid_filter("")` return `false`
//! here (the MQTT answer, and the safe one for workloads that only want usable names) and
//! C12 itself never judges the code under test on the empty string.
//!
//! `matches` is meaningful only on (valid topic, valid filter); it is total anyway so a
//! caller cannot crash the model, but oracles must not quote it outside that domain.

const SEP: char = '/';

/// No wildcard characters, at least one character.
pub fn valid_topic(topic: &str) -> bool {
    !topic.is_empty() && !topic.chars().any(is_wildcard)
}

/// Wildcards only as whole levels, `#` only as the last level, at least one character.
pub fn valid_filter(filter: &str) -> bool {
    if filter.is_empty() {
        return false;
    }
    let levels: Vec<&str> = filter.split(SEP).collect();
    let last = levels.len() - 1;
    for (i, level) in levels.iter().enumerate() {
        let has_hash = level.contains('#');
        let has_plus = level.contains('+');
        if has_hash && (*level != "#" || i != last) {
            return false;
        }
        if has_plus && *level != "+" {
            return false;
        }
    }
    true
}

/// Does the string contain a wildcard character at all (what `has_wildcards` is named for)
pub fn has_wildcards(s: &str) -> bool {
    s.chars().any(is_wildcard)
}

/// MQTT matching of a valid topic name against a valid filter.
pub fn matches(topic: &str, filter: &str) -> bool {
    if topic.starts_with('$') {
        return false;
    }
    let t: Vec<&str> = topic.split(SEP).collect();
    let f: Vec<&str> = filter.split(SEP).collect();
    match_levels(&t, &f)
}

fn match_levels(topic: &[&str], filter: &[&str]) -> bool {
    match filter.split_first() {
        // filter used up: the topic must be used up too
        None => topic.is_empty(),
        // trailing multi-level wildcard: the parent (nothing left) and any number of levels
        Some((&"#", rest)) if rest.is_empty() => true,
        Some((level, rest)) => match topic.split_first() {
            None => false,
            Some((t, trest)) => (*level == "+" || level == t) && match_levels(trest, rest),
        },
    }
}

fn is_wildcard(c: char) -> bool {
    c == '+' || c == '#'
}

#[cfg(test)]
mod tests {
    use super::*;

    #[test]
    fn spec_examples() {
        // MQTT 3.1.1 section 4.7.1
        assert!(matches("sport/tennis/player1", "sport/tennis/player1/#"));
        assert!(matches("sport/tennis/player1/ranking", "sport/tennis/player1/#"));
        assert!(matches("sport", "sport/#"));
        assert!(matches("sport", "#"));
        assert!(matches("sport/tennis/player1", "sport/tennis/+"));
        assert!(!matches("sport/tennis/player1/ranking", "sport/tennis/+"));
        assert!(!matches("sport", "sport/+"));
        assert!(matches("sport/", "sport/+"));
        assert!(matches("/finance", "+/+"));
        assert!(matches("/finance", "/+"));
        assert!(!matches("/finance", "+"));
        assert!(!matches("$SYS/x", "#"));
        assert!(!matches("$SYS/x", "$SYS/#"));
        assert!(!matches("a", "A"));
        assert!(valid_filter("sport/tennis/#"));
        assert!(!valid_filter("sport/tennis#"));
        assert!(!valid_filter("sport/tennis/#/ranking"));
        assert!(valid_filter("+/tennis/#"));
        assert!(!valid_filter("sport+"));
        assert!(valid_filter("/") && valid_filter("//") && valid_filter("+/+") && valid_filter("#"));
        assert!(!valid_filter("a/#/b") && !valid_filter("#a") && !valid_filter("a+"));
        assert!(valid_topic("/") && !valid_topic("a/+") && !valid_topic("#"));
    }
}
