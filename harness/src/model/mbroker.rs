//! M-broker: a small sequential MQTT broker specification at the granularity of router
//! steps (DESIGN.md Appendix A). It is fed the same inputs the real router is fed (which
//! event was stepped, which packets were in a link's buffer when its `DeviceData` ran) and
//! the notifications the router puts into each link's outgoing buffer, and answers with
//! violation records. It predicts *what* must be delivered / acknowledged, never *when*
//! (turns, batch sizes, packet ids and group member choice are left open).
//!
//! Written from the property statements and MQTT rules, not from the router's code.
use crate::common::Record;
use crate::gen::dpkt::{parts, PubParts};
use rumqttd::protocol::{Packet, PublishProperties};
use rumqttd::verif::Ack;
use rumqttd::Notification;
use serde_json::json;
use std::collections::{BTreeMap, BTreeSet, HashMap, VecDeque};

// ------------------------------------------------------------------ M-match (MQTT 4.7)

pub fn mm_matches(topic: &str, filter: &str) -> bool {
    if topic.starts_with('$') {
        return false; // this code base's documented rule
    }
    let t: Vec<&str> = topic.split('/').collect();
    let f: Vec<&str> = filter.split('/').collect();
    let mut i = 0;
    while i < f.len() {
        if f[i] == "#" {
            return true; // parent level and anything below
        }
        if i >= t.len() {
            return false;
        }
        if f[i] != "+" && f[i] != t[i] {
            return false;
        }
        i += 1;
    }
    t.len() == f.len()
}

pub fn split_share(path: &str) -> Option<(String, String)> {
    let rest = path.strip_prefix("$share/")?;
    let (g, f) = rest.split_once('/')?;
    Some((g.to_owned(), f.to_owned()))
}

// ------------------------------------------------------------------ state

#[derive(Clone, Debug)]
pub struct Msg {
    pub idx: usize,
    pub topic: String,
    pub payload: String,
    pub retain_in: bool,
    pub step: u64,
    pub props: Option<PublishProperties>,
    pub from: Option<usize>,
}

#[derive(Clone, Debug, Eq)]
pub enum Reply {
    ConnAck(bool),
    PubAck(u16),
    PubRec(u16),
    PubRel(u16),
    PubComp(u16),
    SubAck(u16, Vec<u8>),
    /// packet id; number of named filters the sender held (not compared)
    UnsubAck(u16, usize),
    PingResp,
}

impl PartialEq for Reply {
    fn eq(&self, o: &Reply) -> bool {
        use Reply::*;
        match (self, o) {
            (ConnAck(a), ConnAck(b)) => a == b,
            (PubAck(a), PubAck(b)) | (PubRec(a), PubRec(b)) | (PubRel(a), PubRel(b)) | (PubComp(a), PubComp(b)) => a == b,
            (SubAck(a, x), SubAck(b, y)) => a == b && x == y,
            (UnsubAck(a, _), UnsubAck(b, _)) => a == b,
            (PingResp, PingResp) => true,
            _ => false,
        }
    }
}

#[derive(Clone, Debug)]
pub struct Sub {
    pub path: String,
    pub filter: String,
    pub group: Option<String>,
    pub qos: u8,
    pub sub_id: Option<usize>,
    pub effect_idx: usize,
    pub closed_at: Option<usize>,
    /// next element of the expected stream not yet observed (non-shared)
    pub next: usize,
    /// set while the session is away: where delivery must restart
    pub restart: Option<usize>,
    pub resumed: bool,
    pub resubscribed_qos_changed: bool,
    /// retained replay bookkeeping: topic -> acceptable payloads, and whether the topic may be omitted
    pub retained_ok: BTreeMap<String, (BTreeSet<String>, bool)>,
    pub retained_seen: BTreeSet<String>,
    pub retained_open: bool,
    pub sub_step: u64,
    /// last index delivered through this subscription (shared subscriptions: per-member order)
    pub last_shared: Option<usize>,
    pub observed: u64,
    /// the UNSUBSCRIBE that ended it came behind a PUBLISH / PUBREL in the same batch
    pub unsub_behind_publish: bool,
}

#[derive(Clone, Debug)]
pub struct OutEntry {
    pub pkid: u16,
    pub sub_path: Option<String>,
    pub msg: Option<usize>,
    pub retained: bool,
    pub qos: u8,
}

#[derive(Clone, Debug, PartialEq, Eq)]
pub enum ConnState {
    /// Connect event sent, not yet handled by the router
    Sent,
    Live,
    Closed(String),
    Rejected,
}

#[derive(Clone, Debug)]
pub struct Conn {
    pub client: String,
    pub clean: bool,
    pub state: ConnState,
    pub expect_reject: Option<String>,
    pub session_present: bool,
    pub connack_seen: bool,
    pub owed: VecDeque<Reply>,
    pub out_fifo: VecDeque<OutEntry>,
    pub rel_fifo: VecDeque<u16>,
    pub qos2_in: VecDeque<(u16, PubParts, Option<PublishProperties>)>,
    /// the batch handled last for this connection held an acknowledgement the broker itself had solicited
    /// (in-order PUBACK / PUBREC / PUBCOMP) and nothing that permits a close
    pub last_batch_solicited_ack: bool,
    pub aliases_in: HashMap<u16, String>,
    pub aliases_out: HashMap<u16, String>,
    pub alias_max: u16,
    /// the broker is permitted to close this connection (its own protocol violation)
    pub may_close: Option<String>,
    /// the statement demands that the broker closes this connection
    pub must_close: Option<String>,
    /// after a permitted-close packet the connection's further behaviour is not judged
    pub undefined: bool,
    pub will: bool,
    pub sent_disconnect: bool,
    pub unanswered_unschedule: u64,
    pub ambiguous: bool,
    /// most QoS>0 forwards ever outstanding at once (lower bound on free window slots)
    pub max_outstanding: usize,
    pub last_reply: Option<Reply>,
}

#[derive(Clone, Debug, Default)]
pub struct Session {
    pub live: Option<usize>,
    pub saved: bool,
    pub subs: Vec<Sub>,
    pub saved_rel: VecDeque<u16>,
    pub resumes: u64,
    /// a forward could not be attributed to one subscription: the stream pointers of this session are unreliable
    pub ambiguous: bool,
}

#[derive(Clone, Debug)]
pub struct Will {
    pub topic: Vec<u8>,
    pub payload: String,
    pub retain: bool,
    pub props: Option<PublishProperties>,
}

#[derive(Clone, Debug, Default)]
pub struct Group {
    pub members: BTreeSet<String>,
    /// index from which messages are the group's to distribute (last time it became non-empty)
    pub since: usize,
    /// message idx -> (member client, connection, acked)
    pub delivered: BTreeMap<usize, (String, usize)>,
    /// delivered to a connection that ended before acknowledging: may be handed out again
    pub redeliverable: BTreeSet<usize>,
    pub emptied: u64,
    /// log length when a member last left
    pub last_leave: Option<usize>,
    /// a persistent member's connection ended with unacknowledged deliveries of this group
    pub persistent_unacked_leave: bool,
    /// a forward that this group may have made could not be told from one of another subscription of the same
    /// client: the ledger may miss a delivery, so completeness is not judged for this group any more
    pub tainted: bool,
}

pub struct Model {
    pub max_connections: usize,
    pub window: usize,
    /// how many QoS 0 messages one read may forward (max_outgoing_packet_count)
    pub qos0_batch: usize,
    pub log: Vec<Msg>,
    by_payload: HashMap<String, usize>,
    pub retained: BTreeMap<String, usize>,
    pub sessions: BTreeMap<String, Session>,
    pub conns: Vec<Conn>,
    pub wills: BTreeMap<String, Will>,
    /// (group name, filter) -> group
    pub groups: BTreeMap<(String, String), Group>,
    pub step_no: u64,
    pub pkid_reuse_before_pubcomp: u64,
    pub evals: BTreeMap<&'static str, u64>,
    /// client ids whose records are attributed to C14 (the well-behaved pair)
    pub guarded_clients: BTreeSet<String>,
    /// small-retention configuration: a slow subscriber may legitimately lose evicted messages, so gaps
    /// and incomplete streams are tolerated (everything else is still judged)
    pub lossy: bool,
    pub gaps_tolerated: u64,
}

pub struct Closed {
    pub conn: usize,
    pub why: String,
}

fn pstr(b: &[u8]) -> String {
    String::from_utf8_lossy(b).into_owned()
}

pub fn is_undefined_payload(p: &str) -> bool {
    p.starts_with("U:")
}

impl Model {
    pub fn new(max_connections: usize) -> Model {
        Model {
            max_connections,
            window: 100,
            qos0_batch: usize::MAX,
            log: vec![],
            by_payload: HashMap::new(),
            retained: BTreeMap::new(),
            sessions: BTreeMap::new(),
            conns: vec![],
            wills: BTreeMap::new(),
            groups: BTreeMap::new(),
            step_no: 0,
            pkid_reuse_before_pubcomp: 0,
            evals: BTreeMap::new(),
            guarded_clients: BTreeSet::new(),
            lossy: false,
            gaps_tolerated: 0,
        }
    }

    fn eval(&mut self, k: &'static str) {
        *self.evals.entry(k).or_default() += 1;
    }

    pub fn live_count(&self) -> usize {
        self.conns.iter().filter(|c| c.state == ConnState::Live).count()
    }

    pub fn live_of(&self, client: &str) -> Option<usize> {
        self.sessions.get(client).and_then(|s| s.live)
    }

    pub fn is_live(&self, conn: usize) -> bool {
        self.conns.get(conn).map(|c| c.state == ConnState::Live).unwrap_or(false)
    }

    // -------------------------------------------------------------- connect

    /// A link has sent `Event::Connect` (registers the connection handle; no effect yet)
    pub fn connect_sent(&mut self, conn: usize, client: &str, clean: bool, alias_max: u16, has_will: bool) {
        assert_eq!(conn, self.conns.len());
        self.conns.push(Conn {
            client: client.to_owned(),
            clean,
            state: ConnState::Sent,
            expect_reject: None,
            session_present: false,
            connack_seen: false,
            owed: VecDeque::new(),
            out_fifo: VecDeque::new(),
            rel_fifo: VecDeque::new(),
            qos2_in: VecDeque::new(),
            last_batch_solicited_ack: false,
            aliases_in: HashMap::new(),
            aliases_out: HashMap::new(),
            alias_max,
            may_close: None,
            must_close: None,
            undefined: false,
            will: has_will,
            sent_disconnect: false,
            unanswered_unschedule: 0,
            ambiguous: false,
            max_outstanding: 0,
            last_reply: None,
        });
    }

    /// The router handled the `Connect` event of `conn`
    pub fn ev_connect(&mut self, conn: usize, will: Option<Will>) -> Vec<Closed> {
        self.step_no += 1;
        let mut closed = vec![];
        let client = self.conns[conn].client.clone();
        let clean = self.conns[conn].clean;
        if client.chars().any(|c| "+$#/".contains(c)) {
            self.conns[conn].expect_reject = Some("client id contains a topic metacharacter".into());
            self.conns[conn].state = ConnState::Rejected;
            return closed;
        }
        if let Some(old) = self.live_of(&client) {
            self.close(old, "takeover", false);
            closed.push(Closed {
                conn: old,
                why: "takeover".into(),
            });
        }
        if self.live_count() >= self.max_connections {
            self.conns[conn].expect_reject = Some("max_connections reached".into());
            self.conns[conn].state = ConnState::Rejected;
            return closed;
        }
        let len = self.log.len();
        let session = self.sessions.entry(client.clone()).or_default();
        let present = !clean && session.saved;
        let mut rels = VecDeque::new();
        if clean || !session.saved {
            session.subs.retain(|s| s.closed_at.is_some());
            session.saved_rel.clear();
            session.ambiguous = false;
        } else {
            session.resumes += 1;
            for s in session.subs.iter_mut().filter(|s| s.closed_at.is_none()) {
                if let Some(r) = s.restart.take() {
                    s.next = r;
                }
                s.resumed = true;
                s.sub_id = None;
            }
            rels = std::mem::take(&mut session.saved_rel);
        }
        let _ = len;
        session.saved = false;
        session.live = Some(conn);
        let inherited_ambiguity = session.ambiguous;
        let c = &mut self.conns[conn];
        c.ambiguous = inherited_ambiguity;
        c.state = ConnState::Live;
        c.session_present = present;
        c.owed.push_back(Reply::ConnAck(present));
        for p in rels.iter() {
            c.owed.push_back(Reply::PubRel(*p));
        }
        c.rel_fifo = rels;
        if let Some(w) = will {
            self.wills.insert(client.clone(), w);
        }
        // shared-group membership of a resumed session is re-established by its subscriptions
        let subs: Vec<(String, String)> = self.sessions[&client]
            .subs
            .iter()
            .filter(|s| s.closed_at.is_none())
            .filter_map(|s| s.group.clone().map(|g| (g, s.filter.clone())))
            .collect();
        for (g, f) in subs {
            self.group_join(&g, &f, &client);
        }
        closed
    }

    fn group_join(&mut self, group: &str, filter: &str, client: &str) {
        let len = self.log.len();
        let g = self.groups.entry((group.to_owned(), filter.to_owned())).or_default();
        if g.members.is_empty() {
            g.since = len;
        }
        g.members.insert(client.to_owned());
    }

    fn group_leave(&mut self, group: &str, filter: &str, client: &str) {
        if let Some(g) = self.groups.get_mut(&(group.to_owned(), filter.to_owned())) {
            g.members.remove(client);
            g.last_leave = Some(self.log.len());
            if g.members.is_empty() {
                g.emptied += 1;
            }
        }
    }

    /// The harness learned whether the router accepted the connection
    pub fn connect_outcome(&mut self, conn: usize, accepted: bool) -> Vec<Record> {
        let mut out = vec![];
        let c = &self.conns[conn];
        self.evals.entry("admission").and_modify(|v| *v += 1).or_insert(1);
        match (&c.expect_reject, accepted) {
            (Some(why), true) => out.push(
                Record::new("C19", "admitted-but-inadmissible", format!("connection of '{}' was accepted although {}", c.client, why))
                    .fact("reason", why.clone())
                    .fact("client", c.client.clone()),
            ),
            (None, false) if matches!(c.state, ConnState::Live) => {
                out.push(
                    Record::new("C19", "refused-but-admissible", format!("valid connection of '{}' was refused", c.client))
                        .fact("client", c.client.clone()),
                );
            }
            _ => {}
        }
        out
    }

    // -------------------------------------------------------------- close

    pub fn close(&mut self, conn: usize, why: &str, by_disconnect_packet: bool) {
        if self.conns[conn].state != ConnState::Live {
            return;
        }
        let client = self.conns[conn].client.clone();
        let clean = self.conns[conn].clean;
        let len = self.log.len();
        // oldest unacknowledged QoS>0 forward per subscription
        let mut oldest: BTreeMap<String, usize> = BTreeMap::new();
        for e in self.conns[conn].out_fifo.iter() {
            if let (Some(p), Some(m), false) = (&e.sub_path, e.msg, e.retained) {
                oldest.entry(p.clone()).or_insert(m);
            }
        }
        let rels = self.conns[conn].rel_fifo.clone();
        let mut leave = vec![];
        if let Some(session) = self.sessions.get_mut(&client) {
            session.live = None;
            if clean {
                session.saved = false;
                for s in session.subs.iter_mut().filter(|s| s.closed_at.is_none()) {
                    s.closed_at = Some(len);
                    s.retained_open = false;
                    if let Some(g) = &s.group {
                        leave.push((g.clone(), s.filter.clone()));
                    }
                }
                session.saved_rel.clear();
            } else {
                session.saved = true;
                session.saved_rel = rels;
                for s in session.subs.iter_mut().filter(|s| s.closed_at.is_none()) {
                    s.restart = Some(oldest.get(&s.path).copied().unwrap_or(s.next));
                    // a replay that was never served stays owed to the saved subscription
                    if let Some(g) = &s.group {
                        leave.push((g.clone(), s.filter.clone()));
                    }
                }
            }
        }
        for (g, f) in leave {
            self.group_leave(&g, &f, &client);
        }
        // unacknowledged shared deliveries of an ended connection may be handed out again
        let unacked: Vec<usize> = self.conns[conn].out_fifo.iter().filter_map(|e| e.msg).collect();
        for g in self.groups.values_mut() {
            for (idx, (_, c)) in g.delivered.iter() {
                if *c == conn && unacked.contains(idx) {
                    g.redeliverable.insert(*idx);
                    if !clean {
                        g.persistent_unacked_leave = true;
                    }
                }
            }
        }
        if by_disconnect_packet {
            self.wills.remove(&client);
        }
        let c = &mut self.conns[conn];
        c.state = ConnState::Closed(why.to_owned());
        c.owed.clear();
        c.out_fifo.clear();
        c.qos2_in.clear();
    }

    // -------------------------------------------------------------- accept

    fn accept(&mut self, conn: Option<usize>, p: &PubParts, props: Option<PublishProperties>, topic: String) -> usize {
        let idx = self.log.len();
        let payload = pstr(&p.payload);
        if p.retain {
            if p.payload.is_empty() {
                self.retained.remove(&topic);
            } else {
                self.retained.insert(topic.clone(), idx);
            }
            self.retained_changed(&topic, if p.payload.is_empty() { None } else { Some(payload.clone()) });
        }
        if !payload.is_empty() {
            self.by_payload.insert(payload.clone(), idx);
        }
        self.log.push(Msg {
            idx,
            topic,
            payload,
            retain_in: p.retain,
            step: self.step_no,
            props,
            from: conn,
        });
        idx
    }

    /// keep the replay tolerance of subscriptions whose replay has not been observed yet
    fn retained_changed(&mut self, topic: &str, value: Option<String>) {
        for s in self.sessions.values_mut() {
            for sub in s.subs.iter_mut().filter(|x| x.retained_open && x.group.is_none() && x.closed_at.is_none()) {
                if !mm_matches(topic, &sub.filter) {
                    continue;
                }
                let e = sub.retained_ok.entry(topic.to_owned()).or_insert((BTreeSet::new(), true));
                match &value {
                    Some(v) => {
                        e.0.insert(v.clone());
                    }
                    None => e.1 = true,
                }
            }
        }
    }

    /// Resolve a publish's topic under MQTT 5 alias rules; Err = protocol violation
    fn resolve_in(&mut self, conn: usize, p: &PubParts, props: &Option<PublishProperties>) -> Result<String, String> {
        if let Some(pr) = props {
            if !pr.subscription_identifiers.is_empty() {
                return Err("publish carries subscription identifiers".into());
            }
            if let Some(a) = pr.topic_alias {
                if a == 0 {
                    return Err("topic alias 0".into());
                }
                if p.topic.is_empty() {
                    return match self.conns[conn].aliases_in.get(&a) {
                        Some(t) => Ok(t.clone()),
                        None => Err("unknown topic alias".into()),
                    };
                }
                let Ok(t) = std::str::from_utf8(&p.topic) else {
                    return Err("non-UTF-8 topic".into());
                };
                if a > 4096 {
                    // above the maximum the broker advertises in its CONNACK
                    return Err("topic alias above the advertised maximum".into());
                }
                self.conns[conn].aliases_in.insert(a, t.to_owned());
                return Ok(t.to_owned());
            }
        }
        match std::str::from_utf8(&p.topic) {
            Ok(t) => Ok(t.to_owned()),
            Err(_) => Err("non-UTF-8 topic".into()),
        }
    }

    // -------------------------------------------------------------- device data

    /// The router handled `DeviceData` for `conn` with `batch` in the link's buffer.
    /// Returns the connections the model closed in this step.
    pub fn ev_device_data(&mut self, conn: usize, batch: &[Packet]) -> Vec<Closed> {
        self.step_no += 1;
        let mut closed = vec![];
        if !self.is_live(conn) {
            return closed; // stale signal of an ended connection: no effect (C14)
        }
        let client = self.conns[conn].client.clone();
        let mut behind_publish = false;
        self.conns[conn].last_batch_solicited_ack = false;
        for packet in batch {
            if self.conns[conn].undefined {
                break;
            }
            if matches!(packet, Packet::Publish(..) | Packet::PubRel(..)) {
                behind_publish = true;
            }
            match packet {
                Packet::Publish(publish, props) => {
                    let p = parts(publish);
                    let mut props = props.clone();
                    let topic = match self.resolve_in(conn, &p, &props) {
                        Ok(t) => t,
                        Err(why) => {
                            self.permit_close(conn, &why);
                            break;
                        }
                    };
                    if let Some(pr) = props.as_mut() {
                        pr.topic_alias = None;
                    }
                    match p.qos {
                        0 => {
                            self.accept(Some(conn), &p, props, topic);
                        }
                        1 => {
                            self.accept(Some(conn), &p, props, topic);
                            self.conns[conn].owed.push_back(Reply::PubAck(p.pkid));
                        }
                        _ => {
                            // alias resolution already happened at receipt; keep the resolved topic
                            let mut q = p.clone();
                            q.topic = topic.into_bytes().into();
                            self.conns[conn].qos2_in.push_back((p.pkid, q, props));
                            self.conns[conn].owed.push_back(Reply::PubRec(p.pkid));
                        }
                    }
                }
                Packet::PubRel(rel, _) => {
                    let front = self.conns[conn].qos2_in.front().map(|x| x.0);
                    if front != Some(rel.pkid) {
                        self.permit_close(conn, "PUBREL for a packet id that is not the oldest unreleased QoS 2 publish");
                        break;
                    }
                    let (_, p, props) = self.conns[conn].qos2_in.pop_front().unwrap();
                    let topic = pstr(&p.topic);
                    self.accept(Some(conn), &p, props, topic);
                    self.conns[conn].owed.push_back(Reply::PubComp(rel.pkid));
                }
                Packet::Subscribe(sub, props) => {
                    let sub_id = props.as_ref().and_then(|p| p.id);
                    let mut codes = vec![];
                    let mut bad = None;
                    for f in sub.filters.iter() {
                        if (f.path.starts_with('$') && !f.path.starts_with("$share")) || sub_id == Some(0) {
                            bad = Some(if sub_id == Some(0) {
                                "subscription identifier 0"
                            } else {
                                "filter starts with '$'"
                            });
                            break;
                        }
                        self.subscribe(conn, &client, &f.path, f.qos as u8, sub_id);
                        codes.push(f.qos as u8);
                    }
                    if let Some(why) = bad {
                        self.permit_close(conn, why);
                        break;
                    }
                    self.conns[conn].owed.push_back(Reply::SubAck(sub.pkid, codes));
                }
                Packet::Unsubscribe(unsub, _) => {
                    let held = unsub.filters.iter().filter(|f| self.holds(&client, f)).count();
                    for f in unsub.filters.iter() {
                        self.unsubscribe(&client, f, behind_publish);
                    }
                    self.conns[conn].owed.push_back(Reply::UnsubAck(unsub.pkid, held));
                }
                Packet::PubAck(a, _) => {
                    if !self.ack_in(conn, a.pkid, false) {
                        break;
                    }
                    self.conns[conn].last_batch_solicited_ack = true;
                }
                Packet::PubRec(a, _) => {
                    if !self.ack_in(conn, a.pkid, true) {
                        break;
                    }
                    self.conns[conn].last_batch_solicited_ack = true;
                }
                Packet::PubComp(a, _) => {
                    let head = self.conns[conn].rel_fifo.front().copied();
                    if head != Some(a.pkid) {
                        self.conns[conn].must_close = Some(format!("unsolicited or out-of-order PUBCOMP {}", a.pkid));
                        self.conns[conn].undefined = true;
                        break;
                    }
                    self.conns[conn].rel_fifo.pop_front();
                    self.conns[conn].last_batch_solicited_ack = true;
                }
                Packet::PingReq(_) => self.conns[conn].owed.push_back(Reply::PingResp),
                Packet::Disconnect(_, _) => {
                    self.conns[conn].sent_disconnect = true;
                    self.close(conn, "client sent DISCONNECT", true);
                    closed.push(Closed {
                        conn,
                        why: "disconnect-packet".into(),
                    });
                    break;
                }
                _ => {} // server-to-client packet types from a client: ignored
            }
        }
        closed
    }

    fn permit_close(&mut self, conn: usize, why: &str) {
        let c = &mut self.conns[conn];
        c.may_close = Some(why.to_owned());
        c.undefined = true;
    }

    /// PUBACK / PUBREC from a subscriber. false = the statement demands the connection be closed.
    fn ack_in(&mut self, conn: usize, pkid: u16, rec: bool) -> bool {
        let head = self.conns[conn].out_fifo.front().map(|e| e.pkid);
        if head != Some(pkid) {
            let c = &mut self.conns[conn];
            c.must_close = Some(format!(
                "unsolicited or out-of-order {} {}",
                if rec { "PUBREC" } else { "PUBACK" },
                pkid
            ));
            c.undefined = true;
            return false;
        }
        let e = self.conns[conn].out_fifo.pop_front().unwrap();
        let _ = e;
        if rec {
            self.conns[conn].rel_fifo.push_back(pkid);
            self.conns[conn].owed.push_back(Reply::PubRel(pkid));
        }
        true
    }

    fn subscribe(&mut self, conn: usize, client: &str, path: &str, qos: u8, sub_id: Option<usize>) {
        let len = self.log.len();
        let step = self.step_no;
        let (group, filter) = match split_share(path) {
            Some((g, f)) => (Some(g), f),
            None => (None, path.to_owned()),
        };
        let retained_now: Vec<(String, String)> = if group.is_none() {
            self.retained
                .iter()
                .filter(|(t, _)| mm_matches(t, &filter))
                .map(|(t, i)| (t.clone(), self.log[*i].payload.clone()))
                .collect()
        } else {
            vec![]
        };
        let session = self.sessions.entry(client.to_owned()).or_default();
        if let Some(s) = session.subs.iter_mut().find(|s| s.path == path && s.closed_at.is_none()) {
            // repeating an existing subscription: options updated, no new stream, no replay
            if s.qos != qos {
                s.resubscribed_qos_changed = true;
            }
            s.qos = qos;
            s.sub_id = sub_id;
            let _ = conn;
            return;
        }
        let mut retained_ok = BTreeMap::new();
        for (t, v) in retained_now {
            let mut set = BTreeSet::new();
            set.insert(v);
            retained_ok.insert(t, (set, false));
        }
        session.subs.push(Sub {
            path: path.to_owned(),
            filter: filter.clone(),
            group: group.clone(),
            qos,
            sub_id,
            effect_idx: len,
            closed_at: None,
            next: len,
            restart: None,
            resumed: false,
            resubscribed_qos_changed: false,
            retained_ok,
            retained_seen: BTreeSet::new(),
            retained_open: group.is_none(),
            sub_step: step,
            last_shared: None,
            observed: 0,
            unsub_behind_publish: false,
        });
        if let Some(g) = group {
            self.group_join(&g, &filter, client);
        }
    }

    fn unsubscribe(&mut self, client: &str, path: &str, behind_publish: bool) {
        let len = self.log.len();
        let mut leave = None;
        if let Some(session) = self.sessions.get_mut(client) {
            if let Some(s) = session.subs.iter_mut().find(|s| s.path == path && s.closed_at.is_none()) {
                s.closed_at = Some(len);
                s.retained_open = false;
                s.unsub_behind_publish = behind_publish;
                if let Some(g) = &s.group {
                    leave = Some((g.clone(), s.filter.clone()));
                }
            }
        }
        if let Some((g, f)) = leave {
            self.group_leave(&g, &f, client);
        }
    }

    pub fn holds(&self, client: &str, path: &str) -> bool {
        self.sessions
            .get(client)
            .map(|s| s.subs.iter().any(|x| x.path == path && x.closed_at.is_none()))
            .unwrap_or(false)
    }

    // -------------------------------------------------------------- other events

    pub fn ev_disconnect(&mut self, conn: usize) -> Vec<Closed> {
        self.step_no += 1;
        if self.is_live(conn) {
            self.close(conn, "link dropped", false);
            return vec![Closed {
                conn,
                why: "link-drop".into(),
            }];
        }
        vec![]
    }

    pub fn ev_will(&mut self, client: &str) {
        self.step_no += 1;
        if let Some(w) = self.wills.remove(client) {
            let p = PubParts {
                dup: false,
                qos: 0,
                pkid: 0,
                retain: w.retain,
                topic: w.topic.clone().into(),
                payload: w.payload.clone().into_bytes().into(),
            };
            if let Ok(t) = std::str::from_utf8(&w.topic) {
                let t = t.to_owned();
                self.accept(None, &p, w.props.clone(), t);
            }
        }
    }

    pub fn ev_other(&mut self) {
        self.step_no += 1;
    }

    // -------------------------------------------------------------- observations

    fn prop_for(&self, conn: usize, default: &'static str) -> &'static str {
        if self.guarded_clients.contains(&self.conns[conn].client) {
            "C14"
        } else {
            default
        }
    }

    /// A notification the router put into `conn`'s outgoing buffer
    pub fn observe(&mut self, conn: usize, n: &Notification) -> Vec<Record> {
        let mut out = vec![];
        if self.conns[conn].undefined {
            return out;
        }
        match n {
            Notification::DeviceAck(ack) => self.observe_ack(conn, ack, &mut out),
            Notification::Forward(f) => {
                let p = parts(&f.publish);
                self.observe_forward(conn, &p, &f.properties, &mut out);
            }
            Notification::Unschedule => {
                self.conns[conn].unanswered_unschedule += 1;
            }
            Notification::Disconnect(..) => {}
            _ => {}
        }
        out
    }

    fn observe_ack(&mut self, conn: usize, ack: &Ack, out: &mut Vec<Record>) {
        let got = match ack {
            Ack::ConnAck(_, a, _) => Reply::ConnAck(a.session_present),
            Ack::PubAck(a) | Ack::PubAckWithProperties(a, _) => Reply::PubAck(a.pkid),
            Ack::PubRec(a) | Ack::PubRecWithProperties(a, _) => Reply::PubRec(a.pkid),
            Ack::PubRel(a) | Ack::PubRelWithProperties(a, _) => Reply::PubRel(a.pkid),
            Ack::PubComp(a) | Ack::PubCompWithProperties(a, _) => Reply::PubComp(a.pkid),
            Ack::SubAck(a) | Ack::SubAckWithProperties(a, _) => Reply::SubAck(
                a.pkid,
                a.return_codes
                    .iter()
                    .map(|c| match c {
                        rumqttd::protocol::SubscribeReasonCode::QoS0 => 0,
                        rumqttd::protocol::SubscribeReasonCode::QoS1 => 1,
                        rumqttd::protocol::SubscribeReasonCode::QoS2 => 2,
                        _ => 0x80,
                    })
                    .collect(),
            ),
            Ack::UnsubAck(a) => Reply::UnsubAck(a.pkid, 0),
            Ack::PingResp(_) => Reply::PingResp,
        };
        self.eval("reply-order");
        let client = self.conns[conn].client.clone();
        let prop = self.prop_for(conn, "C06");
        let expected = self.conns[conn].owed.front().cloned();
        if expected.as_ref() == Some(&got) {
            self.conns[conn].owed.pop_front();
            self.conns[conn].last_reply = Some(got.clone());
            if matches!(got, Reply::ConnAck(_)) {
                self.conns[conn].connack_seen = true;
            }
            return;
        }
        // session_present disagreement is C08's clause
        if let (Some(Reply::ConnAck(exp)), Reply::ConnAck(g)) = (&expected, &got) {
            let (exp, g) = (*exp, *g);
            self.conns[conn].owed.pop_front();
            out.push(
                Record::new("C08", "session-present-wrong", format!("'{client}': CONNACK session_present={g}, expected {exp}"))
                    .fact("expected", exp)
                    .fact("got", g)
                    .fact("clean", self.conns[conn].clean),
            );
            return;
        }
        let kind = |r: &Reply| -> &'static str {
            match r {
                Reply::ConnAck(_) => "ConnAck",
                Reply::PubAck(_) => "PubAck",
                Reply::PubRec(_) => "PubRec",
                Reply::PubRel(_) => "PubRel",
                Reply::PubComp(_) => "PubComp",
                Reply::SubAck(..) => "SubAck",
                Reply::UnsubAck(..) => "UnsubAck",
                Reply::PingResp => "PingResp",
            }
        };
        let resumed = self.sessions.get(&client).map(|s| s.resumes > 0).unwrap_or(false);
        out.push(
            Record::new(
                prop,
                "reply-unexpected",
                format!("'{client}': got {got:?} while the next owed reply is {expected:?}"),
            )
            .fact("got", kind(&got))
            .fact("duplicate_of_previous", self.conns[conn].last_reply.as_ref() == Some(&got))
            .fact("expected", expected.as_ref().map(kind).unwrap_or("nothing"))
            .fact(
                "expected_unsub_held_filters",
                match &expected {
                    Some(Reply::UnsubAck(_, h)) => *h as i64,
                    _ => -1,
                },
            )
            .fact("session_resumed", resumed),
        );
    }

    fn resolve_out(&mut self, conn: usize, p: &PubParts, props: &Option<PublishProperties>) -> Option<String> {
        let alias = props.as_ref().and_then(|x| x.topic_alias);
        match alias {
            Some(a) if p.topic.is_empty() => self.conns[conn].aliases_out.get(&a).cloned(),
            Some(a) => {
                let t = pstr(&p.topic);
                self.conns[conn].aliases_out.insert(a, t.clone());
                Some(t)
            }
            None => Some(pstr(&p.topic)),
        }
    }

    fn observe_forward(&mut self, conn: usize, p: &PubParts, props: &Option<PublishProperties>, out: &mut Vec<Record>) {
        self.observe_forward_inner(conn, p, props, out);
        if self.conns[conn].ambiguous {
            let client = self.conns[conn].client.clone();
            if let Some(s) = self.sessions.get_mut(&client) {
                s.ambiguous = true;
            }
        }
    }

    fn observe_forward_inner(&mut self, conn: usize, p: &PubParts, props: &Option<PublishProperties>, out: &mut Vec<Record>) {
        let client = self.conns[conn].client.clone();
        let payload = pstr(&p.payload);
        if is_undefined_payload(&payload) {
            // still occupies a window slot
            if p.qos > 0 {
                self.conns[conn].out_fifo.push_back(OutEntry {
                    pkid: p.pkid,
                    sub_path: None,
                    msg: None,
                    retained: false,
                    qos: p.qos,
                });
            }
            return;
        }
        if std::env::var("VERIF_DEBUG_MODEL").is_ok() {
            eprintln!("    model: observe_forward conn={conn} '{client}' payload={payload} qos={} props={:?}", p.qos, props.as_ref().map(|x| (x.topic_alias, x.subscription_identifiers.clone())));
        }
        let is_will = payload.starts_with("W:");
        let p01: &'static str = if is_will { "C16" } else { self.prop_for(conn, "C01") };
        let Some(topic) = self.resolve_out(conn, p, props) else {
            out.push(
                Record::new(p01, "forward-unresolvable-alias", format!("'{client}': forward with empty topic and an alias the broker never defined"))
                    .fact("client", client.clone()),
            );
            return;
        };
        let used_alias = props.as_ref().and_then(|x| x.topic_alias).is_some();
        if let Some(a) = props.as_ref().and_then(|x| x.topic_alias) {
            // MQTT 5, 3.3.2.3.4: the sender must stay within the Topic Alias Maximum the receiver announced
            // (none announced = 0 = no aliases at all); a conforming subscriber treats anything else as a
            // protocol error, so the message does not reach it "with the original topic"
            self.eval("forward-alias-within-maximum");
            let max = self.conns[conn].alias_max;
            if a == 0 || a > max {
                out.push(
                    Record::new(p01, "forward-alias-beyond-maximum", format!("'{client}': forward of '{payload}' carries topic alias {a} but the subscriber announced Topic Alias Maximum {max}"))
                        .fact("announced_maximum_zero", max == 0),
                );
                return;
            }
        }
        let ids: Vec<usize> = props.as_ref().map(|x| x.subscription_identifiers.clone()).unwrap_or_default();

        // ---- window / packet id clauses (C09), judged at the router/link boundary
        if p.qos > 0 {
            self.eval("window");
            let p09 = self.prop_for(conn, "C09");
            if p.pkid == 0 {
                out.push(Record::new(p09, "forward-pkid-zero", format!("'{client}': QoS {} forward with packet id 0", p.qos)));
            }
            if self.conns[conn].out_fifo.iter().any(|e| e.pkid == p.pkid) {
                out.push(
                    Record::new(p09, "forward-pkid-in-use", format!("'{client}': packet id {} reused while still unacknowledged", p.pkid))
                        .fact("pkid", p.pkid),
                );
            }
            if self.conns[conn].rel_fifo.contains(&p.pkid) {
                self.pkid_reuse_before_pubcomp += 1;
            }
            if self.conns[conn].out_fifo.len() + 1 > self.window {
                out.push(
                    Record::new(p09, "window-exceeded", format!("'{client}': {} QoS>0 forwards awaiting acknowledgement", self.conns[conn].out_fifo.len() + 1))
                        .fact("limit", self.window),
                );
            }
        }

        // ---- which subscription is this forward for?
        let retained_flag = p.retain;
        let session = self.sessions.get(&client);
        let mut cands: Vec<usize> = vec![];
        if let Some(s) = session {
            for (i, sub) in s.subs.iter().enumerate() {
                if mm_matches(&topic, &sub.filter) {
                    cands.push(i);
                }
            }
        }
        if !ids.is_empty() {
            let narrowed: Vec<usize> = cands
                .iter()
                .copied()
                .filter(|i| {
                    let s = &self.sessions[&client].subs[*i];
                    s.sub_id.map(|id| ids.contains(&id)).unwrap_or(false)
                })
                .collect();
            if !narrowed.is_empty() {
                cands = narrowed;
            }
        }
        self.eval("forward");

        let push_out = |this: &mut Model, sub_path: Option<String>, msg: Option<usize>, retained: bool| {
            if p.qos > 0 {
                let c = &mut this.conns[conn];
                c.out_fifo.push_back(OutEntry {
                    pkid: p.pkid,
                    sub_path,
                    msg,
                    retained,
                    qos: p.qos,
                });
                c.max_outstanding = c.max_outstanding.max(c.out_fifo.len());
            }
        };

        // ---- retained replay (C15)
        if retained_flag {
            self.eval("retained-replay");
            let p15 = self.prop_for(conn, "C15");
            let eligible: Vec<usize> = cands
                .iter()
                .copied()
                .filter(|i| {
                    let s = &self.sessions[&client].subs[*i];
                    s.group.is_none()
                        && s.closed_at.is_none()
                        && !s.retained_seen.contains(&topic)
                        && s.retained_ok.get(&topic).map(|(ok, _)| ok.contains(&payload)).unwrap_or(false)
                })
                .collect();
            // several subscriptions may be owed this replay: the forward carries the granted QoS of the subscription it
            // is made for, so the right QoS comes first, then the one that still *requires* it, then the most recent
            let hit = eligible.iter().copied().min_by_key(|i| {
                let s = &self.sessions[&client].subs[*i];
                let optional = s.retained_ok.get(&topic).map(|x| x.1).unwrap_or(true);
                (s.qos != p.qos, optional, std::cmp::Reverse(s.sub_step))
            });
            match hit {
                Some(i) => {
                    let s = &mut self.sessions.get_mut(&client).unwrap().subs[i];
                    s.retained_seen.insert(topic.clone());
                    let path = s.path.clone();
                    push_out(self, Some(path), None, true);
                }
                None => {
                    let known = self.by_payload.contains_key(&payload);
                    let why = if !known {
                        "never-accepted"
                    } else if cands.is_empty() {
                        "no-matching-subscription"
                    } else {
                        "not-a-current-retained-message-of-a-new-subscription"
                    };
                    out.push(
                        Record::new(p15, "retained-wrong", format!("'{client}': retain-flagged forward of '{payload}' on '{topic}' ({why})"))
                            .fact("why", why)
                            .fact("client", client.clone()),
                    );
                    push_out(self, None, None, true);
                }
            }
            return;
        }

        // ---- live forward: must be the next expected element of one candidate stream
        let midx = self.find_msg(&topic, &payload);
        let mut hits: Vec<usize> = vec![];
        for i in cands.iter().copied() {
            let s = &self.sessions[&client].subs[i];
            if s.group.is_some() {
                continue;
            }
            if let Some(e) = self.next_expected(s) {
                let m = &self.log[e];
                if m.topic == topic && m.payload == payload {
                    hits.push(i);
                }
            }
        }
        if std::env::var("VERIF_DEBUG_MODEL").is_ok() {
            for i in cands.iter().copied() {
                let s = &self.sessions[&client].subs[i];
                let e = self.next_expected(s).map(|e| (e, self.log[e].topic.clone(), self.log[e].payload.clone()));
                eprintln!("    model: '{client}' forward {topic}/{payload} qos={} candidate '{}' qos={} next={} closed_at={:?} expects {:?}", p.qos, s.path, s.qos, s.next, s.closed_at, e);
            }
        }
        // shared candidates
        let shared: Vec<usize> = cands
            .iter()
            .copied()
            .filter(|i| self.sessions[&client].subs[*i].group.is_some())
            .collect();

        // a subscription that is still in force explains a forward before one that has ended (whose backlog
        // the broker may drop)
        if hits.iter().any(|i| self.sessions[&client].subs[*i].closed_at.is_none()) {
            hits.retain(|i| self.sessions[&client].subs[*i].closed_at.is_none());
        }
        // a forward whose QoS differs from the granted QoS of the subscription it would continue is only
        // attributed to it when no subscription with the right QoS could have been meant
        let qos_ok_candidate_exists = cands.iter().any(|i| {
            let s = &self.sessions[&client].subs[*i];
            s.group.is_none() && s.closed_at.is_none() && s.qos == p.qos
        });
        if qos_ok_candidate_exists {
            hits.retain(|i| {
                let s = &self.sessions[&client].subs[*i];
                s.qos == p.qos || s.resubscribed_qos_changed
            });
        }
        if hits.len() > 1 {
            let by_qos: Vec<usize> = hits.iter().copied().filter(|i| self.sessions[&client].subs[*i].qos == p.qos).collect();
            if by_qos.len() == 1 {
                hits = by_qos;
            } else {
                if by_qos.len() > 1 {
                    hits = by_qos;
                } else {
                    // no candidate was granted this QoS: a subscription that was repeated with another QoS (whose
                    // forwards may still carry the first one) explains it before an unrelated subscription does
                    let requal: Vec<usize> = hits.iter().copied().filter(|i| self.sessions[&client].subs[*i].resubscribed_qos_changed).collect();
                    if !requal.is_empty() {
                        hits = requal;
                    }
                }
                if ids.is_empty() {
                    self.conns[conn].ambiguous = true;
                }
            }
        }
        if !hits.is_empty() && !shared.is_empty() {
            // a plain and a shared subscription could both explain this forward
            // (a subscription repeated with another QoS may still forward with its first one: it "matches" any QoS)
            let plain_qos_match = {
                let s = &self.sessions[&client].subs[hits[0]];
                s.qos == p.qos || s.resubscribed_qos_changed
            };
            let shared_qos_match = shared.iter().any(|i| {
                let s = &self.sessions[&client].subs[*i];
                s.qos == p.qos || s.resubscribed_qos_changed
            });
            // (subscription identifiers have already narrowed the candidates: whatever is left shares them)
            if plain_qos_match == shared_qos_match {
                self.conns[conn].ambiguous = true;
                for i in shared.iter() {
                    let (g, f) = { let s = &self.sessions[&client].subs[*i]; (s.group.clone().unwrap_or_default(), s.filter.clone()) };
                    self.groups.entry((g, f)).or_default().tainted = true;
                }
            } else if shared_qos_match && !plain_qos_match {
                hits.clear();
            }
        }

        if let Some(&i) = hits.first() {
            let e = {
                let s = &self.sessions[&client].subs[i];
                self.next_expected(s).unwrap()
            };
            let s = &mut self.sessions.get_mut(&client).unwrap().subs[i];
            s.next = e + 1;
            s.observed += 1;
            s.retained_open = false;
            let (sub_qos, path, requal) = (s.qos, s.path.clone(), s.resubscribed_qos_changed);
            if sub_qos != p.qos {
                out.push(
                    Record::new(p01, "forward-qos-mismatch", format!("'{client}': forward on '{path}' has QoS {} but the granted QoS is {}", p.qos, sub_qos))
                        .fact("resubscribed_with_other_qos", requal),
                );
            }
            if used_alias && (path.contains('+') || path.contains('#')) {
                // fine as long as the resolved topic is the accepted one, which `hits` established
            }
            let m = &self.log[e];
            self.check_props(conn, m.clone(), props, out);
            push_out(self, Some(path), Some(e), false);
            return;
        }

        // ---- shared subscription (C17)
        if !shared.is_empty() {
            self.eval("shared-forward");
            let p17 = self.prop_for(conn, "C17");
            // a subscription that is still open explains the forward before one that has ended
            let open: Vec<usize> = shared.iter().copied().filter(|i| self.sessions[&client].subs[*i].closed_at.is_none()).collect();
            let pool = if open.is_empty() { shared.clone() } else { open };
            // which of this client's group memberships explains the forward: the granted QoS comes first (a membership
            // that was repeated with another QoS may keep forwarding with the first one and so fits any), then a group
            // that has not handed this message to anybody yet (every group delivers it once)
            // several memberships of this client could explain the forward and neither the granted QoS (exactly one
            // candidate with it, none repeated with another QoS) nor anything else tells them apart: the
            // identity-based clauses are not judged for this connection any more
            if pool.len() > 1 {
                let same_qos = pool.iter().filter(|i| self.sessions[&client].subs[**i].qos == p.qos).count();
                let repeated = pool.iter().any(|i| self.sessions[&client].subs[*i].resubscribed_qos_changed);
                if same_qos != 1 || repeated {
                    self.conns[conn].ambiguous = true;
                    for i in pool.iter() {
                        let (g, f) = { let s = &self.sessions[&client].subs[*i]; (s.group.clone().unwrap_or_default(), s.filter.clone()) };
                        self.groups.entry((g, f)).or_default().tainted = true;
                    }
                }
            }
            let pick = pool
                .iter()
                .copied()
                .min_by_key(|i| {
                    let s = &self.sessions[&client].subs[*i];
                    let already = match (midx, &s.group) {
                        // (clears of retained messages carry no identity)
                        _ if payload.is_empty() => false,
                        (Some(mi), Some(g)) => self
                            .groups
                            .get(&(g.clone(), s.filter.clone()))
                            .map(|gr| gr.delivered.contains_key(&mi) && !gr.redeliverable.contains(&mi))
                            .unwrap_or(false),
                        _ => false,
                    };
                    // (a group that came into being after the message was accepted explains it last)
                    let predates = match (midx, &s.group) {
                        (Some(mi), Some(g)) if !payload.is_empty() => self.groups.get(&(g.clone(), s.filter.clone())).map(|gr| mi < gr.since).unwrap_or(false),
                        _ => false,
                    };
                    (s.qos != p.qos && !s.resubscribed_qos_changed, predates, already, s.qos != p.qos)
                })
                .unwrap_or(pool[0]);
            let (gname, filter, path, closed_at, last, sub_qos, requal) = {
                let s = &self.sessions[&client].subs[pick];
                (s.group.clone().unwrap(), s.filter.clone(), s.path.clone(), s.closed_at, s.last_shared, s.qos, s.resubscribed_qos_changed)
            };
            let Some(mi) = midx else {
                out.push(
                    Record::new(p17, "shared-spurious", format!("'{client}': forward of '{payload}' on '{topic}' through group '{gname}' was never accepted"))
                        .fact("client", client.clone()),
                );
                push_out(self, Some(path), None, false);
                return;
            };
            let tainted = self.groups.get(&(gname.clone(), filter.clone())).map(|g| g.tainted).unwrap_or(false);
            let ambiguous = self.conns[conn].ambiguous || payload.is_empty() || tainted;
            let several = self.groups.keys().filter(|x| x.0 == gname).count() > 1;
            let g = self.groups.entry((gname.clone(), filter.clone())).or_default();
            if payload.is_empty() {
                // clears of retained messages carry no identity: counted as delivered, never as repeated
                g.delivered.entry(mi).or_insert((client.clone(), conn));
            } else if g.redeliverable.remove(&mi) {
                g.delivered.insert(mi, (client.clone(), conn));
            } else if ambiguous {
                g.delivered.entry(mi).or_insert((client.clone(), conn));
            } else if let Some((who, _)) = g.delivered.get(&mi) {
                out.push(
                    Record::new(p17, "shared-twice", format!("group '{gname}': '{payload}' forwarded to '{client}' after it had been forwarded to '{who}'"))
                        .fact("same_member", who == &client)
                        .fact("group_name_on_several_filters", several)
                        .fact("persistent_member_left_unacked", g.persistent_unacked_leave),
                );
            } else {
                g.delivered.insert(mi, (client.clone(), conn));
            }
            if closed_at.map(|c| mi >= c).unwrap_or(false) {
                out.push(Record::new(p17, "shared-not-member", format!("group '{gname}': '{payload}' was accepted after '{client}' left the group and still forwarded to it")));
            }
            if let (Some(l), false) = (last, ambiguous) {
                if mi <= l {
                    let pl = g.persistent_unacked_leave;
                    out.push(Record::new(p17, "shared-out-of-order", format!("group '{gname}': '{client}' got '{payload}' after a later message")).fact("persistent_member_left_unacked", pl).fact("group_name_on_several_filters", several));
                }
            }
            if sub_qos != p.qos && !ambiguous {
                out.push(Record::new(p17, "forward-qos-mismatch", format!("'{client}': shared forward QoS {} but granted {}", p.qos, sub_qos)).fact("resubscribed_with_other_qos", requal));
            }
            let s = &mut self.sessions.get_mut(&client).unwrap().subs[pick];
            if !payload.is_empty() {
                s.last_shared = Some(s.last_shared.map(|l| l.max(mi)).unwrap_or(mi));
            }
            s.observed += 1;
            push_out(self, Some(path), Some(mi), false);
            return;
        }

        // ---- small retention: the stream may jump forward over evicted messages (never backward)
        if self.lossy && shared.is_empty() {
            // (clears of retained messages carry no identity: the first one at or after the stream position counts)
            let midx_lossy = if payload.is_empty() {
                let from = cands
                    .iter()
                    .map(|i| &self.sessions[&client].subs[*i])
                    .filter(|s| s.group.is_none() && s.closed_at.is_none())
                    .map(|s| s.next)
                    .min();
                from.and_then(|f| (f..self.log.len()).find(|i| self.log[*i].topic == topic && self.log[*i].payload.is_empty()))
            } else {
                midx
            };
            if let Some(mi) = midx_lossy {
                let ahead: Vec<usize> = cands
                    .iter()
                    .copied()
                    .filter(|i| {
                        let s = &self.sessions[&client].subs[*i];
                        // (a resumed session restarts at its oldest unacknowledged forward, which may lie before a subscription
                        // that replaced an earlier one on the same filter: `next` is then below `effect_idx`)
                        s.group.is_none() && s.closed_at.is_none() && mi >= s.next && (mi >= s.effect_idx || s.next < s.effect_idx) && (s.qos == p.qos || s.resubscribed_qos_changed)
                    })
                    .collect();
                if ahead.len() == 1 {
                    let s = &mut self.sessions.get_mut(&client).unwrap().subs[ahead[0]];
                    s.next = mi + 1;
                    s.observed += 1;
                    s.retained_open = false;
                    let path = s.path.clone();
                    self.gaps_tolerated += 1;
                    push_out(self, Some(path), Some(mi), false);
                    return;
                } else if ahead.len() > 1 {
                    self.conns[conn].ambiguous = true;
                }
            }
        }

        // ---- nothing expects it: diagnose
        push_out(self, None, midx, false);
        if self.conns[conn].ambiguous {
            return;
        }
        let Some(mi) = midx else {
            out.push(
                Record::new(p01, "spurious", format!("'{client}': forward of '{payload}' on '{topic}' which the broker never accepted (or not yet released)"))
                    .fact("client", client.clone())
                    .fact("alias_used", used_alias),
            );
            return;
        };
        if cands.is_empty() {
            out.push(
                Record::new(p01, "no-matching-subscription", format!("'{client}': forward of '{payload}' on '{topic}' matches none of its subscriptions"))
                    .fact("client", client.clone())
                    .fact("alias_used", used_alias),
            );
            return;
        }
        // relative to the best candidate: the subscription whose QoS the forward carries explains it best
        let mut best: Option<Record> = None;
        let mut ordered = cands.clone();
        ordered.sort_by_key(|i| self.sessions[&client].subs[*i].qos != p.qos);
        for i in ordered.into_iter().rev() {
            let s = &self.sessions[&client].subs[i];
            let rec = if mi < s.effect_idx {
                Record::new(p01, "before-subscription", format!("'{client}': '{payload}' was accepted before subscription '{}' took effect", s.path))
            } else if s.closed_at.map(|c| mi >= c).unwrap_or(false) {
                Record::new(p01, "after-unsubscribe", format!("'{client}': '{payload}' was accepted after subscription '{}' ended", s.path))
                    .fact("session_resumed", s.resumed)
                    .fact("unsub_behind_publish_in_batch", s.unsub_behind_publish)
            } else if mi < s.next {
                let prop = if s.resumed { "C08" } else { p01 };
                Record::new(prop, "duplicate", format!("'{client}': '{payload}' delivered again on '{}'", s.path))
                    .fact("session_resumed", s.resumed)
                    .fact("qos", s.qos)
            } else {
                let exp = self.next_expected(s).map(|e| self.log[e].payload.clone());
                let prop = if s.resumed { "C08" } else { p01 };
                Record::new(prop, "gap", format!("'{client}': got '{payload}' on '{}' while '{:?}' is the next expected", s.path, exp))
                    .fact("session_resumed", s.resumed)
            };
            // candidates are visited worst first; a later (better matching) one replaces an earlier one
            // unless the earlier one is a plain ordering fault of a live stream
            let keep_old = matches!(best.as_ref().map(|b| b.oracle.as_str()), Some("gap") | Some("duplicate")) && !(rec.oracle == "gap" || rec.oracle == "duplicate");
            if !keep_old {
                best = Some(rec);
            }
        }
        if let Some(r) = best {
            let requal = self.sessions[&client].subs.iter().any(|s| s.resubscribed_qos_changed && s.closed_at.is_none());
            out.push(r.fact("alias_used", used_alias).fact("session_resubscribed_with_other_qos", requal));
        }
    }

    fn check_props(&mut self, _conn: usize, m: Msg, got: &Option<PublishProperties>, out: &mut Vec<Record>) {
        // MQTT 5 properties travel with the message (C20); alias and subscription ids are the broker's
        let norm = |p: &Option<PublishProperties>| -> Option<PublishProperties> {
            let mut p = p.clone()?;
            p.topic_alias = None;
            p.subscription_identifiers.clear();
            p.message_expiry_interval = None;
            if p == PublishProperties::default() {
                None
            } else {
                Some(p)
            }
        };
        if m.props.is_none() && got.is_none() {
            return;
        }
        self.eval("properties");
        if norm(&m.props) != norm(got) {
            out.push(
                Record::new("C20", "properties-changed", format!("forward of '{}' carries properties {:?}, published with {:?}", m.payload, norm(got), norm(&m.props))),
            );
        }
    }

    fn find_msg(&self, topic: &str, payload: &str) -> Option<usize> {
        if payload.is_empty() {
            return self.log.iter().rev().find(|m| m.payload.is_empty() && m.topic == topic).map(|m| m.idx);
        }
        self.by_payload.get(payload).copied().filter(|i| self.log[*i].topic == topic)
    }

    fn next_expected(&self, s: &Sub) -> Option<usize> {
        let end = s.closed_at.unwrap_or(self.log.len()).min(self.log.len());
        (s.next..end).find(|i| {
            let m = &self.log[*i];
            !is_undefined_payload(&m.payload) && mm_matches(&m.topic, &s.filter)
        })
    }

    /// The router no longer has a connection for this handle (seen in the snapshot / link closed)
    pub fn observe_closed(&mut self, conn: usize, context: &str) -> Vec<Record> {
        let mut out = vec![];
        let c = &self.conns[conn];
        if c.state != ConnState::Live {
            return out;
        }
        self.evals.entry("closed-with-cause").and_modify(|v| *v += 1).or_insert(1);
        if c.may_close.is_some() || c.must_close.is_some() {
            let why = c.may_close.clone().or(c.must_close.clone()).unwrap();
            self.close(conn, &why, false);
            return out;
        }
        out.push(
            Record::new("C14", "closed-without-cause", format!("connection of '{}' was closed by the broker although it did nothing that permits it ({context})", c.client))
                .fact("client", c.client.clone())
                .fact("context", context.to_owned()),
        );
        // (not when a late Disconnect event of an earlier connection explains the close: that is C14's known finding)
        if c.last_batch_solicited_ack && context != "stale-disconnect" {
            // the same close seen through C09: only an *unsolicited* acknowledgement may end a connection
            let resumed = self.sessions.get(&c.client).map(|s| s.resumes > 0).unwrap_or(false);
            out.push(
                Record::new("C09", "closed-after-solicited-ack", format!("connection of '{}' was closed right after a batch of acknowledgements the broker itself had solicited, in order", c.client))
                    .fact("session_resumed", resumed),
            );
            if resumed {
                // ... and through C08: a resumed session that is thrown out for acknowledging what it was sent cannot
                // be delivered what it is owed
                out.push(Record::new("C08", "resumed-session-closed-after-solicited-ack", format!("the resumed session of '{}' was closed right after acknowledging, in order, what the broker had sent it", c.client)));
            }
        }
        self.close(conn, "closed by broker without cause", false);
        out
    }

    /// The router still has a connection the statement says must be gone
    pub fn observe_still_open(&mut self, conn: usize) -> Vec<Record> {
        let c = &self.conns[conn];
        let mut out = vec![];
        if let (ConnState::Live, Some(why)) = (&c.state, &c.must_close) {
            out.push(
                Record::new("C09", "not-closed", format!("connection of '{}' is still open after {}", c.client, why))
                    .fact("client", c.client.clone()),
            );
        }
        out
    }

    // -------------------------------------------------------------- quiescence

    /// All clients have drained and acknowledged everything and the router has gone idle
    pub fn quiescent(&mut self) -> Vec<Record> {
        let mut out = vec![];
        let n = self.conns.len();
        for conn in 0..n {
            if self.conns[conn].state != ConnState::Live || self.conns[conn].undefined {
                continue;
            }
            let client = self.conns[conn].client.clone();
            // C06: nothing owed
            self.eval("replies-complete");
            if let Some(r) = self.conns[conn].owed.front().cloned() {
                let kind = format!("{r:?}");
                let kind = kind.split('(').next().unwrap_or("").to_owned();
                let held = match &r {
                    Reply::UnsubAck(_, h) => *h as i64,
                    _ => -1,
                };
                let resumed = self.sessions.get(&client).map(|s| s.resumes > 0).unwrap_or(false);
                let prop = self.prop_for(conn, "C06");
                out.push(
                    Record::new(prop, "reply-missing", format!("'{client}': {r:?} was never sent ({} replies outstanding at quiescence)", self.conns[conn].owed.len()))
                        .fact("reply", kind)
                        .fact("unsub_held_filters", held)
                        .fact("session_resumed", resumed),
                );
            }
            // C01/C08: streams complete
            let subs: Vec<Sub> = self.sessions.get(&client).map(|s| s.subs.clone()).unwrap_or_default();
            for s in subs.iter().filter(|s| s.closed_at.is_none() && s.group.is_none()) {
                self.eval("stream-complete");
                if self.conns[conn].ambiguous {
                    continue;
                }
                if self.lossy {
                    continue;
                }
                if let Some(e) = self.next_expected(s) {
                    let m = self.log[e].clone();
                    let missing = (e..self.log.len()).filter(|i| mm_matches(&self.log[*i].topic, &s.filter)).count();
                    let is_will = m.payload.starts_with("W:");
                    let prop = if is_will {
                        "C16"
                    } else if s.resumed {
                        "C08"
                    } else {
                        self.prop_for(conn, "C01")
                    };
                    out.push(
                        Record::new(prop, "undelivered", format!("'{client}': '{}' on '{}' (and {} more) never forwarded on subscription '{}' although the broker is idle", m.payload, m.topic, missing - 1, s.path))
                            .fact("session_resumed", s.resumed)
                            .fact("qos", s.qos)
                            .fact("none_delivered_since_resume", s.resumed && s.observed == 0),
                    );
                    // the same state seen through C09's last-but-one clause: everything was acknowledged in
                    // order, yet the backlog of a client that had QoS>0 deliveries outstanding is not resumed
                    if self.conns[conn].max_outstanding > 0 && !is_will {
                        let p09 = self.prop_for(conn, "C09");
                        out.push(
                            Record::new(p09, "backlog-not-resumed", format!("'{client}': after all acknowledgements the backlog on '{}' ({} messages, first '{}') is not forwarded without further stimulus", s.path, missing, m.payload))
                                .fact("session_resumed", s.resumed)
                                .fact("window_was_full", self.conns[conn].max_outstanding >= self.window),
                        );
                    }
                }
                // C15: replay complete
                self.eval("retained-complete");
                let want: Vec<&String> = s.retained_ok.iter().filter(|(t, (_, optional))| !optional && !s.retained_seen.contains(*t)).map(|(t, _)| t).collect();
                // window clause: the replay is only owed if it is certain to have fitted
                let window_room = {
                    // forwards of this replay themselves count in max_outstanding
                    let others = self.conns[conn].max_outstanding.saturating_sub(s.retained_seen.len());
                    self.window.saturating_sub(others)
                };
                let room = if s.resubscribed_qos_changed {
                    // (known finding KF-10: the request may still run with the QoS of the first subscription)
                    window_room.min(self.qos0_batch)
                } else if s.qos > 0 {
                    window_room
                } else {
                    self.qos0_batch
                };
                let fits = s.retained_ok.len() <= room;
                if !want.is_empty() && fits {
                    let prop = self.prop_for(conn, "C15");
                    out.push(
                        Record::new(prop, "retained-missing", format!("'{client}': retained message of '{}' was not replayed to new subscription '{}'", want[0], s.path))
                            .fact("missing", want.len()),
                    );
                }
            }
        }
        // C17: every message accepted while a group was continuously non-empty went to some member
        let keys: Vec<(String, String)> = self.groups.keys().cloned().collect();
        for k in keys {
            let g = self.groups[&k].clone();
            if g.members.is_empty() {
                continue;
            }
            self.eval("shared-complete");
            // members must all be live and defined for the liveness clause to be judged
            let all_ok = g.members.iter().all(|m| self.live_of(m).map(|c| !self.conns[c].undefined && !self.conns[c].ambiguous).unwrap_or(false));
            if !all_ok {
                continue;
            }
            if g.tainted {
                self.eval("shared-complete-not-judged-ambiguous-ledger");
                continue;
            }
            let missing: Vec<usize> = (g.since..self.log.len())
                .filter(|i| {
                    let m = &self.log[*i];
                    !is_undefined_payload(&m.payload) && !m.payload.is_empty() && mm_matches(&m.topic, &k.1) && !g.delivered.contains_key(i)
                })
                .collect();
            if std::env::var("VERIF_DEBUG_MODEL").is_ok() {
                eprintln!("    model: quiescent group {:?} since={} members={:?} delivered={} missing={:?}", k, g.since, g.members, g.delivered.len(), missing.iter().take(5).collect::<Vec<_>>());
            }
            if let Some(first) = missing.first() {
                out.push(
                    Record::new("C17", "shared-undelivered", format!("group '{}' on '{}': '{}' (and {} more) forwarded to no member although the broker is idle", k.0, k.1, self.log[*first].payload, missing.len() - 1))
                        .fact("members", g.members.len())
                        .fact("group", k.0.clone())
                        .fact("filter", k.1.clone())
                        .fact("member_left_since_first_missing", g.last_leave.map(|l| l >= *first).unwrap_or(false))
                        .fact("group_name_on_several_filters", self.groups.keys().filter(|x| x.0 == k.0).count() > 1),
                );
            }
        }
        out
    }

    pub fn describe(&self) -> serde_json::Value {
        json!({
            "accepted": self.log.len(),
            "retained_topics": self.retained.len(),
            "sessions": self.sessions.len(),
            "groups": self.groups.len(),
            "connections": self.conns.len(),
        })
    }
}
