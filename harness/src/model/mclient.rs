//! M-client (DESIGN.md 2.4 / Appendix B): what a client session owes, written from the
//! statements of C02/C07/C10 and the MQTT flow rules – not from `state.rs`.
//!
//! The model is *observational*: it is fed what crossed the boundary of the code under
//! test (requests accepted, packets written, broker packets handed in, results returned)
//! and keeps
//!   * `live`: every QoS>0 publish from the moment it is first written (or parked on a
//!     packet-id collision) until the broker's final acknowledgement for it was accepted;
//!   * the phase of each (parked / sent / released = PUBREC seen, PUBCOMP not yet);
//!   * the QoS 2 publishes received from the broker on this connection and not yet released.
//! It never looks inside the state machine. Identity of a publish is its unique payload.
//!
//! Readings fixed here (DESIGN.md section 4, end):
//!   * "unacknowledged" = from first write until PUBACK, or PUBCOMP for QoS 2;
//!   * an acknowledgement is *solicited* iff a live publish holds that packet id in the
//!     phase the acknowledgement belongs to (PUBACK/PUBREC: sent; PUBCOMP: released). The
//!     statements do not distinguish acknowledgement kinds by the QoS of the publish, so a
//!     PUBACK for a QoS 2 id (or a PUBREC for a QoS 1 id) that the client accepts is taken
//!     as the broker's acknowledgement of that id;
//!   * MQTT 5: a PUBACK, or a PUBREC with reason code >= 0x80, or any PUBCOMP, ends the flow
//!     (MQTT 5 section 4.3.3: a failing PUBREC is the final packet of the exchange);
//!   * when the broker reports no session on reconnect the session is over: nothing is owed
//!     any more (the statement's second sentence is conditional on "session present").
use crate::sub::s2::{Call, Ev, OutKind, Outcome, Pk, Ver, Via};
use std::collections::{BTreeMap, BTreeSet};

#[derive(Clone, Copy, Debug, PartialEq, Eq)]
pub enum Phase {
    /// accepted, waiting for the packet id to free up (never written yet)
    Parked,
    /// written, waiting for PUBACK / PUBREC
    Sent,
    /// PUBREC accepted, waiting for PUBCOMP
    Released,
}

impl Phase {
    pub fn name(self) -> &'static str {
        match self {
            Phase::Parked => "parked",
            Phase::Sent => "sent",
            Phase::Released => "released",
        }
    }
}

#[derive(Clone, Debug)]
pub struct Live {
    /// unique payload = identity
    pub pid: String,
    pub pkid: u16,
    pub qos: u8,
    pub topic: String,
    pub phase: Phase,
    /// order of first acceptance
    pub order: u64,
    /// connection on which it was last written (None while parked and never written)
    pub written_conn: Option<u32>,
}

/// How the model classifies a broker packet *before* it is handed to the code under test
#[derive(Clone, Debug, PartialEq, Eq)]
pub enum InClass {
    /// solicited and final for the publish with this payload id
    AckFinal(String),
    /// solicited PUBREC (success): the publish moves to `Released`
    AckRec(String),
    /// PUBREC for an id whose publish is already released (a repeated PUBREC)
    AckRepeatedRec,
    /// PUBACK / PUBREC / PUBCOMP nothing solicited
    AckUnsolicited,
    /// publish from the broker
    PublishIn,
    /// PUBREL for a QoS 2 publish received on this connection and not yet released
    RelKnown,
    RelUnknown,
    Other,
}

impl InClass {
    pub fn name(&self) -> &'static str {
        match self {
            InClass::AckFinal(_) => "final",
            InClass::AckRec(_) => "rec",
            InClass::AckRepeatedRec => "repeated-rec",
            InClass::AckUnsolicited => "unsolicited",
            InClass::PublishIn => "publish",
            InClass::RelKnown => "rel-known",
            InClass::RelUnknown => "rel-unknown",
            InClass::Other => "other",
        }
    }
}

/// What one observed call changed in the model (what the oracles judge the call by)
#[derive(Clone, Debug, Default)]
pub struct Delta {
    /// a publish became live by being written for the first time
    pub new_sent: Option<String>,
    /// a publish became live by being parked on a collision (AwaitAck)
    pub new_parked: Option<String>,
    /// a parked publish was written (collision released)
    pub released_parked: Option<String>,
    /// a live publish was written again (retransmission); `Some(diff)` lists changed fields
    pub rewritten: Option<(String, Vec<&'static str>)>,
    /// PUBREL written for this id
    pub pubrel_written: Option<u16>,
    /// the publish left `live` through its final acknowledgement
    pub completed: Option<Live>,
    /// the publish moved to `Released`
    pub to_released: Option<String>,
    /// a QoS>0 publish was written whose packet id another written, unacknowledged publish
    /// holds: (holder payload id, holder phase)
    pub pkid_conflict: Option<(String, Phase)>,
    /// a publish request was accepted (Ok) but neither written nor announced as parked
    pub vanished: Option<String>,
    /// a parked publish was written under another packet id than announced
    pub parked_pkid_changed: bool,
}

#[derive(Clone, Debug, Default)]
pub struct MClient {
    pub live: BTreeMap<String, Live>,
    /// QoS 2 publishes received on this connection, not yet released
    pub in_qos2: BTreeSet<u16>,
    /// manual mode: (pkid, qos) of publishes received on this connection the user has not acked
    pub in_unacked: BTreeSet<(u16, u8)>,
    /// manual mode: ids for which the user sent PUBREC on this connection
    pub user_recs: BTreeSet<u16>,
    pub conn: u32,
    order: u64,
    /// publishes that stopped being owed because the broker reported no session
    pub dropped_no_session: u64,
}

impl MClient {
    pub fn new() -> MClient {
        MClient::default()
    }

    /// written and unacknowledged (the window of C07)
    pub fn window(&self) -> usize {
        self.live.values().filter(|l| l.phase != Phase::Parked).count()
    }

    /// written (or, for a pending release, released again) on connection `conn` and
    /// unacknowledged: what the state machine counts while `pending` is still being replayed
    pub fn window_on(&self, conn: u32) -> usize {
        self.live
            .values()
            .filter(|l| l.phase != Phase::Parked && l.written_conn == Some(conn))
            .count()
    }

    pub fn parked(&self) -> Option<&Live> {
        self.live.values().find(|l| l.phase == Phase::Parked)
    }

    pub fn parked_count(&self) -> usize {
        self.live.values().filter(|l| l.phase == Phase::Parked).count()
    }

    pub fn released_ids(&self) -> BTreeSet<u16> {
        self.live
            .values()
            .filter(|l| l.phase == Phase::Released)
            .map(|l| l.pkid)
            .collect()
    }

    /// a written, unacknowledged publish holding this id
    pub fn holder(&self, pkid: u16) -> Option<&Live> {
        self.live
            .values()
            .filter(|l| l.pkid == pkid && l.phase != Phase::Parked)
            .min_by_key(|l| l.order)
    }

    /// the publish an acknowledgement arriving on the *current* connection can refer to: it
    /// holds the id, is in the given phase, and was (re)written on this connection (an
    /// acknowledgement for something not yet retransmitted is not solicited here)
    fn holder_in(&self, pkid: u16, phase: Phase) -> Option<&Live> {
        self.live
            .values()
            .filter(|l| l.pkid == pkid && l.phase == phase && l.written_conn == Some(self.conn))
            .min_by_key(|l| l.order)
    }

    pub fn classify(&self, ver: Ver, p: &Pk) -> InClass {
        match p {
            Pk::PubAck { pkid, .. } => match self.holder_in(*pkid, Phase::Sent) {
                Some(l) => InClass::AckFinal(l.pid.clone()),
                None => InClass::AckUnsolicited,
            },
            Pk::PubRec { pkid, reason } => match self.holder_in(*pkid, Phase::Sent) {
                Some(l) if ver == Ver::V5 && *reason >= 0x80 => InClass::AckFinal(l.pid.clone()),
                Some(l) => InClass::AckRec(l.pid.clone()),
                None if self.holder_in(*pkid, Phase::Released).is_some() => InClass::AckRepeatedRec,
                None => InClass::AckUnsolicited,
            },
            Pk::PubComp { pkid, .. } => match self.holder_in(*pkid, Phase::Released) {
                Some(l) => InClass::AckFinal(l.pid.clone()),
                None => InClass::AckUnsolicited,
            },
            Pk::Publish { .. } => InClass::PublishIn,
            Pk::PubRel { pkid, .. } => {
                if self.in_qos2.contains(pkid) {
                    InClass::RelKnown
                } else {
                    InClass::RelUnknown
                }
            }
            _ => InClass::Other,
        }
    }

    fn written(&mut self, pk: &Pk, conn: u32, d: &mut Delta) {
        let Pk::Publish {
            pkid,
            qos,
            topic,
            payload,
            ..
        } = pk
        else {
            return;
        };
        if *qos == 0 {
            return;
        }
        let existing = self.live.get(payload).cloned();
        let is_rewrite = matches!(&existing, Some(l) if l.phase != Phase::Parked);
        if !is_rewrite {
            // first write of this publish: who else holds the id on the wire?
            if let Some(h) = self
                .live
                .values()
                .filter(|l| l.pkid == *pkid && l.phase != Phase::Parked && &l.pid != payload)
                .min_by_key(|l| l.order)
            {
                d.pkid_conflict = Some((h.pid.clone(), h.phase));
            }
        }
        match existing {
            Some(l) if l.phase == Phase::Parked => {
                if l.pkid != *pkid {
                    d.parked_pkid_changed = true;
                }
                let e = self.live.get_mut(payload).unwrap();
                e.phase = Phase::Sent;
                e.pkid = *pkid;
                e.written_conn = Some(conn);
                d.released_parked = Some(payload.clone());
            }
            Some(l) => {
                let mut diff = vec![];
                if l.pkid != *pkid {
                    diff.push("pkid");
                }
                if l.qos != *qos {
                    diff.push("qos");
                }
                if &l.topic != topic {
                    diff.push("topic");
                }
                self.live.get_mut(payload).unwrap().written_conn = Some(conn);
                d.rewritten = Some((payload.clone(), diff));
            }
            None => {
                self.order += 1;
                self.live.insert(
                    payload.clone(),
                    Live {
                        pid: payload.clone(),
                        pkid: *pkid,
                        qos: *qos,
                        topic: topic.clone(),
                        phase: Phase::Sent,
                        order: self.order,
                        written_conn: Some(conn),
                    },
                );
                d.new_sent = Some(payload.clone());
            }
        }
    }

    /// Feed one observed call; `cls` is `classify()` of the input taken before the call.
    pub fn observe(&mut self, ver: Ver, call: &Call, cls: &InClass) -> Delta {
        let mut d = Delta::default();
        let _ = ver;
        // the acknowledgement takes effect first: a publish released by it is written after
        // the holder has left
        if call.via == Via::Read && call.outcome.is_ok() {
            match cls {
                InClass::AckFinal(pid) => d.completed = self.live.remove(pid),
                InClass::AckRec(pid) => {
                    if let Some(l) = self.live.get_mut(pid) {
                        l.phase = Phase::Released;
                    }
                    d.to_released = Some(pid.clone());
                }
                InClass::RelKnown => {
                    self.in_qos2.remove(&call.input.pkid());
                    self.user_recs.remove(&call.input.pkid());
                }
                _ => {}
            }
        }
        // every QoS>0 publish the call put on the wire
        if let Outcome::Ok(Some(pk @ Pk::Publish { .. })) = &call.outcome {
            self.written(pk, call.conn, &mut d);
        }
        if let Outcome::Ok(Some(Pk::PubRel { pkid, .. })) = &call.outcome {
            d.pubrel_written = Some(*pkid);
            // a replayed release puts the flow on the current connection
            let conn = call.conn;
            for l in self.live.values_mut() {
                if l.pkid == *pkid && l.phase == Phase::Released {
                    l.written_conn = Some(conn);
                }
            }
        }
        match call.via {
            Via::Request | Via::Replay => {
                if let (
                    Pk::Publish {
                        qos,
                        topic,
                        payload,
                        ..
                    },
                    Outcome::Ok(None),
                ) = (&call.input, &call.outcome)
                {
                    if *qos > 0 && !self.live.contains_key(payload) {
                        // accepted but not written: it must have been announced as parked
                        let parked_id = call.events.iter().find_map(|e| match e {
                            Ev::Out(OutKind::AwaitAck, id) => Some(*id),
                            _ => None,
                        });
                        self.order += 1;
                        self.live.insert(
                            payload.clone(),
                            Live {
                                pid: payload.clone(),
                                pkid: parked_id.unwrap_or(0),
                                qos: *qos,
                                topic: topic.clone(),
                                phase: Phase::Parked,
                                order: self.order,
                                written_conn: None,
                            },
                        );
                        if parked_id.is_some() {
                            d.new_parked = Some(payload.clone());
                        } else {
                            d.vanished = Some(payload.clone());
                        }
                    }
                }
                if call.outcome.is_ok() {
                    match &call.input {
                        Pk::PubAck { pkid, .. } => {
                            self.in_unacked.remove(&(*pkid, 1));
                        }
                        Pk::PubRec { pkid, .. } => {
                            self.in_unacked.remove(&(*pkid, 2));
                            self.user_recs.insert(*pkid);
                        }
                        _ => {}
                    }
                }
            }
            Via::Read => {
                if let Pk::Publish { pkid, qos, .. } = &call.input {
                    // the client has seen it whatever it answered
                    if !matches!(call.outcome, Outcome::Panic(_)) {
                        if *qos == 2 {
                            self.in_qos2.insert(*pkid);
                        }
                        if *qos > 0 {
                            self.in_unacked.insert((*pkid, *qos));
                        }
                    }
                }
            }
            Via::Ping | Via::ConnAck => {}
        }
        d
    }

    /// the connection is gone (`EventLoop::clean()`)
    pub fn connection_lost(&mut self) {
        self.in_qos2.clear();
        self.in_unacked.clear();
        self.user_recs.clear();
    }

    /// CONNACK of the next connection
    pub fn reconnected(&mut self, session_present: bool) {
        self.conn += 1;
        if !session_present {
            self.dropped_no_session += self.live.len() as u64;
            self.live.clear();
        }
    }
}
