//! Reference models (sequential specifications used by the oracles)
pub mod mbroker;
pub mod mlog;
pub mod mmatch;
pub mod mclient;
