//! Reference models (sequential specifications used by the oracles)
pub mod mbroker;
