//! Blocked-step supervisor ("halt" half of C03): a router step driven by the harness (S4) does no I/O
//! and never sleeps, so a thread that sits *inside* a step in state `S` (sleeping) without consuming a
//! single CPU tick is blocked on a lock or a channel for good – the routing core has halted. The verdict is
//! taken from the scheduler's own accounting (`/proc/self/task/<tid>/stat`: state and utime+stime), not
//! from elapsed time alone: a step that is merely slow on a loaded machine is runnable / accumulates CPU
//! time and is never reported. The wall-clock part (how long the state has to persist) is generous.
use serde_json::{json, Value};
use std::sync::atomic::{AtomicBool, AtomicU64, Ordering};
use std::sync::{Arc, Mutex, OnceLock};
use std::time::{Duration, Instant};

pub struct Beat {
    /// `<pid>/task/<tid>` of the worker thread
    task: String,
    in_step: AtomicBool,
    steps: AtomicU64,
    /// what the thread is stepping: (step kind, replay document of the history)
    what: Mutex<(String, Value)>,
}

fn registry() -> &'static Mutex<Vec<Arc<Beat>>> {
    static R: OnceLock<Mutex<Vec<Arc<Beat>>>> = OnceLock::new();
    R.get_or_init(|| Mutex::new(vec![]))
}

thread_local! {
    static BEAT: Arc<Beat> = {
        let task = std::fs::read_link("/proc/thread-self").map(|p| p.to_string_lossy().into_owned()).unwrap_or_default();
        let b = Arc::new(Beat { task, in_step: AtomicBool::new(false), steps: AtomicU64::new(0), what: Mutex::new((String::new(), Value::Null)) });
        registry().lock().unwrap().push(b.clone());
        b
    };
}

/// histories started by all workers (each has its own case seed / symbol sequence / scenario name)
pub static HISTORIES: AtomicU64 = AtomicU64::new(0);

/// the history this thread is about to step (stored once per history)
pub fn set_history(replay: Value) {
    HISTORIES.fetch_add(1, Ordering::Relaxed);
    BEAT.with(|b| b.what.lock().unwrap().1 = replay);
}

pub fn enter_step(kind: &str) {
    BEAT.with(|b| {
        if let Ok(mut w) = b.what.try_lock() {
            if w.0 != kind {
                w.0 = kind.to_owned();
            }
        }
        b.in_step.store(true, Ordering::SeqCst);
    });
}

pub fn leave_step() {
    BEAT.with(|b| {
        b.steps.fetch_add(1, Ordering::SeqCst);
        b.in_step.store(false, Ordering::SeqCst);
    });
}

/// (state, utime + stime in clock ticks) of a thread
fn sched(task: &str) -> Option<(char, u64)> {
    let text = std::fs::read_to_string(format!("/proc/{task}/stat")).ok()?;
    // the command name is in parentheses and may contain spaces
    let rest = &text[text.rfind(')')? + 2..];
    let f: Vec<&str> = rest.split(' ').collect();
    let state = f.first()?.chars().next()?;
    let utime: u64 = f.get(11)?.parse().ok()?;
    let stime: u64 = f.get(12)?.parse().ok()?;
    Some((state, utime + stime))
}

pub struct Verdict {
    pub kind: String,
    pub replay: Value,
    pub blocked_for_s: u64,
    /// false: the step sleeps without consuming CPU time (blocked); true: the step has consumed `blocked_for_s`
    /// seconds of CPU time without returning (it spins: a bounded loop of the router no longer terminates)
    pub spinning: bool,
}

/// CPU time one router step may consume before it counts as a livelock, in clock ticks (100 per second): normal
/// steps take micro- to milliseconds, the largest emulated turns some tens of milliseconds
const SPIN_TICKS: u64 = 30 * 100;

/// Starts the supervisor thread. `on_halt` is called (once) with what was being stepped; it must not return
/// into the blocked worker's results (the worker cannot be recovered): it reports and ends the process.
pub fn start(block_secs: u64, on_halt: impl Fn(Verdict) + Send + 'static) {
    std::thread::Builder::new()
        .name("verif-step-supervisor".into())
        .spawn(move || {
            // per beat: (steps, cpu) last seen changing, and since when nothing has changed
            let mut seen: Vec<(u64, u64, Instant)> = vec![];
            // per beat: (step counter, CPU time when that step was first seen)
            let mut step_cpu: Vec<(u64, u64)> = vec![];
            loop {
                std::thread::sleep(Duration::from_millis(500));
                let beats: Vec<Arc<Beat>> = registry().lock().unwrap().clone();
                seen.resize(beats.len(), (u64::MAX, u64::MAX, Instant::now()));
                step_cpu.resize(beats.len(), (u64::MAX, 0));
                for (i, b) in beats.iter().enumerate() {
                    let steps = b.steps.load(Ordering::SeqCst);
                    let in_step = b.in_step.load(Ordering::SeqCst);
                    let Some((state, cpu)) = sched(&b.task) else { continue };
                    // livelock: one and the same step keeps consuming CPU time
                    if !in_step || step_cpu[i].0 != steps {
                        step_cpu[i] = (steps, cpu);
                    } else if cpu.saturating_sub(step_cpu[i].1) >= SPIN_TICKS {
                        let (kind, replay) = b.what.lock().map(|w| w.clone()).unwrap_or_default();
                        on_halt(Verdict { kind, replay, blocked_for_s: cpu.saturating_sub(step_cpu[i].1) / 100, spinning: true });
                        return;
                    }
                    let blocked_now = in_step && state == 'S';
                    if !blocked_now || steps != seen[i].0 || cpu != seen[i].1 {
                        seen[i] = (steps, cpu, Instant::now());
                        continue;
                    }
                    let secs = seen[i].2.elapsed().as_secs();
                    if secs >= block_secs {
                        let (kind, replay) = b.what.lock().map(|w| w.clone()).unwrap_or_default();
                        on_halt(Verdict { kind, replay, blocked_for_s: secs, spinning: false });
                        return;
                    }
                }
            }
        })
        .ok();
}

/// Evidence document for a run that ended in the supervisor (the workers' statistics are out of reach)
pub fn evidence(property: &str, tier: &str, seed: u64, level: &str, wall_s: f64, violations: u64, v: &Verdict) -> Value {
    let histories = HISTORIES.load(Ordering::Relaxed);
    let steps: u64 = registry().lock().map(|r| r.iter().map(|b| b.steps.load(Ordering::Relaxed)).sum()).unwrap_or(0);
    // (a replay runs the one stored history: that is not an exploration)
    let level = if histories < 2 { "other" } else { level };
    json!({
        "property_id": property,
        "tier": tier,
        "seed": seed,
        "level": level,
        "coverage": {
            "evaluations": histories,
            "distinct_nontrivial": histories,
            "router_steps": steps,
            "explanation": "run ended by the step supervisor: one history made a router step block or spin for good",
            "rule": "histories started by all workers until the supervisor ended the run (each has its own case seed, symbol sequence or scenario name; every one drives the router through at least a connect); the per-oracle counts of the workers are out of reach because the blocked worker cannot be joined",
            "samples": [ {"router_step": v.kind, "state": if v.spinning { "spinning (CPU seconds consumed)" } else { "blocked (seconds asleep without CPU time)" }, "seconds": v.blocked_for_s, "history": v.replay} ],
        },
        "assumptions": ["a harness-driven router step does no I/O: a thread sleeping inside it without consuming CPU time is blocked"],
        "wall_s": wall_s,
        "violations": violations,
    })
}
