//! The scripted hostile broker of S3 (DESIGN.md Appendix B): one tokio task per connection on
//! the same paused-time runtime as the client. It decodes what the client writes with the
//! *broker's* codec, answers according to a per-connection `ConnPolicy`, and logs every frame
//! it receives or sends with the virtual timestamp.
//!
//! All times inside a `ConnPolicy` are **virtual milliseconds relative to the moment the
//! connection was accepted** (the pipe handed to the client), so the same policy can be reused
//! for the 1st, 2nd, … connection of a run.
use super::stream::Dir;
use super::wire::{self, Codec, Decoded, Frame, Kind, Pk, Ver};
use bytes::BytesMut;
use rumqttd::protocol::{ConnAckProperties, Packet};
use serde::Serialize;
use std::collections::BTreeMap;
use std::sync::{Arc, Mutex};
use std::time::Duration;
use tokio::io::{AsyncReadExt, AsyncWriteExt, DuplexStream};
use tokio::time::Instant;

/// virtual milliseconds
pub type Ms = u64;

/// How the transport-level connect behaves
#[derive(Clone, Copy, Debug, PartialEq, Eq, Serialize)]
pub enum Accept {
    /// the connector resolves after this many virtual ms
    After(Ms),
    /// the connector future never resolves (connect-timeout scenarios)
    Never,
    /// the connector fails with `ConnectionRefused`
    Refuse,
}

#[derive(Clone, Debug)]
pub enum ConnAckRule {
    /// send a CONNACK `delay_ms` after the CONNECT was decoded
    Send {
        session_present: bool,
        /// 0 = accepted; v4 return code / v5 reason code otherwise
        code: u8,
        delay_ms: Ms,
        /// v5 only (e.g. `receive_max`, `server_keep_alive`)
        props: Option<ConnAckProperties>,
    },
    /// never answer the CONNECT
    Never,
    /// write these bytes instead of a CONNACK (a truncated CONNACK, another packet, garbage)
    Raw { bytes: Vec<u8>, delay_ms: Ms, note: String },
}

impl ConnAckRule {
    pub fn ok(session_present: bool) -> ConnAckRule {
        ConnAckRule::Send {
            session_present,
            code: 0,
            delay_ms: 0,
            props: None,
        }
    }
}

/// Reply rule for one received packet
#[derive(Clone, Debug, PartialEq, Eq, Serialize)]
pub enum Reply {
    /// the reply MQTT prescribes, at once
    Normal,
    /// the normal reply, `d` virtual ms later
    Delay(Ms),
    /// the normal reply twice (one write)
    Duplicate,
    /// no reply
    Drop,
    /// PUBREC for a QoS 1 publish, PUBACK for a QoS 2 publish / PUBREL, UNSUBACK for SUBSCRIBE,
    /// SUBACK for UNSUBSCRIBE (PINGREQ: dropped)
    WrongKind,
    /// the normal kind of reply but carrying this packet id (PINGREQ: PINGRESP + PUBACK(id))
    UnsolicitedId(u16),
    /// same mechanics as `UnsolicitedId`; use an id above the client's inflight limit
    IdAboveLimit(u16),
    /// (v5) the normal kind of reply with this reason code (≥ 0x80 = failure)
    Reason(u8),
    /// hold replies of this class until `n` are collected, then send them in reverse order in one
    /// write; an incomplete window is released after `REORDER_FLUSH_MS`
    Reorder(usize),
}

/// an incomplete reorder window is flushed this long after its first entry
pub const REORDER_FLUSH_MS: Ms = 20;

/// Received-packet classes that can carry a reply rule
#[derive(Clone, Copy, Debug, PartialEq, Eq, Hash, PartialOrd, Ord, Serialize)]
pub enum On {
    PublishQ1,
    PublishQ2,
    PubRel,
    Subscribe,
    Unsubscribe,
    PingReq,
    /// the client's PUBREC for a broker-initiated QoS 2 publish (normal reply: PUBREL)
    PubRec,
}

/// The i-th packet of a class gets `first[i]`, later ones `rest`
#[derive(Clone, Debug, Serialize)]
pub struct RuleSeq {
    pub first: Vec<Reply>,
    pub rest: Reply,
}

impl RuleSeq {
    pub fn always(r: Reply) -> RuleSeq {
        RuleSeq { first: vec![], rest: r }
    }
    /// `n` normal replies, then `r` forever ("silence from the n-th packet of that class" with
    /// `r = Drop`)
    pub fn normal_then(n: usize, r: Reply) -> RuleSeq {
        RuleSeq {
            first: vec![Reply::Normal; n],
            rest: r,
        }
    }
    fn pick(&self, i: usize) -> Reply {
        self.first.get(i).cloned().unwrap_or_else(|| self.rest.clone())
    }
}

/// Frames the broker writes on its own initiative, in **one** `write_all` (so they reach the
/// client in one read), `at_ms` after the connection was accepted – but never before the
/// CONNACK (a burst that is due earlier goes out right behind the CONNACK; if no CONNACK is
/// ever sent, no burst is)
#[derive(Clone, Debug)]
pub struct Burst {
    pub at_ms: Ms,
    pub frames: Vec<Frame>,
}

/// Everything the scripted broker does on one connection
#[derive(Clone, Debug)]
pub struct ConnPolicy {
    pub accept: Accept,
    pub connack: ConnAckRule,
    /// classes without an entry are answered normally
    pub rules: BTreeMap<On, RuleSeq>,
    pub unsolicited: Vec<Burst>,
    /// no reply to packets with index ≥ n (0-based, counted after the CONNECT)
    pub silent_from_packet: Option<usize>,
    /// nothing at all is written at or after this time
    pub silent_from_ms: Option<Ms>,
    /// packet index n (0-based, after the CONNECT) is received, not answered, and the pipe closed
    pub close_after_packet: Option<usize>,
    /// the broker closes the pipe at this time
    pub close_at_ms: Option<Ms>,
    /// from this time on the broker does not read (the pipe fills up: TCP back-pressure)
    pub stop_reading_at_ms: Option<Ms>,
    /// capacity of each direction of the in-memory pipe
    pub pipe_capacity: usize,
}

impl ConnPolicy {
    /// a well-behaved broker
    pub fn normal(session_present: bool) -> ConnPolicy {
        ConnPolicy {
            accept: Accept::After(0),
            connack: ConnAckRule::ok(session_present),
            rules: BTreeMap::new(),
            unsolicited: vec![],
            silent_from_packet: None,
            silent_from_ms: None,
            close_after_packet: None,
            close_at_ms: None,
            stop_reading_at_ms: None,
            pipe_capacity: 1 << 20,
        }
    }
    pub fn rule(mut self, on: On, seq: RuleSeq) -> ConnPolicy {
        self.rules.insert(on, seq);
        self
    }
}

#[derive(Clone, Debug, Serialize)]
pub struct WireEntry {
    /// virtual ms since the start of the run
    pub at: Ms,
    /// connection index (0-based count of connector calls)
    pub conn: usize,
    pub dir: Dir,
    pub pk: Pk,
    /// the packet as the broker's codec decoded / encoded it (None for raw frames)
    #[serde(skip)]
    pub raw: Option<Packet>,
    /// cumulative byte offset in this direction at the end of this frame
    pub end_offset: u64,
    /// B2C only: the frame was scheduled but withheld (silence rule); nothing was written
    pub suppressed: bool,
}

#[derive(Clone, Debug, PartialEq, Eq, Serialize)]
pub enum ConnEventKind {
    Accepted,
    /// the client's end was dropped / shut down; `leftover` = bytes of an incomplete frame
    ClientClosed { leftover: usize },
    BrokerClosed { why: String },
    Undecodable { why: String },
    StoppedReading,
}

#[derive(Clone, Debug, Serialize)]
pub struct ConnEvent {
    pub at: Ms,
    pub conn: usize,
    pub what: ConnEventKind,
}

#[derive(Default, Debug)]
pub struct BrokerLog {
    pub wire: Vec<WireEntry>,
    pub events: Vec<ConnEvent>,
}

struct Out {
    frames: Vec<Frame>,
    /// index of the received packet this answers (None: CONNACK or unsolicited)
    in_reply_to: Option<usize>,
}

struct Serve {
    conn: usize,
    codec: Codec,
    policy: ConnPolicy,
    log: Arc<Mutex<BrokerLog>>,
    t0: Instant,
    /// absolute ms at which this connection was accepted
    acc: Ms,
    queue: BTreeMap<(Ms, u64), Out>,
    seq: u64,
    counts: BTreeMap<On, usize>,
    window: Vec<Frame>,
    window_deadline: Option<Ms>,
    rx_packets: usize,
    rx_bytes: u64,
    tx_bytes: u64,
    saw_connect: bool,
    close_now: Option<String>,
}

impl Serve {
    fn now(&self) -> Ms {
        (Instant::now() - self.t0).as_millis() as Ms
    }
    fn event(&self, what: ConnEventKind) {
        let at = self.now();
        self.log.lock().unwrap().events.push(ConnEvent { at, conn: self.conn, what });
    }
    fn schedule(&mut self, at: Ms, frames: Vec<Frame>, in_reply_to: Option<usize>) {
        if frames.is_empty() {
            return;
        }
        self.seq += 1;
        self.queue.insert((at, self.seq), Out { frames, in_reply_to });
    }

    fn normal_reply(&self, raw: &Packet, pk: &Pk) -> Vec<Frame> {
        let ver = self.codec.ver;
        match pk.kind {
            Kind::Publish if pk.qos == 1 => vec![wire::ack(Kind::PubAck, pk.pkid, 0)],
            Kind::Publish if pk.qos == 2 => vec![wire::ack(Kind::PubRec, pk.pkid, 0)],
            Kind::PubRel => vec![wire::ack(Kind::PubComp, pk.pkid, 0)],
            Kind::PubRec => vec![wire::ack(Kind::PubRel, pk.pkid, 0)],
            Kind::Subscribe => {
                let qos: Vec<u8> = match raw {
                    Packet::Subscribe(s, _) => s.filters.iter().map(|f| f.qos as u8).collect(),
                    _ => vec![0],
                };
                vec![wire::suback(ver, pk.pkid, &qos)]
            }
            Kind::Unsubscribe => vec![wire::unsuback(ver, pk.pkid, pk.filters.len())],
            Kind::PingReq => vec![wire::pingresp()],
            _ => vec![],
        }
    }

    fn with_id(&self, pk: &Pk, id: u16) -> Vec<Frame> {
        let ver = self.codec.ver;
        match pk.kind {
            Kind::Publish if pk.qos == 1 => vec![wire::ack(Kind::PubAck, id, 0)],
            Kind::Publish if pk.qos == 2 => vec![wire::ack(Kind::PubRec, id, 0)],
            Kind::PubRel => vec![wire::ack(Kind::PubComp, id, 0)],
            Kind::PubRec => vec![wire::ack(Kind::PubRel, id, 0)],
            Kind::Subscribe => vec![wire::suback(ver, id, &vec![pk.qos; pk.filters.len().max(1)])],
            Kind::Unsubscribe => vec![wire::unsuback(ver, id, pk.filters.len())],
            Kind::PingReq => vec![wire::pingresp(), wire::ack(Kind::PubAck, id, 0)],
            _ => vec![],
        }
    }

    fn wrong_kind(&self, pk: &Pk) -> Vec<Frame> {
        let ver = self.codec.ver;
        match pk.kind {
            Kind::Publish if pk.qos == 1 => vec![wire::ack(Kind::PubRec, pk.pkid, 0)],
            Kind::Publish if pk.qos == 2 => vec![wire::ack(Kind::PubAck, pk.pkid, 0)],
            Kind::PubRel => vec![wire::ack(Kind::PubAck, pk.pkid, 0)],
            Kind::PubRec => vec![wire::ack(Kind::PubComp, pk.pkid, 0)],
            Kind::Subscribe => vec![wire::unsuback(ver, pk.pkid, 1)],
            Kind::Unsubscribe => vec![wire::suback(ver, pk.pkid, &[0])],
            _ => vec![],
        }
    }

    fn with_reason(&self, pk: &Pk, code: u8) -> Vec<Frame> {
        let ver = self.codec.ver;
        match pk.kind {
            Kind::Publish if pk.qos == 1 => vec![wire::ack(Kind::PubAck, pk.pkid, code)],
            Kind::Publish if pk.qos == 2 => vec![wire::ack(Kind::PubRec, pk.pkid, code)],
            Kind::PubRel => vec![wire::ack(Kind::PubComp, pk.pkid, code)],
            Kind::PubRec => vec![wire::ack(Kind::PubRel, pk.pkid, code)],
            Kind::Subscribe => vec![wire::suback(ver, pk.pkid, &vec![code; pk.filters.len().max(1)])],
            _ => vec![],
        }
    }

    /// one decoded packet from the client
    fn handle(&mut self, raw: Packet) {
        let now = self.now();
        let pk = wire::reduce(&raw);
        self.log.lock().unwrap().wire.push(WireEntry {
            at: now,
            conn: self.conn,
            dir: Dir::C2B,
            pk: pk.clone(),
            raw: Some(raw.clone()),
            end_offset: self.rx_bytes,
            suppressed: false,
        });
        if pk.kind == Kind::Connect && !self.saw_connect {
            self.saw_connect = true;
            match self.policy.connack.clone() {
                ConnAckRule::Send {
                    session_present,
                    code,
                    delay_ms,
                    props,
                } => {
                    let f = wire::connack(self.codec.ver, session_present, code, props);
                    self.schedule(now + delay_ms, vec![f], None);
                    for b in self.policy.unsolicited.clone() {
                        self.schedule((self.acc + b.at_ms).max(now + delay_ms), b.frames, None);
                    }
                }
                ConnAckRule::Never => {}
                ConnAckRule::Raw { bytes, delay_ms, note } => {
                    let mut k = Pk::of(Kind::Other);
                    k.note = note;
                    self.schedule(now + delay_ms, vec![Frame::Raw(bytes, k)], None);
                }
            }
            return;
        }
        let index = self.rx_packets;
        self.rx_packets += 1;
        if self.policy.close_after_packet == Some(index) {
            self.close_now = Some(format!("script: close after packet {index}"));
            return;
        }
        if pk.kind == Kind::Disconnect {
            self.close_now = Some("client sent DISCONNECT".into());
            return;
        }
        let on = match pk.kind {
            Kind::Publish if pk.qos == 1 => On::PublishQ1,
            Kind::Publish if pk.qos == 2 => On::PublishQ2,
            Kind::PubRel => On::PubRel,
            Kind::Subscribe => On::Subscribe,
            Kind::Unsubscribe => On::Unsubscribe,
            Kind::PingReq => On::PingReq,
            Kind::PubRec => On::PubRec,
            _ => return, // QoS 0 publish, PUBACK, PUBCOMP, …: nothing owed
        };
        let i = {
            let c = self.counts.entry(on).or_insert(0);
            *c += 1;
            *c - 1
        };
        let rule = self.policy.rules.get(&on).map(|s| s.pick(i)).unwrap_or(Reply::Normal);
        let normal = self.normal_reply(&raw, &pk);
        match rule {
            Reply::Normal => self.schedule(now, normal, Some(index)),
            Reply::Delay(d) => self.schedule(now + d, normal, Some(index)),
            Reply::Duplicate => {
                let mut twice = normal.clone();
                twice.extend(normal);
                self.schedule(now, twice, Some(index));
            }
            Reply::Drop => {}
            Reply::WrongKind => {
                let f = self.wrong_kind(&pk);
                self.schedule(now, f, Some(index));
            }
            Reply::UnsolicitedId(id) | Reply::IdAboveLimit(id) => {
                let f = self.with_id(&pk, id);
                self.schedule(now, f, Some(index));
            }
            Reply::Reason(code) => {
                let f = self.with_reason(&pk, code);
                self.schedule(now, f, Some(index));
            }
            Reply::Reorder(n) => {
                self.window.extend(normal);
                if self.window.len() >= n.max(1) {
                    self.release_window(now);
                } else if self.window_deadline.is_none() {
                    self.window_deadline = Some(now + REORDER_FLUSH_MS);
                }
            }
        }
    }

    fn release_window(&mut self, now: Ms) {
        let mut frames = std::mem::take(&mut self.window);
        frames.reverse();
        self.window_deadline = None;
        self.schedule(now, frames, None);
    }

    /// absolute time of the next thing the broker has to do by itself
    fn next_deadline(&self, horizon: Ms) -> Ms {
        let mut t = horizon;
        if let Some(((at, _), _)) = self.queue.iter().next() {
            t = t.min(*at);
        }
        if let Some(w) = self.window_deadline {
            t = t.min(w);
        }
        if let Some(c) = self.policy.close_at_ms {
            t = t.min(self.acc + c);
        }
        if let Some(s) = self.policy.stop_reading_at_ms {
            if self.now() < self.acc + s {
                t = t.min(self.acc + s);
            }
        }
        t
    }

    /// everything that is due, as one buffer
    fn take_due(&mut self, now: Ms) -> Vec<u8> {
        let mut bytes = vec![];
        let silent_time = self.policy.silent_from_ms.map(|s| now >= self.acc + s).unwrap_or(false);
        while let Some((&(at, seq), _)) = self.queue.iter().next() {
            if at > now {
                break;
            }
            let out = self.queue.remove(&(at, seq)).unwrap();
            let silent_packet = match (self.policy.silent_from_packet, out.in_reply_to) {
                (Some(n), Some(i)) => i >= n,
                _ => false,
            };
            for f in &out.frames {
                let (b, pk) = match f.encode(&self.codec) {
                    Ok(x) => x,
                    Err(why) => {
                        let mut k = Pk::of(Kind::Undecodable);
                        k.note = format!("broker encoder refused a scripted frame: {why}");
                        (vec![], k)
                    }
                };
                let suppressed = silent_time || silent_packet || b.is_empty();
                if !suppressed {
                    self.tx_bytes += b.len() as u64;
                    bytes.extend_from_slice(&b);
                }
                self.log.lock().unwrap().wire.push(WireEntry {
                    at: now,
                    conn: self.conn,
                    dir: Dir::B2C,
                    pk,
                    raw: match f {
                        Frame::Packet(p) => Some((**p).clone()),
                        Frame::Raw(..) => None,
                    },
                    end_offset: self.tx_bytes,
                    suppressed,
                });
            }
        }
        bytes
    }
}

/// Serve one connection until the client goes away, the script closes it, or `horizon`
/// (absolute virtual ms) is reached.
pub(crate) async fn serve(
    conn: usize,
    mut stream: DuplexStream,
    policy: ConnPolicy,
    ver: Ver,
    log: Arc<Mutex<BrokerLog>>,
    t0: Instant,
    horizon: Ms,
) {
    let acc = (Instant::now() - t0).as_millis() as Ms;
    let mut s = Serve {
        conn,
        codec: Codec { ver },
        policy,
        log,
        t0,
        acc,
        queue: BTreeMap::new(),
        seq: 0,
        counts: BTreeMap::new(),
        window: vec![],
        window_deadline: None,
        rx_packets: 0,
        rx_bytes: 0,
        tx_bytes: 0,
        saw_connect: false,
        close_now: None,
    };
    s.event(ConnEventKind::Accepted);
    let mut buf = BytesMut::with_capacity(4096);
    let at = |ms: Ms| t0 + Duration::from_millis(ms);
    let mut reading = true;
    loop {
        let now = s.now();
        if let Some(w) = s.window_deadline {
            if w <= now {
                s.release_window(now);
            }
        }
        let bytes = s.take_due(now);
        if !bytes.is_empty() {
            // a full pipe must not keep the broker from honouring the horizon
            tokio::select! {
                biased;
                r = stream.write_all(&bytes) => {
                    if r.is_err() {
                        s.event(ConnEventKind::ClientClosed { leftover: buf.len() });
                        return;
                    }
                }
                _ = tokio::time::sleep_until(at(horizon)) => {
                    s.event(ConnEventKind::BrokerClosed { why: "horizon (write blocked)".into() });
                    return;
                }
            }
        }
        if let Some(why) = s.close_now.take() {
            s.event(ConnEventKind::BrokerClosed { why });
            return;
        }
        let now = s.now();
        if now >= horizon {
            s.event(ConnEventKind::BrokerClosed { why: "horizon".into() });
            return;
        }
        if let Some(c) = s.policy.close_at_ms {
            if now >= acc + c {
                s.event(ConnEventKind::BrokerClosed { why: "script: close_at_ms".into() });
                return;
            }
        }
        if let Some(t) = s.policy.stop_reading_at_ms {
            if reading && now >= acc + t {
                reading = false;
                s.event(ConnEventKind::StoppedReading);
            }
        }
        let deadline = s.next_deadline(horizon);
        if deadline <= now {
            continue;
        }
        tokio::select! {
            biased;
            r = stream.read_buf(&mut buf), if reading => {
                match r {
                    Ok(0) | Err(_) => {
                        s.event(ConnEventKind::ClientClosed { leftover: buf.len() });
                        return;
                    }
                    Ok(_) => loop {
                        let before = buf.len();
                        match s.codec.decode(&mut buf) {
                            Decoded::Packet(p) => {
                                s.rx_bytes += (before - buf.len()) as u64;
                                s.handle(*p);
                                if s.close_now.is_some() {
                                    break;
                                }
                            }
                            Decoded::NeedMore => break,
                            Decoded::Bad(why) => {
                                s.event(ConnEventKind::Undecodable { why: why.clone() });
                                s.close_now = Some(format!("undecodable bytes from the client: {why}"));
                                break;
                            }
                        }
                    },
                }
            }
            _ = tokio::time::sleep_until(at(deadline)) => {}
        }
    }
}
