//! `FaultyStream`: the client's end of the in-memory pipe, with byte counters in both
//! directions and two optional faults (DESIGN.md 2.6):
//!
//! * client→broker: after exactly `k` bytes have been accepted every further write fails with
//!   `BrokenPipe` (a write that straddles `k` is a *partial write* of the bytes up to `k`);
//! * broker→client: after exactly `k'` bytes have been delivered the stream ends, either as a
//!   clean EOF or as `ConnectionReset`.
//!
//! `k = 0` / `k' = 0` fail the very first write / read. The counters are shared
//! (`Arc<Mutex<IoCount>>`) so a fault-free run can be recorded first (`c2b`, `b2c` totals) and
//! every `k ∈ [0, c2b]`, `k' ∈ [0, b2c]` enumerated afterwards.
//!
//! `IoCount.intended_c2b` is the byte stream the client *tried* to write: everything that was
//! accepted plus the buffer of the first rejected write. Decoding it tells which frame a
//! fault cut in the middle.
use serde::Serialize;
use std::io;
use std::pin::Pin;
use std::sync::{Arc, Mutex};
use std::task::{Context, Poll};
use tokio::io::{AsyncRead, AsyncWrite, DuplexStream, ReadBuf};

#[derive(Clone, Copy, Debug, PartialEq, Eq, Serialize)]
pub enum EndKind {
    /// read returns 0 bytes
    Eof,
    /// read returns `ConnectionReset`
    Reset,
}

#[derive(Clone, Copy, Debug, PartialEq, Eq, Serialize)]
pub struct Fault {
    /// client→broker: fail after exactly this many bytes
    pub c2b_fail_after: Option<u64>,
    /// broker→client: end after exactly this many bytes
    pub b2c_end_after: Option<u64>,
    pub b2c_end: EndKind,
}

impl Fault {
    pub const NONE: Fault = Fault {
        c2b_fail_after: None,
        b2c_end_after: None,
        b2c_end: EndKind::Eof,
    };
    pub fn c2b(k: u64) -> Fault {
        Fault {
            c2b_fail_after: Some(k),
            ..Fault::NONE
        }
    }
    pub fn b2c(k: u64, end: EndKind) -> Fault {
        Fault {
            b2c_end_after: Some(k),
            b2c_end: end,
            ..Fault::NONE
        }
    }
    pub fn is_none(&self) -> bool {
        self.c2b_fail_after.is_none() && self.b2c_end_after.is_none()
    }
}

#[derive(Clone, Copy, Debug, PartialEq, Eq, Serialize)]
pub enum Dir {
    /// client → broker
    C2B,
    /// broker → client
    B2C,
}

#[derive(Clone, Debug, Default)]
pub struct IoCount {
    /// bytes accepted from the client (delivered into the pipe)
    pub c2b: u64,
    /// bytes delivered to the client
    pub b2c: u64,
    /// accepted bytes + the buffer of the first rejected write
    pub intended_c2b: Vec<u8>,
    /// which fault fired first, and at which byte count of that direction
    pub fired: Option<(Dir, u64)>,
    /// virtual ms at which the fault fired (filled by the owner of the clock)
    pub fired_at_ms: Option<u64>,
}

pub struct FaultyStream {
    inner: DuplexStream,
    fault: Fault,
    io: Arc<Mutex<IoCount>>,
    clock: Arc<dyn Fn() -> u64 + Send + Sync>,
}

impl FaultyStream {
    /// `clock` returns the current virtual time in ms (used only to stamp the fault)
    pub fn new(
        inner: DuplexStream,
        fault: Fault,
        io: Arc<Mutex<IoCount>>,
        clock: Arc<dyn Fn() -> u64 + Send + Sync>,
    ) -> FaultyStream {
        FaultyStream {
            inner,
            fault,
            io,
            clock,
        }
    }

    fn fire(&self, dir: Dir, at: u64, cut: Option<&[u8]>) {
        let mut io = self.io.lock().unwrap();
        if io.fired.is_none() {
            io.fired = Some((dir, at));
            io.fired_at_ms = Some((self.clock)());
            if let Some(cut) = cut {
                io.intended_c2b.extend_from_slice(cut);
            }
        }
    }
}

impl AsyncWrite for FaultyStream {
    fn poll_write(self: Pin<&mut Self>, cx: &mut Context<'_>, buf: &[u8]) -> Poll<io::Result<usize>> {
        let me = self.get_mut();
        let mut allowed = buf.len();
        if let Some(k) = me.fault.c2b_fail_after {
            let written = me.io.lock().unwrap().c2b;
            if written >= k && !buf.is_empty() {
                me.fire(Dir::C2B, written, Some(buf));
                return Poll::Ready(Err(io::Error::new(io::ErrorKind::BrokenPipe, "verif: c2b fault")));
            }
            allowed = allowed.min((k - written.min(k)) as usize);
        }
        match Pin::new(&mut me.inner).poll_write(cx, &buf[..allowed]) {
            Poll::Ready(Ok(n)) => {
                let mut io = me.io.lock().unwrap();
                io.c2b += n as u64;
                if !matches!(io.fired, Some((Dir::C2B, _))) {
                    io.intended_c2b.extend_from_slice(&buf[..n]);
                }
                Poll::Ready(Ok(n))
            }
            other => other,
        }
    }

    fn poll_flush(self: Pin<&mut Self>, cx: &mut Context<'_>) -> Poll<io::Result<()>> {
        Pin::new(&mut self.get_mut().inner).poll_flush(cx)
    }

    fn poll_shutdown(self: Pin<&mut Self>, cx: &mut Context<'_>) -> Poll<io::Result<()>> {
        Pin::new(&mut self.get_mut().inner).poll_shutdown(cx)
    }
}

impl AsyncRead for FaultyStream {
    fn poll_read(self: Pin<&mut Self>, cx: &mut Context<'_>, buf: &mut ReadBuf<'_>) -> Poll<io::Result<()>> {
        let me = self.get_mut();
        let Some(k) = me.fault.b2c_end_after else {
            let before = buf.filled().len();
            let r = Pin::new(&mut me.inner).poll_read(cx, buf);
            if let Poll::Ready(Ok(())) = &r {
                me.io.lock().unwrap().b2c += (buf.filled().len() - before) as u64;
            }
            return r;
        };
        let read = me.io.lock().unwrap().b2c;
        if read >= k {
            me.fire(Dir::B2C, read, None);
            return match me.fault.b2c_end {
                EndKind::Eof => Poll::Ready(Ok(())),
                EndKind::Reset => {
                    Poll::Ready(Err(io::Error::new(io::ErrorKind::ConnectionReset, "verif: b2c fault")))
                }
            };
        }
        let want = ((k - read) as usize).min(buf.remaining());
        if want == 0 {
            return Poll::Ready(Ok(()));
        }
        let mut tmp = vec![0u8; want];
        let mut sub = ReadBuf::new(&mut tmp);
        match Pin::new(&mut me.inner).poll_read(cx, &mut sub) {
            Poll::Ready(Ok(())) => {
                let got = sub.filled();
                buf.put_slice(got);
                me.io.lock().unwrap().b2c += got.len() as u64;
                Poll::Ready(Ok(()))
            }
            other => other,
        }
    }
}
