//! S3 wire view: packets as the *broker's* codec (`rumqttd::protocol::{v4::V4, v5::V5}`) sees
//! them, reduced to one flat, serialisable struct (`Pk`), plus the frames the scripted broker
//! writes (built with the broker's `write`, or raw bytes for hostile frames).
//!
//! The client under test encodes/decodes with `rumqttc::mqttbytes`; judging its traffic with
//! the other crate's codec is the "independent wire decoder" of DESIGN.md 2.4.
use crate::gen::dpkt;
use bytes::BytesMut;
use rumqttd::protocol::{self as dp, v4::V4, v5::V5, Packet, Protocol};
use serde::Serialize;

/// Which client / protocol version a scenario drives
#[derive(Clone, Copy, Debug, PartialEq, Eq, Hash, PartialOrd, Ord, Serialize)]
pub enum Ver {
    V4,
    V5,
}

impl Ver {
    pub fn name(self) -> &'static str {
        match self {
            Ver::V4 => "v4",
            Ver::V5 => "v5",
        }
    }
}

#[derive(Clone, Copy, Debug, PartialEq, Eq, Hash, PartialOrd, Ord, Serialize)]
pub enum Kind {
    Connect,
    ConnAck,
    Publish,
    PubAck,
    PubRec,
    PubRel,
    PubComp,
    Subscribe,
    SubAck,
    Unsubscribe,
    UnsubAck,
    PingReq,
    PingResp,
    Disconnect,
    /// only in `poll()` events: `Outgoing::AwaitAck(pkid)` (publish parked on an id collision)
    AwaitAck,
    /// v5 AUTH or anything the reducer does not know
    Other,
    /// bytes the broker's decoder rejected (or panicked on); `note` says why
    Undecodable,
}

/// A packet reduced to the fields the oracles use. Unused fields keep their default.
#[derive(Clone, Debug, PartialEq, Eq, Serialize)]
pub struct Pk {
    pub kind: Kind,
    pub pkid: u16,
    pub qos: u8,
    pub dup: bool,
    pub retain: bool,
    /// publish topic / CONNECT client id
    pub topic: String,
    /// publish payload (lossy UTF-8; workloads use ASCII payload ids)
    pub payload: String,
    /// SUBSCRIBE / UNSUBSCRIBE filters
    pub filters: Vec<String>,
    /// CONNACK return code / v5 reason code of an ack (0 = success)
    pub code: u8,
    /// CONNACK session_present / CONNECT clean_session
    pub flag: bool,
    /// CONNECT keep-alive seconds
    pub keep_alive: u16,
    /// true iff the packet carried MQTT 5 properties
    pub props: bool,
    pub note: String,
}

impl Pk {
    pub fn of(kind: Kind) -> Pk {
        Pk {
            kind,
            pkid: 0,
            qos: 0,
            dup: false,
            retain: false,
            topic: String::new(),
            payload: String::new(),
            filters: vec![],
            code: 0,
            flag: false,
            keep_alive: 0,
            props: false,
            note: String::new(),
        }
    }
    pub fn id(kind: Kind, pkid: u16) -> Pk {
        let mut p = Pk::of(kind);
        p.pkid = pkid;
        p
    }
    /// short text for messages and samples
    pub fn brief(&self) -> String {
        match self.kind {
            Kind::Publish => format!(
                "Publish(q{} id{} {}{}'{}')",
                self.qos,
                self.pkid,
                if self.dup { "dup " } else { "" },
                if self.topic.is_empty() { String::new() } else { format!("{} ", self.topic) },
                self.payload
            ),
            Kind::Subscribe | Kind::Unsubscribe => format!("{:?}(id{} {:?})", self.kind, self.pkid, self.filters),
            Kind::ConnAck => format!("ConnAck(sp={} code={})", self.flag, self.code),
            Kind::Connect => format!("Connect({} ka={} clean={})", self.topic, self.keep_alive, self.flag),
            Kind::PingReq | Kind::PingResp | Kind::Disconnect => format!("{:?}", self.kind),
            Kind::Undecodable | Kind::Other => format!("{:?}({})", self.kind, self.note),
            _ => {
                if self.code != 0 {
                    format!("{:?}({} code=0x{:02x})", self.kind, self.pkid, self.code)
                } else {
                    format!("{:?}({})", self.kind, self.pkid)
                }
            }
        }
    }
}

fn lossy(b: &[u8]) -> String {
    String::from_utf8_lossy(b).into_owned()
}

/// Reduce a broker-codec packet
pub fn reduce(p: &Packet) -> Pk {
    match p {
        Packet::Connect(c, props, _will, _wp, _login) => {
            let mut k = Pk::of(Kind::Connect);
            k.topic = c.client_id.clone();
            k.keep_alive = c.keep_alive;
            k.flag = c.clean_session;
            k.props = props.is_some();
            k
        }
        Packet::ConnAck(a, props) => {
            let mut k = Pk::of(Kind::ConnAck);
            k.flag = a.session_present;
            k.code = if a.code == dp::ConnectReturnCode::Success { 0 } else { 1 };
            k.note = format!("{:?}", a.code);
            k.props = props.is_some();
            k
        }
        Packet::Publish(p, props) => {
            let parts = dpkt::parts(p);
            let mut k = Pk::of(Kind::Publish);
            k.pkid = parts.pkid;
            k.qos = parts.qos;
            k.dup = parts.dup;
            k.retain = parts.retain;
            k.topic = lossy(&parts.topic);
            k.payload = lossy(&parts.payload);
            k.props = props.is_some();
            k
        }
        Packet::PubAck(a, props) => {
            let mut k = Pk::id(Kind::PubAck, a.pkid);
            k.code = if a.reason == dp::PubAckReason::Success { 0 } else { 0x80 };
            k.note = format!("{:?}", a.reason);
            k.props = props.is_some();
            k
        }
        Packet::PubRec(a, props) => {
            let mut k = Pk::id(Kind::PubRec, a.pkid);
            k.code = if a.reason == dp::PubRecReason::Success { 0 } else { 0x80 };
            k.note = format!("{:?}", a.reason);
            k.props = props.is_some();
            k
        }
        Packet::PubRel(a, props) => {
            let mut k = Pk::id(Kind::PubRel, a.pkid);
            k.code = if a.reason == dp::PubRelReason::Success { 0 } else { 0x92 };
            k.props = props.is_some();
            k
        }
        Packet::PubComp(a, props) => {
            let mut k = Pk::id(Kind::PubComp, a.pkid);
            k.code = if a.reason == dp::PubCompReason::Success { 0 } else { 0x92 };
            k.props = props.is_some();
            k
        }
        Packet::Subscribe(s, props) => {
            let mut k = Pk::id(Kind::Subscribe, s.pkid);
            k.filters = s.filters.iter().map(|f| f.path.clone()).collect();
            k.qos = s.filters.first().map(|f| f.qos as u8).unwrap_or(0);
            k.props = props.is_some();
            k
        }
        Packet::SubAck(a, props) => {
            let mut k = Pk::id(Kind::SubAck, a.pkid);
            k.note = format!("{:?}", a.return_codes);
            k.props = props.is_some();
            k
        }
        Packet::Unsubscribe(u, props) => {
            let mut k = Pk::id(Kind::Unsubscribe, u.pkid);
            k.filters = u.filters.clone();
            k.props = props.is_some();
            k
        }
        Packet::UnsubAck(a, props) => {
            let mut k = Pk::id(Kind::UnsubAck, a.pkid);
            k.props = props.is_some();
            k
        }
        Packet::PingReq(_) => Pk::of(Kind::PingReq),
        Packet::PingResp(_) => Pk::of(Kind::PingResp),
        Packet::Disconnect(d, props) => {
            let mut k = Pk::of(Kind::Disconnect);
            k.note = format!("{:?}", d.reason_code);
            k.props = props.is_some();
            k
        }
    }
}

/// Result of one decode attempt on a byte buffer
pub enum Decoded {
    Packet(Box<Packet>),
    /// not enough bytes for the next frame yet
    NeedMore,
    /// the decoder rejected the bytes (or panicked): the text says how
    Bad(String),
}

/// The broker's codec for one protocol version
#[derive(Clone, Copy, Debug)]
pub struct Codec {
    pub ver: Ver,
}

/// maximum frame size the scripted broker accepts (well above anything a workload sends)
pub const MAX_FRAME: usize = 4 * 1024 * 1024;

impl Codec {
    /// Decode (and remove) the next frame at the front of `buf` with the broker's decoder.
    /// The decoder is code under test for other properties, so it runs under catch_unwind.
    pub fn decode(&self, buf: &mut BytesMut) -> Decoded {
        if buf.is_empty() {
            return Decoded::NeedMore;
        }
        let ver = self.ver;
        let r = std::panic::catch_unwind(std::panic::AssertUnwindSafe(|| match ver {
            Ver::V4 => V4.read_mut(buf, MAX_FRAME),
            Ver::V5 => V5.read_mut(buf, MAX_FRAME),
        }));
        match r {
            Ok(Ok(p)) => Decoded::Packet(Box::new(p)),
            Ok(Err(dp::Error::InsufficientBytes(_))) => Decoded::NeedMore,
            Ok(Err(e)) => Decoded::Bad(format!("{e:?}")),
            Err(_) => Decoded::Bad("broker decoder panicked".into()),
        }
    }

    /// Encode with the broker's encoder
    pub fn encode(&self, p: &Packet) -> Result<Vec<u8>, String> {
        let ver = self.ver;
        let p = p.clone();
        let r = std::panic::catch_unwind(std::panic::AssertUnwindSafe(move || {
            let mut out = BytesMut::new();
            let r = match ver {
                Ver::V4 => V4.write(p, &mut out),
                Ver::V5 => V5.write(p, &mut out),
            };
            r.map(|_| out.to_vec())
        }));
        match r {
            Ok(Ok(v)) => Ok(v),
            Ok(Err(e)) => Err(format!("{e:?}")),
            Err(_) => Err("broker encoder panicked".into()),
        }
    }

    /// Decode a complete byte stream into frames with their end offsets; the tail that does
    /// not form a complete frame is reported as the number of leftover bytes.
    pub fn decode_all(&self, bytes: &[u8]) -> (Vec<(u64, Pk)>, usize) {
        let mut buf = BytesMut::from(bytes);
        let total = bytes.len();
        let mut out = vec![];
        loop {
            match self.decode(&mut buf) {
                Decoded::Packet(p) => out.push(((total - buf.len()) as u64, reduce(&p))),
                Decoded::NeedMore => return (out, buf.len()),
                Decoded::Bad(why) => {
                    let mut k = Pk::of(Kind::Undecodable);
                    k.note = why;
                    out.push((total as u64, k));
                    return (out, 0);
                }
            }
        }
    }
}

/// One frame the scripted broker writes: either built by the broker's encoder or raw bytes
#[derive(Clone, Debug)]
pub enum Frame {
    Packet(Box<Packet>),
    /// hostile / hand-made bytes; `Pk` is what the log should call them
    Raw(Vec<u8>, Pk),
}

impl Frame {
    pub fn encode(&self, codec: &Codec) -> Result<(Vec<u8>, Pk), String> {
        match self {
            Frame::Packet(p) => Ok((codec.encode(p)?, reduce(p))),
            Frame::Raw(b, pk) => Ok((b.clone(), pk.clone())),
        }
    }
}

// ---------------------------------------------------------------- frame constructors

/// CONNACK. v4: hand-made 4 bytes (any code); v5: the broker's encoder for success (with
/// optional properties), hand-made bytes for refusals.
pub fn connack(ver: Ver, session_present: bool, code: u8, props: Option<dp::ConnAckProperties>) -> Frame {
    let mut pk = Pk::of(Kind::ConnAck);
    pk.flag = session_present;
    pk.code = code;
    pk.props = props.is_some();
    match ver {
        Ver::V4 => Frame::Raw(vec![0x20, 0x02, session_present as u8, code], pk),
        Ver::V5 if code == 0 => Frame::Packet(Box::new(Packet::ConnAck(
            dp::ConnAck {
                session_present,
                code: dp::ConnectReturnCode::Success,
            },
            props,
        ))),
        Ver::V5 => Frame::Raw(vec![0x20, 0x03, session_present as u8, code, 0x00], pk),
    }
}

/// PUBACK / PUBREC / PUBREL / PUBCOMP with a reason code. Code 0 is the short 4-byte form (both
/// versions); a non-zero code is only meaningful for v5 and is written as the 5-byte form.
pub fn ack(kind: Kind, pkid: u16, code: u8) -> Frame {
    let first = match kind {
        Kind::PubAck => 0x40,
        Kind::PubRec => 0x50,
        Kind::PubRel => 0x62,
        Kind::PubComp => 0x70,
        Kind::UnsubAck => 0xB0,
        _ => panic!("ack(): {kind:?} is not a plain ack"),
    };
    let mut pk = Pk::id(kind, pkid);
    pk.code = code;
    let [hi, lo] = pkid.to_be_bytes();
    if code == 0 {
        Frame::Raw(vec![first, 0x02, hi, lo], pk)
    } else {
        Frame::Raw(vec![first, 0x03, hi, lo, code], pk)
    }
}

pub fn suback(ver: Ver, pkid: u16, qos: &[u8]) -> Frame {
    let mut pk = Pk::id(Kind::SubAck, pkid);
    pk.note = format!("{qos:?}");
    let [hi, lo] = pkid.to_be_bytes();
    let mut b = vec![0x90];
    match ver {
        Ver::V4 => {
            b.push((2 + qos.len()) as u8);
            b.extend([hi, lo]);
        }
        Ver::V5 => {
            b.push((3 + qos.len()) as u8);
            b.extend([hi, lo, 0x00]);
        }
    }
    b.extend_from_slice(qos);
    Frame::Raw(b, pk)
}

pub fn unsuback(ver: Ver, pkid: u16, filters: usize) -> Frame {
    let pk = Pk::id(Kind::UnsubAck, pkid);
    let [hi, lo] = pkid.to_be_bytes();
    match ver {
        Ver::V4 => Frame::Raw(vec![0xB0, 0x02, hi, lo], pk),
        Ver::V5 => {
            let mut b = vec![0xB0, (3 + filters) as u8, hi, lo, 0x00];
            b.extend(std::iter::repeat_n(0u8, filters));
            Frame::Raw(b, pk)
        }
    }
}

pub fn pingresp() -> Frame {
    Frame::Raw(vec![0xD0, 0x00], Pk::of(Kind::PingResp))
}

pub fn pingreq() -> Frame {
    Frame::Raw(vec![0xC0, 0x00], Pk::of(Kind::PingReq))
}

/// A broker-to-client PUBLISH built with the broker's encoder
pub fn publish(qos: u8, pkid: u16, topic: &str, payload: &str, dup: bool, retain: bool) -> Frame {
    let p = dpkt::mk_publish(dup, qos, pkid, retain, topic.as_bytes(), payload.as_bytes());
    Frame::Packet(Box::new(Packet::Publish(p, None)))
}
